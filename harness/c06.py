"""C06 — the photon source model has the statistics its parameters promise.

Correspondence (differential testing, NOT proof): the real `Source` / `Processor.source_distribution`
are run on rational parameter tuples and expected inputs; the Lean model (`Model/C06.lean`, exact
rationals, including the 1e-16 trimming of `list_tensor_product`) is asked the same question; the two
distributions are compared after canonicalising the distinguishability tags.

Parameters are generated through their rational square roots: `q = sqrt(1 - 2*beta*g2)` and
`r = sqrt(indistinguishability)` are chosen rational and Python receives `g2 = (1-q^2)/(2 beta)` and
`I = r^2` as floats (so its own `math.sqrt` returns q and r up to an ulp).

Direct oracle (independent of Lean, exact `Fraction`s): the property statement evaluated on the real
output — total mass 1, joint law of the per-mode photon counts = product of the n-fold convolutions of
(pi0, pi1, pi2) derived from (brightness, g2, transmittance), law of the number of signal-tagged
photons (carries the indistinguishability), freshness of all other tags, perfect source = identity.

Long-lived `Processor` (kind "hist"): random histories of in-place `NoiseModel.set_value` updates (through the
kept reference or through `processor.noise`), assignments (the same object again, an equal new object, a new
object differing in one field, another object, None; via `processor.noise` or `processor.experiment.noise`),
`with_input`, reads of `source_distribution` (which fill the cache) and direct requests to `processor.source`
are replayed step by step against the Lean state machine `Model/C06Proc.lean` (object identity explicit); every
read outside the "updated in place, not yet assigned again" state is also judged by the direct oracle for the
CURRENT parameters and input, with a brand-new Processor as control (signature
`history-dependent-source-distribution`).

Imperfection LATTICE: which of brightness / g2 / indistinguishability / transmittance are non-ideal (transmittance
also 0) x the multiphoton model = 48 cells; every cell goes through every kind of observation (required branches
`imp:<cell>:<kind>`), and long-lived Processors are swept across every edge of the lattice (one field of the held
NoiseModel moved between its ideal and a non-ideal value in place, then re-assigned).  A wrong shortcut predicate
(`is_perfect`, `partially_distinguishable`, truthiness tests) shows only in the cells it misjudges.

`generate_samples` is checked by a goodness-of-fit TEST (exact binomial tails, Bonferroni, total
false-alarm level 1e-9) against the exact model distribution — a statistical test, not a proof — and, as a FUNCTION OF
ITS DRAWS (kind "draws"), exactly: `random.choices` / `random.shuffle` are wrapped (module attributes, for the duration
of the call) to record the draws of a run, which are replayed through the Lean model `Model/C06Samp.lean` and compared
sample by sample; for small requests all combinations of draws are forced through the real code and the exact
push-forward of the ideal law is compared with the code's own `generate_distribution` conditioned on the filter.
"""
from __future__ import annotations

import copy
import glob
import itertools
import json
import math
import os
import random as pyrandom
import re
import time
from fractions import Fraction as F

from . import core

ALPHA = 1e-9
DIST, INDIST = "distinguishable", "indistinguishable"


# ------------------------------------------------------------------------------------------------
# parameters
# ------------------------------------------------------------------------------------------------
def derived(P):
    """spec (strings) -> dict of Fractions incl. derived g2, ind, losses"""
    beta, q, eta, r = F(P["beta"]), F(P["q"]), F(P["eta"]), F(P["r"])
    if "g2" in P:                       # malformed stream: g2 given directly, q meaningless
        g2 = F(P["g2"])
    else:
        g2 = (1 - q * q) / (2 * beta)
    return {"beta": beta, "q": q, "eta": eta, "r": r, "g2": g2, "ind": r * r, "losses": 1 - eta,
            "model": P["model"]}


def mk_source(P):
    from perceval.components import Source
    d = derived(P)
    return Source(emission_probability=float(d["beta"]), multiphoton_component=float(d["g2"]),
                  indistinguishability=float(d["ind"]), losses=float(d["losses"]),
                  multiphoton_model=d["model"])


def lean_P(P, noise=False):
    d = derived(P)
    j = {"beta": core.rat(d["beta"]), "g2": core.rat(d["g2"]), "q": core.rat(d["q"]),
         "ind": core.rat(d["ind"]), "r": core.rat(d["r"]), "model": d["model"]}
    if noise:
        j["transmittance"] = core.rat(d["eta"])
    else:
        j["eta"] = core.rat(d["eta"])
    return j


def float_safe(P):
    """the float evaluation of `_get_probs` stays within 1e-12 of the exact one"""
    d = derived(P)
    if d["g2"] == 0:
        return True
    if d["q"] == 0:   # 1 - 2*px*g2 must be exactly 0.0 in floats: dyadic beta and g2 only
        return all(x.denominator & (x.denominator - 1) == 0 for x in (d["beta"], d["g2"]))
    # p2 = (1 - x - sqrt(1 - 2x)) / g2 cancels: its float error is about 3e-16 / g2, which must stay well below the
    # comparison tolerance 1e-9 also when several requested photons multiply it
    return d["q"] >= F(1, 20) and d["g2"] >= F(1, 200000)


BETAS = [F(1), F(9, 10), F(3, 4), F(1, 2), F(2, 5), F(1, 4), F(7, 8)]
QS = [F(1), F(9, 10), F(4, 5), F(3, 5), F(1, 2), F(1, 5), F(7, 10)]
ETAS = [F(1), F(9, 10), F(3, 4), F(1, 2), F(1, 4), F(3, 5)]
RS = [F(1), F(9, 10), F(4, 5), F(1, 2), F(7, 10), F(0)]


def valid(P):
    d = derived(P)
    return (0 < d["beta"] <= 1 and 0 <= d["g2"] <= 1 and d["beta"] * d["g2"] <= F(1, 2)
            and 0 <= d["eta"] <= 1 and 0 <= d["r"] <= 1 and 0 <= d["q"] and float_safe(P))


def spec(beta, q, eta, r, model):
    return {"beta": str(F(beta)), "q": str(F(q)), "eta": str(F(eta)), "r": str(F(r)), "model": model}


# the classes of parameter tuples every run must contain (name -> spec)
FIXED = {
    "pd-dist": spec(F(1, 2), F(4, 5), F(1, 2), F(9, 10), DIST),           # g2>0, loss, I<1
    "pd-indist": spec(F(3, 4), F(3, 5), F(3, 4), F(4, 5), INDIST),        # g2>0, loss, I<1
    "pd-dist-I1": spec(F(9, 10), F(4, 5), F(9, 10), F(1), DIST),          # I=1 but g2>0 in DIST model
    "nonpd-g2": spec(F(2, 5), F(4, 5), F(3, 4), F(1), INDIST),            # unannotated with g2>0, loss
    "nonpd-plain": spec(F(2, 5), F(1), F(1), F(1), DIST),                 # brightness only
    "hom-only": spec(F(1), F(1), F(1), F(7, 10), DIST),                   # I<1 only
    "perfect": spec(F(1), F(1), F(1), F(1), DIST),
    "perfect-indist": spec(F(1), F(1), F(1), F(1), INDIST),
    "q-zero": spec(F(1), F(0), F(1, 2), F(9, 10), DIST),                  # beta*g2 = 1/2 exactly
    "eta-zero": spec(F(1, 2), F(4, 5), F(0), F(9, 10), INDIST),           # everything lost
    "no-loss-g2": spec(F(1), F(3, 5), F(1), F(1, 2), INDIST),             # p0 = 0, p21 = 0
    "r-zero": spec(F(3, 4), F(9, 10), F(9, 10), F(0), DIST),              # I = 0
    "loss-only": spec(F(1), F(1), F(3, 4), F(1), DIST),                   # only the transmittance is imperfect
    "r-zero-indist": spec(F(1), F(4, 5), F(1, 2), F(0), INDIST),          # I = 0, g2 > 0, loss
}


# The LATTICE of imperfections: which of the four parameters differ from their ideal value, times the
# multiphoton model.  The code under test decides between its branches with predicates over exactly this
# lattice (`is_perfect`, `partially_distinguishable`, the truthiness short-cuts of `_compute_prob_table`), so a
# wrong predicate shows only in the cells it misjudges — typically one where a SINGLE parameter is imperfect
# (e.g. g2 > 0 alone, indistinguishable model).  Every cell is a required class of every kind of observation.
# axis letter: b = brightness < 1, g = g2 > 0, h = indistinguishability < 1, l = 0 < transmittance < 1,
# L = transmittance 0.
AXES = (("beta", "b", (F(3, 4),)), ("q", "g", (F(3, 5),)), ("r", "h", (F(4, 5),)), ("eta", "l", (F(3, 4),)))
AXIS_GRID = {"beta": BETAS, "q": QS, "r": RS, "eta": ETAS}


def cell_of(P):
    """name of the lattice cell of a parameter tuple, e.g. 'g:indist', 'none:dist', 'b+g+h+l:dist'"""
    d = derived(P)
    on = []
    if d["beta"] != 1:
        on.append("b")
    if d["g2"] != 0:
        on.append("g")
    if d["ind"] != 1:
        on.append("h")
    if d["eta"] != 1:
        on.append("L" if d["eta"] == 0 else "l")
    return ("+".join(on) or "none") + (":dist" if d["model"] == DIST else ":indist")


def lattice_params(mask, model, total_loss=False, rng=None):
    """the parameter tuple of a cell: the axes in `mask` (bits 0..3 = b, g, h, l) take a non-ideal value (the
    fixed one, or with `rng` any non-ideal value of the grid), the others are exactly ideal"""
    for _ in range(200):
        v = {"beta": F(1), "q": F(1), "r": F(1), "eta": F(1)}
        for bit, (key, _, fixed) in enumerate(AXES):
            if mask >> bit & 1:
                if key == "eta" and total_loss:
                    v[key] = F(0)
                elif rng is None:
                    v[key] = fixed[0]
                else:
                    v[key] = rng.choice([x for x in AXIS_GRID[key] if x != 1 and (key != "eta" or x != 0)])
        P = spec(v["beta"], v["q"], v["eta"], v["r"], model)
        if valid(P):
            return P
    raise AssertionError("no admissible tuple for lattice cell")


def build_lattice():
    out = {}
    for mask in range(16):
        for model in (DIST, INDIST):
            P = lattice_params(mask, model)
            out[cell_of(P)] = P
            if mask & 8:
                P = lattice_params(mask, model, total_loss=True)
                out[cell_of(P)] = P
    return out


LATTICE = build_lattice()
POOL = list(FIXED.values()) + list(LATTICE.values())
assert len(LATTICE) == 48 and all(cell_of(P) == k for k, P in LATTICE.items())
# kinds of observation every cell must go through (cells with total loss: no filtered sampling, the filter
# cannot be met)
LATTICE_KINDS = ("gen", "pd", "proc", "table", "samples-nofilter", "samples-filter", "hist-read", "draws-nofilter",
                 "draws-filter")


def lattice_required():
    return [f"imp:{c}:{k}" for c in LATTICE for k in LATTICE_KINDS
            if not (k == "samples-filter" and "L" in c.split(":")[0])]


# MAGNITUDES.  The lattice says WHICH parameters are imperfect, not HOW MUCH: a piecewise evaluation (a series
# expansion below some threshold of brightness*g2, a shortcut for "negligible" loss, ...) is only entered for
# values of the right order of magnitude.  Every decade of x = brightness*g2 from 1e-5 (below that the float
# cancellation of the code's closed form exceeds the comparison tolerance) to 1e-2, with brightness < 1 and = 1, and
# the extremes of the other axes are required classes of every exact kind of observation.
MAG_QS = (F(99, 100), F(999, 1000), F(9999, 10000), F(99999, 100000))      # x = (1 - q^2) / 2 ~ 1e-2 .. 1e-5
MAG_GRID = {"beta": (F(1, 100), F(1, 1000), F(999, 1000), F(1, 10)), "q": MAG_QS,
            "eta": (F(1, 100), F(1, 1000), F(999, 1000)), "r": (F(1, 100), F(999, 1000), F(9999, 10000))}
MAG_KINDS = ("gen", "pd", "proc", "table", "hist-read")


def mag_labels(P):
    """the magnitude classes a parameter tuple belongs to"""
    d = derived(P)
    out = []
    x = d["beta"] * d["g2"]
    if 0 < x < F(3, 100):
        dec = "1e-5" if x < F(3, 100000) else "1e-4" if x < F(3, 10000) else "1e-3" if x < F(3, 1000) else "1e-2"
        out.append(f"x~{dec}:{'b<1' if d['beta'] < 1 else 'b=1'}")
    if d["beta"] <= F(1, 50):
        out.append("beta<=1/50")
    if F(99, 100) <= d["beta"] < 1:
        out.append("beta>=0.99")
    if 0 < d["eta"] <= F(1, 50):
        out.append("eta<=1/50")
    if F(99, 100) <= d["eta"] < 1:
        out.append("eta>=0.99")
    if 0 < d["r"] <= F(1, 50):
        out.append("r<=1/50")
    if F(99, 100) <= d["r"] < 1:
        out.append("r>=0.99")
    return out


MAG_LABELS = [f"x~{dec}:{b}" for dec in ("1e-5", "1e-4", "1e-3", "1e-2") for b in ("b<1", "b=1")] + \
    ["beta<=1/50", "beta>=0.99", "eta<=1/50", "eta>=0.99", "r<=1/50", "r>=0.99"]


def build_mag():
    out = []
    rest = [(F(1), F(1), INDIST), (F(3, 4), F(4, 5), DIST), (F(9, 10), F(1), DIST), (F(1, 2), F(9, 10), INDIST)]
    i = 0
    for q in MAG_QS:
        for beta in (F(9, 10), F(1, 4), F(1)):
            eta, r, model = rest[i % 4]
            i += 1
            out.append(spec(beta, q, eta, r, model))
    out += [spec(F(1, 100), F(1), F(1), F(1), DIST), spec(F(1, 100), F(99999, 100000), F(3, 4), F(4, 5), INDIST),
            spec(F(1, 1000), F(999, 1000), F(1), F(9, 10), DIST), spec(F(999, 1000), F(9999, 10000), F(1), F(1), INDIST),
            spec(F(999, 1000), F(4, 5), F(999, 1000), F(999, 1000), DIST),
            spec(F(3, 4), F(3, 5), F(1, 100), F(4, 5), INDIST), spec(F(1), F(4, 5), F(1, 1000), F(1), DIST),
            spec(F(1), F(1), F(999, 1000), F(1), DIST), spec(F(1, 2), F(4, 5), F(3, 4), F(1, 100), DIST),
            spec(F(1), F(3, 5), F(1), F(1, 100), INDIST), spec(F(1), F(1), F(1), F(9999, 10000), DIST),
            spec(F(9, 10), F(999, 1000), F(9, 10), F(999, 1000), INDIST)]
    assert all(valid(P) for P in out), [P for P in out if not valid(P)]
    assert set(l for P in out for l in mag_labels(P)) == set(MAG_LABELS)
    return out


def mag_required():
    return [f"mag:{lab}:{k}" for lab in MAG_LABELS for k in MAG_KINDS]


MAG = build_mag()
POOL = POOL + MAG


def rand_params(rng):
    if rng.random() < 0.15:
        # one or two axes at an extreme order of magnitude, the others anywhere on the ordinary grid
        for _ in range(200):
            v = {"beta": rng.choice(BETAS), "q": rng.choice(QS), "eta": rng.choice(ETAS), "r": rng.choice(RS)}
            for key in rng.sample(["beta", "q", "q", "eta", "r"], rng.choice([1, 1, 2])):
                v[key] = rng.choice(MAG_GRID[key])
            P = spec(v["beta"], v["q"], v["eta"], v["r"], rng.choice([DIST, INDIST]))
            if valid(P):
                return P
    if rng.random() < 0.3:
        # a random cell of the imperfection lattice with random non-ideal values on the switched-on axes (a
        # uniformly random tuple has almost never a parameter EXACTLY at its ideal value)
        return lattice_params(rng.randrange(16), rng.choice([DIST, INDIST]), total_loss=rng.random() < 0.1,
                              rng=rng)
    for _ in range(1000):
        if rng.random() < 0.5:
            beta, q, eta, r = rng.choice(BETAS), rng.choice(QS), rng.choice(ETAS), rng.choice(RS)
        else:
            def fr(lo=0):
                den = rng.randint(2, 16)
                return F(rng.randint(lo, den), den)
            beta, q, eta, r = fr(1), fr(1), fr(), fr()
        P = spec(beta, q, eta, r, rng.choice([DIST, INDIST]))
        if valid(P):
            return P
    return dict(FIXED["pd-dist"])


def classify(P):
    d = derived(P)
    perfect = d["beta"] == 1 and d["g2"] == 0 and d["ind"] == 1 and d["eta"] == 1
    pd = d["ind"] != 1 or (d["model"] == DIST and d["g2"] != 0)
    return perfect, pd


# ------------------------------------------------------------------------------------------------
# canonicalisation of annotated states
# ------------------------------------------------------------------------------------------------
_ANN = re.compile(r"_:(\d+)")


def bs_modes(bs):
    """BasicState -> list (per mode) of tags: None (no annotation) or int k (annotation _:k)."""
    out = []
    for m in range(bs.m):
        tags = []
        for a in bs.get_mode_annotations(m):
            s = str(a)
            if s == "":
                tags.append(None)
            else:
                mt = _ANN.fullmatch(s)
                if not mt:
                    raise ValueError(f"unexpected annotation {s!r}")
                tags.append(int(mt.group(1)))
        if len(tags) != bs[m]:
            raise ValueError("annotation count differs from photon count")
        out.append(tags)
    return out


def canon(modes, none_as_zero=False):
    """Complete invariant of an annotated Fock state under renaming of the non-zero tags (tag 0 = the
    signal tag and 'no annotation' are fixed): occupation vector of the unannotated photons, of tag 0,
    and the sorted multiset of the occupation vectors of all other tags."""
    m = len(modes)
    occ_none = [0] * m
    occ_zero = [0] * m
    other = {}
    for i, tags in enumerate(modes):
        for t in tags:
            if t is None and not none_as_zero:
                occ_none[i] += 1
            elif t is None or t == 0:
                occ_zero[i] += 1
            else:
                other.setdefault(t, [0] * m)[i] += 1
    return (tuple(occ_none), tuple(occ_zero), tuple(sorted(tuple(v) for v in other.values())))


def svd_entries(svd):
    """SVDistribution/BSDistribution -> list of (modes, prob); every key must be a single Fock state."""
    from perceval.utils import BasicState
    out = []
    for k, p in svd.items():
        if isinstance(k, BasicState):
            bs = k
        else:
            if len(k) != 1:
                raise ValueError("a superposed state in the source distribution")
            bs = k[0]
        out.append((bs_modes(bs), float(p)))
    return out


def to_canon_dict(entries, none_as_zero=False, exact=False):
    d = {}
    for modes, p in entries:
        c = canon(modes, none_as_zero)
        d[c] = d.get(c, 0) + (p if exact else float(p))
    return d


def lean_entries(dist):
    return [(modes, F(p)) for modes, p in dist]


def cmp_dicts(real, model):
    """-> None or (key, real, model)"""
    worst = None
    for k in set(real) | set(model):
        x, xh = real.get(k, 0.0), float(model.get(k, 0))
        if not core.close(x, xh):
            if worst is None or abs(x - xh) > abs(worst[1] - worst[2]):
                worst = (k, x, xh)
    return worst


# ------------------------------------------------------------------------------------------------
# direct oracle: the property statement on the real output, exact Fractions
# ------------------------------------------------------------------------------------------------
def closed_forms(P):
    """(pi0, pi1, pi2) and the law (z0, z1, z2) of the number of signal-tagged photons produced by one
    requested photon, from the *physical description*: emission probability beta; p2 solves
    g2 = 2 p2/(p1+2 p2)^2 with p1+p2 = beta; every photon survives with probability eta; the signal photon
    carries the common tag with probability r = sqrt(I); the extra photon is fresh ("distinguishable"
    model) or carries the common tag ("indistinguishable" model)."""
    d = derived(P)
    beta, q, eta, r, g2 = d["beta"], d["q"], d["eta"], d["r"], d["g2"]
    p2 = beta * (1 - q) / (1 + q)
    p1 = beta - p2
    assert p1 >= 0 and p2 >= 0
    if p2 != 0:
        assert g2 == 2 * p2 / (p1 + 2 * p2) ** 2, "harness: p2 does not solve the g2 equation"
    else:
        assert g2 == 0
    pi = [(1 - beta) + p1 * (1 - eta) + p2 * (1 - eta) ** 2, p1 * eta + 2 * p2 * eta * (1 - eta), p2 * eta ** 2]
    assert sum(pi) == 1
    s = eta * r                       # a present signal photon survives and carries the common tag
    if d["model"] == DIST:
        z = [1 - beta * s, beta * s, F(0)]
    else:
        z2 = p2 * s * eta
        z1 = p1 * s + p2 * (s * (1 - eta) + (1 - s) * eta)
        z = [1 - z1 - z2, z1, z2]
    return pi, z


def conv_pow(v, n):
    out = [F(1)]
    for _ in range(n):
        new = [F(0)] * (len(out) + len(v) - 1)
        for i, a in enumerate(out):
            for j, b in enumerate(v):
                new[i + j] += a * b
        out = new
    return out


def oracle_distribution(P, ns, entries, tol_extra=0.0):
    """Property statement on a real (unfiltered, default-threshold) distribution.
    -> None or (signature, text)."""
    perfect, pd = classify(P)
    total = sum(p for _, p in entries)
    if not core.close(total, 1.0):
        return ("mass-not-one", f"the generated distribution has total probability {total!r}")
    if any(p < 0 for _, p in entries):
        return ("negative-probability", "a state has negative probability")
    if perfect:
        want = canon([[None] * n for n in ns])
        got = to_canon_dict(entries)
        if set(k for k, v in got.items() if v > 1e-12) != {want} or not core.close(got.get(want, 0.0), 1.0):
            return ("perfect-not-identity", "a perfect source does not return the requested state unchanged")
        return None
    pi, z = closed_forms(P)
    # joint law of the per-mode photon counts
    per_mode = [conv_pow(pi, n) for n in ns]
    got = {}
    for modes, p in entries:
        if len(modes) != len(ns):
            return ("mode-count", f"a generated state has {len(modes)} modes for {len(ns)} requested")
        c = tuple(len(t) for t in modes)
        got[c] = got.get(c, 0.0) + p
    for c in set(got) | set(itertools.product(*[range(len(v)) for v in per_mode])):
        want = F(1)
        for i, k in enumerate(c):
            want *= per_mode[i][k] if k < len(per_mode[i]) else 0
        if not core.close(got.get(c, 0.0), float(want)):
            return ("count-law", f"P(photon counts per mode = {list(c)}) is {got.get(c, 0.0)!r}, the law fixed by "
                                 f"brightness/g2/transmittance is {float(want)!r}")
    # freshness of the non-signal tags + law of the number of signal-tagged photons
    zlaw = conv_pow(z, sum(ns))
    gz = {}
    for modes, p in entries:
        flat = [t for tags in modes for t in tags]
        others = [t for t in flat if t not in (None, 0)]
        if len(set(others)) != len(others) and p > 1e-12:
            return ("tags-not-fresh", f"two photons share the non-signal tag in {modes}")
        if pd and any(t is None for t in flat) and p > 1e-12:
            return ("unannotated-photon", f"an unannotated photon in a partially distinguishable mixture: {modes}")
        k = sum(1 for t in flat if t in (None, 0))
        gz[k] = gz.get(k, 0.0) + p
    for k in set(gz) | set(range(len(zlaw))):
        want = zlaw[k] if k < len(zlaw) else F(0)
        if not core.close(gz.get(k, 0.0), float(want)):
            return ("signal-tag-law", f"P({k} photons carry the signal tag) is {gz.get(k, 0.0)!r}; indistinguishability "
                                      f"{float(derived(P)['ind'])} demands {float(want)!r}")
    return None


def oracle_structure(P, ns, entries, normalised):
    """The clauses of the property that hold at EVERY trimming threshold (theorems `tags_fresh`,
    `generate_normalised`): evaluated on the real output when an explicit threshold makes the probability
    laws inexact.  -> None or (signature, text)."""
    perfect, pd = classify(P)
    if any(p < 0 for _, p in entries):
        return ("negative-probability", "a state has negative probability")
    if normalised and entries and not core.close(sum(p for _, p in entries), 1.0):
        return ("mass-not-one", f"the generated distribution has total probability {sum(p for _, p in entries)!r}")
    for modes, p in entries:
        if len(modes) != len(ns):
            return ("mode-count", f"a generated state has {len(modes)} modes for {len(ns)} requested")
        flat = [t for tags in modes for t in tags]
        others = [t for t in flat if t not in (None, 0)]
        if len(set(others)) != len(others) and p > 1e-12:
            return ("tags-not-fresh", f"two photons share the non-signal tag in {modes}")
        if pd and not perfect and any(t is None for t in flat) and p > 1e-12:
            return ("unannotated-photon", f"an unannotated photon in a partially distinguishable mixture: {modes}")
        if any(len(tags) > 2 * n for tags, n in zip(modes, ns)):
            return ("too-many-photons", f"more than two photons per requested photon in {modes}")
    return None


# ------------------------------------------------------------------------------------------------
# goodness of fit (a TEST)
# ------------------------------------------------------------------------------------------------
def gof(counts, n, model, alpha=ALPHA):
    """counts: canon -> int; model: canon -> probability (sums to 1).  Exact two-sided binomial tail per
    bucket, Bonferroni over the buckets; buckets with expectation < 10 are pooled.
    -> None or text"""
    from scipy.stats import binom
    out = [k for k in counts if model.get(k, 0) == 0]
    if out:
        return f"{sum(counts[k] for k in out)} samples outside the support of the distribution, e.g. {out[0]}"
    big = {k: float(p) for k, p in model.items() if n * float(p) >= 10}
    rare_p = float(sum(F(p) if not isinstance(p, float) else p for k, p in model.items() if k not in big))
    buckets = [(k, counts.get(k, 0), p) for k, p in big.items()]
    if rare_p > 0:
        buckets.append(("rare", sum(c for k, c in counts.items() if k not in big), rare_p))
    a = alpha / max(1, len(buckets))
    for k, c, p in buckets:
        p = min(1.0, p)
        pv = 2 * min(binom.cdf(c, n, p), binom.sf(c - 1, n, p))
        if pv < a:
            return (f"bucket {k}: {c} of {n} samples, expected {n * p:.1f} (two-sided binomial p-value {pv:.3g} "
                    f"< {a:.3g})")
    return None


# ------------------------------------------------------------------------------------------------
# running the real code
# ------------------------------------------------------------------------------------------------
def advance(src, pre):
    """advance the tag counter by some earlier, unrelated calls"""
    from perceval.utils import BasicState
    if pre:
        src.generate_distribution(BasicState([pre]))
    return src.get_tag("discernability_tag")


def thr_float(case):
    return None if case.get("thr") is None else float(F(case["thr"]))


def judge_gen(chk, case):
    """generate_distribution / Processor.source_distribution vs model, then the direct oracle."""
    import perceval as pcvl
    from perceval.utils import BasicState
    P, ns = case["P"], case["ns"]
    via_proc = case["kind"] == "proc"
    thr = thr_float(case)
    try:
        if via_proc:
            d = derived(P)
            noise = pcvl.NoiseModel(
                brightness=float(d["beta"]), indistinguishability=float(d["ind"]), g2=float(d["g2"]),
                g2_distinguishable=(d["model"] == DIST), transmittance=float(d["eta"]))
            order = case.get("order", "ctor")
            t = 0
            if order == "ctor":              # noise given to the constructor, then the input
                proc = pcvl.Processor("SLOS", len(ns), noise=noise)
                proc.with_input(BasicState(ns))
            elif order == "noise-after":     # input first (perfect source), distribution read, THEN the noise
                proc = pcvl.Processor("SLOS", len(ns))
                proc.with_input(BasicState(ns))
                _ = proc.source_distribution
                proc.noise = noise
            elif order == "renoise":         # another noise model first, distribution read, then the real one
                proc = pcvl.Processor("SLOS", len(ns), noise=pcvl.NoiseModel(brightness=0.5, g2=0.1,
                                                                             indistinguishability=0.5))
                proc.with_input(BasicState(ns))
                _ = proc.source_distribution
                proc.noise = noise
            elif order == "reinput":         # same source used for another input before
                proc = pcvl.Processor("SLOS", len(ns), noise=noise)
                other = [1] + [0] * (len(ns) - 1)
                proc.with_input(BasicState(other))
                _ = proc.source_distribution
                t = proc.source.get_tag("discernability_tag")
                proc.with_input(BasicState(ns))
            else:
                raise ValueError("unknown order " + order)
            svd = proc.source_distribution
        else:
            src = mk_source(P)
            t = advance(src, case.get("pre", 0))
            svd = src.generate_distribution(BasicState(ns)) if thr is None else \
                src.generate_distribution(BasicState(ns), thr)
        entries = svd_entries(svd)
    except Exception as e:  # noqa
        return ("violation", "raises-" + type(e).__name__,
                f"{'Processor.source_distribution' if via_proc else 'generate_distribution'} raised "
                f"{type(e).__name__}: {str(e)[:200]}", case)
    rep = chk.lean.ask({"op": "gen", "P": lean_P(P, noise=via_proc), "ns": ns, "t": t,
                        "thr": core.rat(thr if thr is not None else 0)})
    fail = None
    if "err" in rep:
        fail = f"the model rejects this setting: {rep['err']}"
    else:
        if rep["near"]:
            chk.branch("near-threshold-skipped")
            return None
        if F(rep["rawmass"]) < 1:
            chk.branch("trim-active")
        worst = cmp_dicts(to_canon_dict(entries), to_canon_dict(lean_entries(rep["dist"]), exact=True))
        if worst is not None:
            fail = f"state {worst[0]}: code {worst[1]!r}, model {worst[2]!r}"
    # the property statement on the real output (only meaningful when nothing substantial is trimmed)
    if thr is None or thr <= 1e-16:
        orc = oracle_distribution(P, ns, entries)
    else:
        orc = oracle_structure(P, ns, entries, normalised=True)
    if orc is not None:
        return ("violation", orc[0], orc[1], case)
    if fail is not None:
        return ("broken", "model-vs-code:" + case["kind"], fail, case)
    return None


def judge_pd(chk, case):
    """probability_distribution(n, thr) vs model (one mode)."""
    P, n = case["P"], case["n"]
    thr = thr_float(case)
    try:
        src = mk_source(P)
        t = advance(src, case.get("pre", 0))
        svd = src.probability_distribution(n) if thr is None else src.probability_distribution(n, thr)
        entries = svd_entries(svd)
        t_after = src.get_tag("discernability_tag")
    except Exception as e:  # noqa
        return ("violation", "raises-" + type(e).__name__,
                f"probability_distribution raised {type(e).__name__}: {str(e)[:200]}", case)
    rep = chk.lean.ask({"op": "pd", "P": lean_P(P), "n": n, "t": t, "thr": core.rat(thr if thr is not None else 0)})
    fail = None
    if "err" in rep:
        fail = f"the model rejects this setting: {rep['err']}"
    elif rep["near"]:
        chk.branch("near-threshold-skipped")
        return None
    else:
        model = to_canon_dict([([m], F(p)) for m, p in rep["dist"]], exact=True)
        worst = cmp_dicts(to_canon_dict(entries), model)
        if worst is not None:
            fail = f"state {worst[0]}: code {worst[1]!r}, model {worst[2]!r}"
        elif rep["t"] != t_after:
            fail = f"tag counter after the call: code {t_after}, model {rep['t']}"
    if thr is None or thr <= 1e-16:
        # probability_distribution itself does not normalise; with threshold 0 the mass must already be 1
        orc = oracle_distribution(P, [n], entries)
    else:
        orc = oracle_structure(P, [n], entries, normalised=False)
    if orc is not None:
        return ("violation", orc[0], "probability_distribution: " + orc[1], case)
    if fail is not None:
        return ("broken", "model-vs-code:pd", fail, case)
    return None


def cond_rtol(P, n, f):
    """extra RELATIVE tolerance for probabilities conditioned on the photon filter.  The code's closed form
    p2 = (1 - x - sqrt(1 - 2x)) / g2 (x = brightness*g2) cancels: absolute error about 1.5e-16 / g2, i.e. a relative
    error 1.5e-16 / (g2 * p2) that grows like 1/x^2 for a good source.  Unconditioned probabilities only see the
    (negligible) absolute error, but dividing by the retained mass of a strict filter turns the relative error of
    every factor p2 (at most n of them, in numerator and denominator) into a relative error of the entry."""
    d = derived(P)
    if not f or d["g2"] == 0:
        return 0.0
    p2 = d["beta"] * (1 - d["q"]) / (1 + d["q"])
    return float(2 * n * F(3, 2 * 10 ** 16) / (d["g2"] * p2))


def close_rel(x, xhat, rtol):
    return core.close(x, xhat) or abs(x - xhat) <= rtol * abs(xhat)


def table_oracle(P, n, f, table, perf, zpp):
    """the event table against the multinomial law of the categorical counts, exact Fractions"""
    d = derived(P)
    rtol = cond_rtol(P, n, f)
    beta, q, eta = d["beta"], d["q"], d["eta"]
    p2 = beta * (1 - q) / (1 + q)
    p1 = beta - p2
    a = eta * p1 + eta * (1 - eta) * p2     # the signal photon alone
    b = eta * (1 - eta) * p2                # the extra photon alone
    c = eta * eta * p2                      # both
    z = 1 - a - b - c
    from math import factorial as fa
    want = {}
    for i in range(n + 1):
        for j in range(n + 1 - i):
            for k in range(n + 1 - i - j):
                if i + j + 2 * k >= f:
                    n0 = n - i - j - k
                    v = F(fa(n), fa(i) * fa(j) * fa(k) * fa(n0)) * a ** i * b ** j * c ** k * z ** n0
                    if v != 0:
                        want[(i, j, k)] = v
    mass = sum(want.values())
    if not core.close(perf, float(mass)):
        return ("table-perf", f"physical performance {perf!r}, retained mass of the multinomial law {float(mass)!r}")
    if not core.close(zpp, float(z ** n)):
        return ("table-zpp", f"zero-photon probability {zpp!r}, expected {float(z ** n)!r}")
    for key in set(want) | set(table):
        w = want.get(key, F(0))
        if f and mass:
            w = w / mass
        if not close_rel(table.get(key, 0.0), float(w), rtol):
            return ("table-entry", f"event {key}: table {table.get(key, 0.0)!r}, multinomial law "
                                   f"{'conditioned on the filter ' if f else ''}{float(w)!r}")
    if f and any(i + j + 2 * k < f for (i, j, k) in table):
        return ("table-filter", "the table keeps an event with fewer photons than the filter")
    return None


def judge_table(chk, case):
    P, n, f = case["P"], case["n"], case["f"]
    src = mk_source(P)
    real_err = None
    # The event table is reached through private members (`_prob_table`, `_compute_prob_table`; the repository's own
    # tests read them too).  A tree in which they were renamed or restructured is not judged here: the case is
    # counted as skipped (the samplers built on the table are still judged through the public API).
    if case.get("cache"):
        if not (hasattr(src, "cache_prob_table") and hasattr(type(src), "_prob_table") or hasattr(src, "_prob_table")):
            chk.count("private_members_missing", "_prob_table")
            return None
    elif not hasattr(src, "_compute_prob_table"):
        chk.count("private_members_missing", "_compute_prob_table")
        return None
    try:
        if case.get("cache"):
            perf, zpp = src.cache_prob_table(n, f)
            table = dict(src._prob_table)
            if hasattr(src, "_prob_table_n") and hasattr(src, "_prob_table_filter"):
                if (src._prob_table_n, src._prob_table_filter) != (n, f):
                    return ("violation", "table-cache-key", "cache_prob_table does not record (n, filter)", case)
            else:
                chk.count("private_members_missing", "_prob_table_n/_prob_table_filter")
        else:
            table, perf, zpp = src._compute_prob_table(n, f)
        table = {tuple(int(x) for x in k): float(v) for k, v in table.items()}
    except ZeroDivisionError:
        real_err = "ZeroDivisionError"
    except Exception as e:  # noqa
        return ("violation", "raises-" + type(e).__name__,
                f"_compute_prob_table raised {type(e).__name__}: {str(e)[:200]}", case)
    rep = chk.lean.ask({"op": "table", "P": lean_P(P), "n": n, "f": f})
    if real_err or "err" in rep:
        chk.branch("table-zero-perf")
        if real_err == rep.get("err"):
            return None
        return ("broken", "model-vs-code:table", f"code: {real_err}, model: {rep.get('err')}", case)
    fail = None
    model = {(i, j, k): F(p) for i, j, k, p in rep["table"]}
    if set(model) != set(table):
        fail = f"event keys differ: code-only {sorted(set(table) - set(model))[:4]}, model-only {sorted(set(model) - set(table))[:4]}"
    else:
        rtol = cond_rtol(P, n, f)
        if rtol > 1e-9:
            chk.count("filtered_table_tolerance_widened", "1e%+d" % round(math.log10(rtol)))
        for k in model:
            if not close_rel(table[k], float(model[k]), rtol):
                fail = f"event {k}: code {table[k]!r}, model {float(model[k])!r}"
                break
        if fail is None and not core.close(perf, float(F(rep["perf"]))):
            fail = f"phys_perf: code {perf!r}, model {float(F(rep['perf']))!r}"
        if fail is None and not core.close(zpp, float(F(rep["zpp"]))):
            fail = f"zero-photon probability: code {zpp!r}, model {float(F(rep['zpp']))!r}"
    orc = table_oracle(P, n, f, table, perf, zpp)
    if orc is not None:
        return ("violation", orc[0], orc[1], case)
    if fail is not None:
        return ("broken", "model-vs-code:table", fail, case)
    return None


def priors_of(case):
    pr = case.get("prior")
    return [] if not pr else (pr if isinstance(pr, list) else [pr])


def filter_reachable(P, n, f):
    """does an input of n photons give at least f photons with positive probability?"""
    d = derived(P)
    if f == 0:
        return True
    if d["beta"] * d["eta"] == 0:
        return False
    return f <= (2 * n if d["g2"] != 0 else n)


def prior_requests(P, ns, f, shape):
    """earlier requests on the same Source object whose cached event table must NOT serve the request (ns, f):
    'stricter' = same photon number (another arrangement), stricter filter; 'weaker' = same photon number, weaker
    non-zero filter; 'other-n' = same filter, another photon number; 'two' = two earlier requests.
    Falls back to 'other-n' when the shape does not exist for this setting."""
    n = sum(ns)
    arr = sorted(ns) if sorted(ns) != ns else list(reversed(ns))
    if shape == "stricter" and filter_reachable(P, n, f + 1):
        return [{"ns": arr, "f": f + 1}]
    if shape == "weaker" and f > 1:
        return [{"ns": arr, "f": f - 1}]
    if shape == "two" and filter_reachable(P, n, f + 1):
        return [{"ns": ns + [1], "f": f}, {"ns": ns, "f": f + 1}]
    return [{"ns": ns + [1], "f": f}]


def prior_shapes(case):
    """which relations the LAST earlier request has to the judged one (the cache holds the last table)"""
    pr = priors_of(case)
    if not pr or not case["f"]:
        return []
    out = ["samples-after-other-request"]
    last, n, f = pr[-1], sum(case["ns"]), case["f"]
    if sum(last["ns"]) == n and last["f"] > f:
        out.append("samples-after-stricter-filter-same-n")
    if sum(last["ns"]) == n and 0 < last["f"] < f:
        out.append("samples-after-weaker-filter-same-n")
    if sum(last["ns"]) != n and last["f"] == f:
        out.append("samples-after-other-n-same-filter")
    if len(pr) > 1:
        out.append("samples-after-two-requests")
    return out


def judge_samples(chk, case):
    """generate_samples: goodness-of-fit TEST against the exact model law (conditioned on the filter)."""
    import perceval as pcvl
    from perceval.utils import BasicState
    P, ns, f, n = case["P"], case["ns"], case["f"], case["N"]
    perfect, pd = classify(P)
    pcvl.random_seed(case["seed"])
    pyrandom.seed(case["seed"])
    try:
        src = mk_source(P)
        advance(src, case.get("pre", 0))
        for prior in priors_of(case):   # earlier, different requests on the same object (event table cached)
            if prior.get("cache"):
                src.cache_prob_table(sum(prior["ns"]), prior["f"])
            else:
                src.generate_samples(25, BasicState(prior["ns"]), prior["f"])
        samples = src.generate_samples(n, BasicState(ns), f) if f else src.generate_samples(n, BasicState(ns))
        modes = [bs_modes(s) for s in samples]
    except Exception as e:  # noqa
        return ("violation", "raises-" + type(e).__name__,
                f"generate_samples raised {type(e).__name__}: {str(e)[:200]}", case)
    if len(modes) != n:
        return ("violation", "sample-count", f"{len(modes)} samples returned for {n} requested", case)
    if any(sum(len(t) for t in m) < f for m in modes):
        return ("violation", "sample-below-filter", "a sample has fewer photons than min_detected_photons", case)
    if perfect:
        if any(m != [[None] * k for k in ns] for m in modes):
            return ("violation", "perfect-not-identity", "a perfect source samples something else than the input", case)
        return None
    for m in modes:
        flat = [t for tags in m for t in tags if t not in (None, 0)]
        if len(set(flat)) != len(flat):
            return ("violation", "tags-not-fresh", f"a sample has two photons with the same non-signal tag: {m}", case)
    counts = {}
    for m in modes:
        c = canon(m, none_as_zero=True)
        counts[c] = counts.get(c, 0) + 1
    rep = chk.lean.ask({"op": "exact", "P": lean_P(P), "ns": ns, "t": 0, "f": f})
    if "err" in rep:
        return ("broken", "model-vs-code:samples", f"the model rejects this setting: {rep['err']}", case)
    model = to_canon_dict(lean_entries(rep["dist"]), none_as_zero=True, exact=True)
    bad = gof(counts, n, model)
    if bad is None:
        return None
    # the property itself: samples must follow the code's OWN distribution (conditioned on the filter)
    src2 = mk_source(P)
    own = svd_entries(src2.generate_distribution(BasicState(ns)))
    own = [(m, p) for m, p in own if sum(len(t) for t in m) >= f]
    tot = sum(p for _, p in own)
    own_d = {k: v / tot for k, v in to_canon_dict(own, none_as_zero=True).items()}
    bad2 = gof(counts, n, own_d)
    if bad2 is not None:
        return ("violation", "sampler-law" + ("-filter" if f else ""),
                f"goodness-of-fit test (level {ALPHA:g}) rejects that generate_samples draws from "
                f"generate_distribution{' conditioned on the filter' if f else ''}: {bad2}", case)
    # ... and the count clause of the property on the samples themselves (exact closed form, no Lean, no
    # generate_distribution): per-mode photon counts ~ product of the n-fold convolutions of (pi0, pi1, pi2),
    # conditioned on the filter.  Confirms the failure when sampler and distribution builder are wrong TOGETHER.
    pi, _ = closed_forms(P)
    per_mode = [conv_pow(pi, k) for k in ns]
    law = {}
    for c in itertools.product(*[range(len(v)) for v in per_mode]):
        w = F(1)
        for i, k in enumerate(c):
            w *= per_mode[i][k]
        if w != 0 and sum(c) >= f:
            law[c] = w
    tot = sum(law.values())
    ccounts = {}
    for m in modes:
        c = tuple(len(t) for t in m)
        ccounts[c] = ccounts.get(c, 0) + 1
    if tot > 0:
        bad3 = gof(ccounts, n, {c: w / tot for c, w in law.items()})
        if bad3 is not None:
            return ("violation", "sampler-count-law" + ("-filter" if f else ""),
                    f"goodness-of-fit test (level {ALPHA:g}) rejects that the photon counts per mode of "
                    f"generate_samples({ns}{', min_detected_photons=%d' % f if f else ''}) follow the law fixed by "
                    f"brightness/g2/transmittance: {bad3}", case)
    return ("broken", "model-vs-code:samples", "goodness-of-fit test against the exact model law fails: " + bad, case)


# ------------------------------------------------------------------------------------------------
# the sampler as a FUNCTION OF ITS DRAWS: exact replay against the Lean model, exhaustive forcing
# ------------------------------------------------------------------------------------------------
class Draws:
    """Recording / forcing wrapper around the two standard-library primitives through which randomness enters
    `Source.generate_samples` (and `BSDistribution.sample`): `random.choices` and `random.shuffle`, patched as
    attributes of the `random` MODULE for the duration of one call (no edit of /repo).
    record mode: the original functions run on index lists (same consumption of the generator, same results);
    force mode : the prescribed draws are returned instead.  One entry per call:
      ("c", population, weights, [index, ...])     random.choices
      ("s", None, None, perm)                      random.shuffle:  x'[p] = x[perm[p]]"""

    def __init__(self, forced=None):
        self.calls = []
        self.forced = forced
        self.pos = 0

    def __enter__(self):
        self._c, self._s = pyrandom.choices, pyrandom.shuffle
        pyrandom.choices, pyrandom.shuffle = self.choices, self.shuffle
        return self

    def __exit__(self, *a):
        pyrandom.choices, pyrandom.shuffle = self._c, self._s
        return False

    def _next(self, kind, size):
        if self.pos >= len(self.forced):
            raise DrawsMismatch(f"the code asks for a draw no. {self.pos + 1}, only {len(self.forced)} prescribed")
        k, val = self.forced[self.pos]
        self.pos += 1
        if k != kind or len(val) != size:
            raise DrawsMismatch(f"draw no. {self.pos}: the code asks for {kind}/{size}, prescribed {k}/{len(val)}")
        return list(val)

    def choices(self, population, weights=None, *, cum_weights=None, k=1):
        pop = list(population)
        w = None if weights is None else [float(x) for x in weights]
        if self.forced is None:
            idx = self._c(range(len(pop)), weights=w, cum_weights=cum_weights, k=k)
        else:
            idx = self._next("c", k)
        self.calls.append(("c", pop, w, list(idx)))
        return [pop[i] for i in idx]

    def shuffle(self, x):
        if self.forced is None:
            perm = list(range(len(x)))
            self._s(perm)
        else:
            perm = self._next("s", len(x))
        self.calls.append(("s", None, None, perm))
        x[:] = [x[i] for i in perm]


class DrawsMismatch(Exception):
    pass


def one_class(tags):
    """class of a one-photon state (complete invariant inside one `_generate_one_photon_distribution`)"""
    return (sum(1 for t in tags if t is None), sum(1 for t in tags if t == 0),
            sum(1 for t in tags if t not in (None, 0)))


def run_sampler(P, ns, f, k, pre, priors, forced=None, seed=0):
    """the REAL generate_samples under the wrapper -> (tag counter at entry, samples as mode lists, calls) ;
    raises whatever the code raises"""
    import perceval as pcvl
    from perceval.utils import BasicState
    pcvl.random_seed(seed)
    pyrandom.seed(seed)
    src = mk_source(P)
    advance(src, pre)
    for prior in priors:
        if prior.get("cache"):
            src.cache_prob_table(sum(prior["ns"]), prior["f"])
        else:
            src.generate_samples(7, BasicState(prior["ns"]), prior["f"])
    t = src.get_tag("discernability_tag")
    with Draws(forced) as rec:
        samples = src.generate_samples(k, BasicState(ns), f) if f else src.generate_samples(k, BasicState(ns))
    if forced is not None and rec.pos != len(forced):
        raise DrawsMismatch(f"the code used {rec.pos} of the {len(forced)} prescribed draws")
    return t, [bs_modes(s) for s in samples], rec.calls


def own_law(P, ns, f):
    """the code's OWN generate_distribution (new Source), conditioned on the filter -> (canon -> probability, retained
    mass before the conditioning)"""
    from perceval.utils import BasicState
    own = svd_entries(mk_source(P).generate_distribution(BasicState(ns)))
    own = [(m, p) for m, p in own if sum(len(t) for t in m) >= f]
    tot = sum(p for _, p in own)
    if tot <= 0:
        return None, 0.0
    return {c: v / tot for c, v in to_canon_dict(own, none_as_zero=True).items()}, tot


EXH_LIMIT = 16000


def exhaustive_plan(calls, ns, f):
    """all combinations of draws for ONE sample, from the populations / weights seen in a recorded run
    -> (forced calls for a run with k = number of combinations, the ideal probability of each combination) or None"""
    n = sum(ns)
    if not f:
        cs = [c for c in calls if c[0] == "c"]
        # entries of negligible weight (an exact 0 that came out as 1e-16 in floats) are not forced
        live = [[i for i, w in enumerate(c[2]) if w > 1e-12 * sum(c[2])] for c in cs]
        total = 1
        for z in live:
            total *= len(z)
        if total > EXH_LIMIT or any(len(z) == 0 for z in live):
            return None
        combos = list(itertools.product(*live))
        probs = []
        for cb in combos:
            w = 1.0
            for c, i in zip(cs, cb):
                w *= c[2][i] / sum(c[2])
            probs.append(w)
        forced = [("c", [cb[j] for cb in combos]) for j in range(len(cs))]
        return forced, probs
    keys, w = calls[0][1], calls[0][2]
    bw = None
    for c in calls[1:]:
        if c[0] == "c":
            bw = c[2]
    if bw is None:
        bw = [1.0, 0.0]
    perms = list(itertools.permutations(range(n)))
    combos, probs = [], []
    for ei, e in enumerate(keys):
        nb = e[0] + e[2]
        if len(combos) + (2 ** nb) * len(perms) > EXH_LIMIT:
            return None
        for bs in itertools.product((0, 1), repeat=nb):
            pb = w[ei] / sum(w)
            for b in bs:
                pb *= bw[b] / sum(bw)
            for pm in perms:
                combos.append((ei, bs, pm))
                probs.append(pb / len(perms))
    forced = [("c", [c[0] for c in combos]), ("c", [b for c in combos for b in c[1]])] + \
             [("s", list(c[2])) for c in combos]
    return forced, probs


def lean_replay(chk, P, ns, f, t, k, calls):
    """the Lean model on the draws of `calls` -> (reply, None) or (None, (signature, text)).
    An index means 'this entry of the population the code passed to random.choices'; it is translated into the index
    of the SAME entry (one-photon state class / event key / boolean) in the model's population, so that a different
    insertion order or tag numbering in the code is not a disagreement.  Populations and weights are compared here."""
    cs = [c for c in calls if c[0] == "c"]
    if not f:
        def ask(idx):
            return chk.lean.ask({"op": "replay_nf", "P": lean_P(P), "ns": ns, "t": t, "k": k, "calls": idx})
        rep = ask([c[3] for c in cs])
        idx, changed = [], False
        if "bad-draw: index" in rep.get("err", ""):    # a negligible extra entry in the code's population: probe
            rep = ask([[0] * len(c[3]) for c in cs])
            changed = True
        if "err" in rep:
            return rep, None
        for j, (c, mc) in enumerate(zip(cs, rep["calls"])):
            real = [one_class(bs_modes(b)[0]) for b in c[1]]
            mod = [one_class(m) for m, _ in mc]
            tot = sum(c[2])
            rw, mw = {}, {}
            for cl, w in zip(real, c[2]):
                rw[cl] = rw.get(cl, 0.0) + w / tot
            for cl, (_, p) in zip(mod, mc):
                mw[cl] = mw.get(cl, 0.0) + float(F(p))
            # an entry present on one side only is a disagreement only if its weight is not negligible (the code
            # keeps an entry when its FLOAT probability is > 0: an exact 0 may come out as 1e-16)
            for cl in set(rw) | set(mw):
                if not core.close(rw.get(cl, 0.0), mw.get(cl, 0.0)):
                    return None, ("model-vs-code:sampler-weights" if cl in rw and cl in mw else
                                  "model-vs-code:sampler-population",
                                  f"bsd.sample call {j}: one-photon state class {cl} has weight {rw.get(cl, 0.0)!r}, model "
                                  f"{mw.get(cl, 0.0)!r} (states {[bs_modes(b)[0] for b in c[1]]}, model {[m for m, _ in mc]})")
            if len(set(real)) != len(real) or any(real[i] not in mw for i in c[3]):
                return None, ("model-vs-code:sampler-population",
                              f"bsd.sample call {j}: states {[bs_modes(b)[0] for b in c[1]]}, model {[m for m, _ in mc]}")
            changed = changed or real != mod
            idx.append([mod.index(real[i]) for i in c[3]])
        if changed:
            chk.count("draws_population_reordered", 1)
            rep = ask(idx)
        return rep, None
    n = sum(ns)
    tab = chk.lean.ask({"op": "table", "P": lean_P(P), "n": n, "f": f})
    if "err" in tab:
        return tab, None
    mkeys = [tuple(e[:3]) for e in tab["table"]]
    mtot = sum(F(e[3]) for e in tab["table"])
    rkeys = [tuple(x) for x in cs[0][1]]
    if sorted(rkeys) != sorted(mkeys):
        return None, ("model-vs-code:sampler-event",
                      f"the events the code draws from for ({n} photons, filter {f}) are {rkeys}, the model's table has "
                      f"{mkeys}")
    rtot = sum(cs[0][2])
    rtol = cond_rtol(P, n, f)
    for key, w in zip(rkeys, cs[0][2]):
        mp = float(F(tab["table"][mkeys.index(key)][3]) / mtot)
        if not close_rel(w / rtot, mp, rtol):
            return None, ("model-vs-code:sampler-weights",
                          f"event {key} is drawn with weight {w / rtot!r}, the model's table for ({n}, filter {f}) has {mp!r}")
    bools = []
    if len(cs) > 1:
        if sorted(map(repr, cs[1][1])) != ["False", "True"]:
            return None, ("model-vs-code:sampler-population", f"_generate_distinguishability draws from {cs[1][1]}")
        bools = [0 if cs[1][1][i] is True else 1 for i in cs[1][3]]
    rep = chk.lean.ask({"op": "replay_f", "P": lean_P(P), "ns": ns, "f": f, "t": t,
                        "events": [mkeys.index(rkeys[i]) for i in cs[0][3]], "bools": bools,
                        "perms": [c[3] for c in calls if c[0] == "s"]})
    if "err" not in rep and len(cs) > 1 and cs[1][3]:
        tot = sum(cs[1][2])
        for v, w in zip(cs[1][1], cs[1][2]):
            mp = float(F(rep["boolw"][0 if v is True else 1]))
            if not core.close(w / tot, mp):
                return None, ("model-vs-code:sampler-weights",
                              f"_generate_distinguishability: {v} has weight {w / tot!r}, model {mp!r}")
    return rep, None


def compare_replay(chk, P, ns, f, t, modes, calls):
    """real samples against the model's on the same draws -> None or (signature, text)"""
    try:
        rep, bad = lean_replay(chk, P, ns, f, t, len(modes), calls)
    except core.LeanError:
        raise
    except (IndexError, KeyError, ValueError, TypeError) as e:
        # the code made other random calls than the route the model takes needs (e.g. none at all: it took the
        # perfect-source shortcut): model and code disagree on the route; the direct oracles decide whether the law is wrong
        return ("model-vs-code:sampler-route",
                f"the recorded random calls of generate_samples({ns}, min_detected_photons={f}) "
                f"({[c[0] for c in calls][:8]}) cannot be matched with the model's route ({type(e).__name__}: {e})")
    if bad is not None:
        return bad
    if "err" in rep:
        return ("model-vs-code:sampler-draws", f"the model cannot consume the draws the code made: {rep['err']}")
    ms = rep["samples"]
    if len(ms) != len(modes):
        return ("model-vs-code:sampler-replay", f"{len(modes)} samples, model {len(ms)}")
    for i, (a, b) in enumerate(zip(modes, ms)):
        if canon(a) != canon(b):
            return ("model-vs-code:sampler-replay",
                    f"sample {i} of generate_samples({ns}, min_detected_photons={f}) is {a}; the model, fed the same draws "
                    f"(tag counter {t}), gives {b}")
    if "profiles" in rep:
        # the observable of theorem sampler_filtered_law (Lean `profile`): per mode (photons with the common tag,
        # photons with a fresh tag), evaluated by the model on its sample and here on the REAL sample
        chk.branch("draws-profile-compared")
        for i, (a, pr) in enumerate(zip(modes, rep["profiles"])):
            real = [[sum(1 for x in tags if x in (None, 0)), sum(1 for x in tags if x not in (None, 0))] for tags in a]
            if real != [list(c) for c in pr]:
                return ("model-vs-code:sampler-profile",
                        f"sample {i} of generate_samples({ns}, min_detected_photons={f}) is {a}: per-mode (common, fresh) "
                        f"photon numbers {real}; the model's profile of its own sample is {pr}")
    return None


def judge_draws(chk, case):
    """generate_samples as a function of its draws: (1) a run on the generator's own draws, recorded, replayed
    through the Lean model, samples compared exactly (tags up to renaming); (2) for small requests ALL combinations of
    draws forced through the real code: compared with the model sample by sample, and the push-forward of the ideal
    law (weights as the code passes them to random.choices, uniform permutations) compared with the code's own
    generate_distribution conditioned on the filter — the clause 'the direct sample generator draws from this same
    distribution' evaluated on the real code, no Lean involved."""
    P, ns, f, k = case["P"], case["ns"], case["f"], case["k"]
    pre, priors = case.get("pre", 0), priors_of(case)
    perfect, pd = classify(P)
    route = chk.lean.ask({"op": "route", "P": lean_P(P), "ns": ns, "f": f})
    if "err" in route:
        return ("broken", "model-vs-code:sampler-route", f"the model rejects the request: {route['err']}", case)
    route = route["route"]
    chk.branch("draws-route-" + route)
    quiet = None
    if route == "aborted":          # the code logs a warning for every such request
        try:
            from perceval.utils.logging import get_logger, channel, level
            get_logger().set_level(level.err, channel.user)
            quiet = (get_logger(), channel, level)
        except Exception:  # noqa
            quiet = None
    try:
        t, modes, calls = run_sampler(P, ns, f, k, pre, priors, seed=case.get("seed", 0))
        raised = None
    except DrawsMismatch:
        raise
    except Exception as e:  # noqa
        raised = type(e).__name__
    finally:
        if quiet is not None:
            quiet[0].set_level(quiet[2].warn, quiet[1].user)
    if route == "IndexError" or raised is not None:
        if raised == route:
            return None
        if raised is not None:
            return ("violation", "raises-" + raised, f"generate_samples raised {raised}", case)
        return ("broken", "model-vs-code:sampler-route", "the model expects IndexError (empty event table)", case)
    if route == "aborted":
        if modes or calls:
            return ("broken", "model-vs-code:sampler-route", "no useful state possible, yet samples / draws were made", case)
        return None
    if len(modes) != k:
        return ("violation", "sample-count", f"{len(modes)} samples returned for {k} requested", case)
    if route == "perfect":
        if calls:
            return ("broken", "model-vs-code:sampler-route", "a perfect source made random draws", case)
        if any(m != [[None] * x for x in ns] for m in modes):
            return ("violation", "perfect-not-identity", "a perfect source samples something else than the input", case)
        return None
    for m in modes:
        if sum(len(x) for x in m) < f:
            return ("violation", "sample-below-filter", "a sample has fewer photons than min_detected_photons", case)
        flat = [x for tags in m for x in tags if x not in (None, 0)]
        if len(set(flat)) != len(flat):
            return ("violation", "tags-not-fresh", f"a sample has two photons with the same non-signal tag: {m}", case)
    chk.count("draws_recorded_samples", k)
    bad = compare_replay(chk, P, ns, f, t, modes, calls)
    plan = exhaustive_plan(calls, ns, f) if (case.get("exh") or bad is not None) else None
    if plan is not None:
        forced, probs = plan
        chk.branch("draws-exhaustive-" + ("filter" if f else "nf"))
        chk.count("draws_forced_combinations", len(probs))
        try:
            t2, modes2, calls2 = run_sampler(P, ns, f, len(probs), pre, priors, forced=forced)
        except DrawsMismatch as e:
            return draws_fallback(chk, case, ("model-vs-code:sampler-draws", f"forcing all draws: {e}"))
        law = {}
        for m, w in zip(modes2, probs):
            c = canon(m, none_as_zero=True)
            law[c] = law.get(c, 0.0) + w
        own, kept = own_law(P, ns, f)
        # generate_distribution is trimmed at 1e-16: it is within 1e-16 * lossCount(ns) of the exact product law in total
        # variation (theorem generate_close_to_exact, lossCount <= 9 * #modes * 5^N); conditioning on a filter that
        # retains the mass `kept` divides that distance by `kept`
        slack = 0.0 if own is None else 2e-16 * 9 * len(ns) * 5 ** sum(ns) / kept
        if own is not None and slack > 1e-4:
            chk.count("draws_exact_law_ill_conditioned", 1)
            own = None
        if own is not None:
            law = {c: v for c, v in law.items() if v > 0}
            w = cmp_dicts(law, own)
            if w is not None and abs(w[1] - w[2]) <= slack:
                w = next(((c, law.get(c, 0.0), float(own.get(c, 0))) for c in set(law) | set(own)
                          if not core.close(law.get(c, 0.0), float(own.get(c, 0)))
                          and abs(law.get(c, 0.0) - float(own.get(c, 0))) > slack), None)
            if w is not None:
                return ("violation", "sampler-law-exact" + ("-filter" if f else ""),
                        f"all {len(probs)} combinations of draws forced through generate_samples({ns}"
                        f"{', min_detected_photons=%d' % f if f else ''}): under ideal draws the state class {w[0]} has "
                        f"probability {w[1]!r}, generate_distribution{' conditioned on the filter' if f else ''} gives "
                        f"{w[2]!r}", case)
        bad2 = compare_replay(chk, P, ns, f, t2, modes2, calls2)
        bad = bad or bad2
    if bad is not None:
        return draws_fallback(chk, case, bad)
    return None


def draws_fallback(chk, case, bad):
    """model and code disagree on the draws (or the code consumes other draws than the model) and the exhaustive
    oracle did not decide: look for a failing input with the goodness-of-fit TEST on the same request (same earlier
    requests on the same object)"""
    n_fb = chk.extra.get("draws_fallback_tests", 0)
    if n_fb >= 12:      # bounded: the test is slow and a defect that needs it shows in many settings
        return ("broken", bad[0], bad[1], case)
    chk.extra["draws_fallback_tests"] = n_fb + 1
    r = judge_samples(chk, {"kind": "samples", "P": case["P"], "ns": case["ns"], "f": case["f"], "N": 20000,
                            "seed": case.get("seed", 0), "pre": case.get("pre", 0),
                            **({"prior": case["prior"]} if case.get("prior") else {})})
    if r is not None and r[0] == "violation":
        return ("violation", r[1], r[2] + f" [looked for because: {bad[1][:300]}]", case)
    return ("broken", bad[0], bad[1], case)


def judge_bad(chk, case):
    """constructor rejections (malformed stream)"""
    P = case["P"]
    try:
        mk_source(P)
        real = "ok"
    except AssertionError:
        real = "AssertionError"
    except Exception as e:  # noqa
        real = type(e).__name__
    j = lean_P(P)
    rep = chk.lean.ask({"op": "probs", "P": j})
    model = rep.get("err", "ok")
    if model == "bad-roots":
        model = "ok"      # the constructor does not look at the roots
    if real == model:
        return None
    return ("broken", "model-vs-code:constructor", f"constructor: code {real}, model {model}", case)



# ------------------------------------------------------------------------------------------------
# long-lived Processor: histories of noise updates / assignments / inputs / reads
# ------------------------------------------------------------------------------------------------
NOISE_FIELDS = ("brightness", "indistinguishability", "g2", "g2_distinguishable", "transmittance")
# custom inputs (they bypass the source and are stored in the slot that otherwise caches the generated mixture):
# an SVDistribution of two Fock states, an SVDistribution made of the single Fock state that is / was the plain input,
# a superposed StateVector, a polarised BasicState (with_polarized_input)
CUSTOM_FORMS = ("svd", "svd-same", "sv", "polarized")


def custom_object(st, mt):
    """-> (the object the user hands over, the SVDistribution `source_distribution` has to return)"""
    from perceval.utils import BasicState, StateVector, SVDistribution
    a, b = [1] + [0] * (mt - 1), [0] * (mt - 1) + [2]
    form = st["form"]
    if form == "svd":
        obj = SVDistribution({StateVector(BasicState(a)): 0.25, StateVector(BasicState(b)): 0.75})
        return obj, obj
    if form == "svd-same":
        obj = SVDistribution(BasicState(st["ns"]))
        return obj, obj
    if form == "sv":
        obj = BasicState(a) + BasicState(b)
        return obj, SVDistribution(obj)
    if form == "polarized":
        obj = BasicState("|{P:H}" + ",0" * (mt - 1) + ">")
        return obj, SVDistribution(obj)
    raise ValueError("unknown custom form " + form)


def noise_kwargs(P):
    d = derived(P)
    return {"brightness": float(d["beta"]), "indistinguishability": float(d["ind"]), "g2": float(d["g2"]),
            "g2_distinguishable": d["model"] == DIST, "transmittance": float(d["eta"])}


def rejected_noise(P):
    """does `Source.from_noise_model` raise on these NoiseModel values?  (every field passes NoiseModel's own
    validation; the asserts of Source.__init__ do not: brightness 0, or brightness * g2 > 1/2)"""
    d = derived(P)
    return not (0 < d["beta"] <= 1 and 0 <= d["g2"] <= 1 and d["beta"] * d["g2"] <= F(1, 2)
                and 0 <= d["losses"] <= 1)


def bad_noise(rng, base):
    """values NoiseModel accepts and Source.__init__ rejects, well away from the boundary (the assert is evaluated
    in floats): brightness * g2 >= 0.54, or brightness 0"""
    P = {k: base[k] for k in ("eta", "r", "model")}
    if rng.random() < 0.25:
        return {**P, "beta": "0", "g2": rng.choice(["0", "1/4"]), "q": "1"}
    return {**P, "beta": rng.choice(["1", "9/10"]), "g2": rng.choice(["3/5", "4/5", "1"]), "q": "0"}


class HistBook:
    """The harness' own bookkeeping of a history (independent of Lean and of the code): which NoiseModel
    object is held, the values every object has NOW, whether the held object was updated in place and
    not yet assigned again (`dirty`: nothing is demanded of a read in that state), whether the input
    distribution is cached."""

    def __init__(self, case):
        self.vals = {i: P for i, P in enumerate(case["objs"])}
        self.none_id = len(case["objs"])
        self.vals[self.none_id] = FIXED["perfect"]
        self.next_id = self.none_id + 1
        k = case["init"]["noise"]
        self.held = self.none_id if k is None else k
        self.dirty = False
        self.rejected = False       # the last assignment was rejected by the Source constructor (then `dirty`)
        self.cached = False
        self.ns = None              # the current Fock input as the source sees it (heralds merged in), or None
        self.custom = None          # identity of the current custom input, or None
        self.custom_form, self.custom_assigned = None, False
        self.heralds = sorted((int(k), v) for k, v in (case["init"].get("heralds") or {}).items())
        self.m_total = case["m"] + len(self.heralds)
        self.filter_set = False
        # what happened since the last Fock input: None (nothing yet) or a dict
        self.since_fock = None
        self.shapes = set()
        if self.heralds:
            self.shapes.add("hist-herald")

    def full(self, ns):
        """the BasicState `with_input` hands to the source: heralded modes merged into the user's state"""
        out = list(ns)
        for pos, val in self.heralds:
            out.insert(pos, val)
        return out

    def ok(self, st):
        """is the step well-formed in this state?"""
        op = st["op"]
        if op == "custom":
            return st["form"] in CUSTOM_FORMS and (st["form"] != "svd-same" or len(st["ns"]) == self.m_total)
        if op == "clear":
            return not self.heralds         # clear_input_and_circuit also removes the heralds
        if op == "probs":
            return self.filter_set and (self.ns is not None or self.custom is not None)
        if op == "set":
            return st["id"] in self.vals and st["id"] != self.none_id and \
                (st["via"] != "getter" or st["id"] == self.held)
        if op == "copy":
            return st["id"] in self.vals and st["to"] == self.next_id
        if op == "heralds":
            return bool(self.heralds)
        if op == "assign":
            return st["id"] is None or (st["id"] in self.vals and st["id"] != self.none_id)
        return True

    def apply(self, st):
        op = st["op"]
        if op == "set":
            diff = [k for k in ("beta", "q", "eta", "r", "model") if st["P"][k] != self.vals[st["id"]][k]]
            if len(diff) == 1:
                self.shapes.add("hist-only-" + diff[0] + "-changes")
                k = diff[0]
                if k != "model" and st["id"] == self.held and \
                        (F(st["P"][k]) == 1) != (F(self.vals[st["id"]][k]) == 1):
                    # the single changed parameter moves between its ideal value and a non-ideal one
                    self.shapes.add(f"hist-{k}-{'becomes' if F(st['P'][k]) == 1 else 'leaves'}-ideal")
            self.vals[st["id"]] = st["P"]
            if st["id"] == self.held:
                self.dirty = True
                self.shapes.add("hist-inplace-getter" if st["via"] == "getter" else "hist-inplace-ref")
            else:
                self.shapes.add("hist-set-unheld")
        elif op == "copy":
            self.vals[st["to"]] = self.vals[st["id"]]
            self.next_id += 1
        elif op == "assign" and rejected_noise(self.vals[self.none_id if st["id"] is None else st["id"]]):
            # Source.from_noise_model raises inside the observer: the reference is stored, nothing else changes
            self.shapes.add("hist-assign-rejected")
            self.shapes.add("hist-assign-rejected-" + ("cached" if self.cached and self.ns is not None else "uncached"))
            if st["id"] == self.held:
                self.shapes.add("hist-assign-rejected-same-object")
            self.held, self.dirty, self.rejected = st["id"], True, True
        elif op == "assign":
            k = self.none_id if st["id"] is None else st["id"]
            if self.rejected:
                self.shapes.add("hist-accepted-after-rejected")
                if k == self.held:
                    self.shapes.add("hist-rejected-object-fixed-inplace-reassigned")
                self.rejected = False
            if k == self.held:
                if self.dirty:
                    self.shapes.add("hist-inplace-reassign")
                    self.shapes.add("hist-inplace-reassign-cached" if self.cached else
                                    "hist-inplace-reassign-uncached")
                else:
                    self.shapes.add("hist-same-object-reassign-clean")
            elif json.dumps(self.vals[k], sort_keys=True) == json.dumps(self.vals[self.held], sort_keys=True) \
                    and not self.dirty:
                self.shapes.add("hist-equal-new-object")
            else:
                self.shapes.add("hist-other-object")
            if st["id"] is None:
                self.shapes.add("hist-noise-none")
            if st.get("route") == "experiment":
                self.shapes.add("hist-experiment-route")
            if self.custom is not None:
                self.shapes.add("hist-noise-assigned-under-custom")
                self.custom_assigned = True
            if self.since_fock is not None:
                self.since_fock["assigned"] = True
            # a custom input stays in the slot, a generated mixture is dropped
            self.held, self.dirty, self.cached = k, False, self.custom is not None
        elif op == "input":
            new = self.full(st["ns"])
            if self.ns is not None:
                self.shapes.add("hist-input-change")
                if new != self.ns and sum(new) == sum(self.ns) and self.cached:
                    self.shapes.add("hist-input-change-same-photon-number")
                if new == self.ns:
                    self.shapes.add("hist-same-input-again")
            sf = self.since_fock
            if sf is not None and sf["custom"]:
                same = "same" if new == sf["ns"] else "other"
                self.shapes.add(f"hist-fock-after-custom-{same}-state")
                if sf["assigned"]:
                    self.shapes.add(f"hist-fock-after-custom-{same}-state-noise-assigned")
            if sf is not None and sf["cleared"]:
                self.shapes.add("hist-fock-after-clear")
            self.ns, self.custom = new, None
            self.since_fock = {"ns": new, "custom": False, "assigned": False, "cleared": False}
            self.cached = True
        elif op == "custom":
            self.shapes.add("hist-custom-" + st["form"])
            if self.since_fock is not None:
                self.since_fock["custom"] = True
            self.ns, self.custom, self.cached = None, st["c"], True
            self.custom_form, self.custom_assigned = st["form"], False
        elif op == "clear":
            self.shapes.add("hist-clear")
            if self.since_fock is not None:
                self.since_fock["cleared"] = True
            self.ns, self.custom, self.cached = None, None, False
        elif op == "filter":
            self.filter_set = True
        elif op in ("read", "probs"):
            if op == "probs":
                self.shapes.add("hist-probs")
            if self.dirty:
                self.shapes.add("hist-dirty-read-unjudged")
                if self.rejected and self.ns is not None:
                    self.shapes.add("hist-read-after-rejected")
            elif self.ns is not None:
                self.shapes.add("hist-read-cached" if self.cached else "hist-read-regenerates")
            elif self.custom is not None:
                self.shapes.add("hist-custom-read")
                if self.custom_assigned and op == "read":
                    self.shapes.add("hist-custom-read-after-noise-assigned-" + self.custom_form)
            elif op == "read" and self.since_fock is not None and self.since_fock["cleared"]:
                self.shapes.add("hist-read-after-clear")
            if self.ns is not None:
                self.cached = True
        elif op == "source":
            self.shapes.add("hist-read-source")
        elif op == "heralds":
            self.shapes.add("hist-noisy-heralds")

    def herald_values(self):
        """the state `generate_noisy_heralds` hands to the source: the herald values in mode order"""
        return [v for _, v in self.heralds]

    def lean_step(self, st):
        op = st["op"]
        if op == "set":
            return {"op": "mutate", "id": st["id"], "P": lean_P(st["P"], noise=True)}
        if op == "copy":
            return {"op": "mutate", "id": st["to"], "P": lean_P(self.vals[st["id"]], noise=True)}
        if op == "assign":
            return {"op": "assign", "id": self.none_id if st["id"] is None else st["id"]}
        if op == "input":
            return {"op": "input", "ns": self.full(st["ns"])}
        if op == "custom":
            return {"op": "custom", "c": st["c"]}
        if op == "clear":
            return {"op": "clear"}
        if op in ("read", "probs"):       # probs() reads source_distribution (and so fills the cache)
            return {"op": "read"}
        if op == "source":
            return {"op": "source", "ns": st["ns"], "thr": core.rat(F(st["thr"]) if st.get("thr") else 0)}
        if op == "heralds":         # generate_noisy_heralds() is a direct request to processor._source
            return {"op": "source", "ns": self.herald_values(), "thr": "0"}
        return {"op": "other"}


def hist_wellformed(case):
    try:
        b = HistBook(case)
        for st in case["steps"]:
            if st["op"] in ("input", "source") and len(st["ns"]) != case["m"]:
                return False
            if not b.ok(st):
                return False
            b.apply(st)
        return True
    except Exception:  # noqa
        return False


def hist_shapes(case):
    b = HistBook(case)
    for st in case["steps"]:
        b.apply(st)
    return b.shapes


def fresh_processor_entries(P, ns):
    """control: a brand-new Processor with brand-new NoiseModel for the same parameters and input"""
    import perceval as pcvl
    from perceval.utils import BasicState
    proc = pcvl.Processor("SLOS", len(ns), noise=pcvl.NoiseModel(**noise_kwargs(P)))
    proc.with_input(BasicState(ns))
    return svd_entries(proc.source_distribution)


def judge_hist(chk, case):
    """A long-lived Processor driven through a history; every read made while the held NoiseModel is not
    in the 'updated in place, not yet assigned again' state is judged: against the Lean state machine
    (`Model/C06Proc.lean`) and, directly, against the property statement for the CURRENT parameters of the
    held noise object and the CURRENT input."""
    import perceval as pcvl
    from perceval.utils import BasicState
    book = HistBook(case)
    m = case["m"]
    lean_steps = []
    b0 = HistBook(case)
    for st in case["steps"]:
        lean_steps.append(b0.lean_step(st))
        b0.apply(st)
    lean_objs = [lean_P(P, noise=True) for P in case["objs"]] + [lean_P(FIXED["perfect"], noise=True)]
    rep = chk.lean.ask({"op": "hist", "objs": lean_objs, "init": book.held, "steps": lean_steps})
    if "err" in rep:
        return ("broken", "model-vs-code:hist", f"the model rejects this history: {rep['err']}", case)
    outs = rep["outs"]
    where = "Processor construction"
    fail = None
    try:
        objs = {i: pcvl.NoiseModel(**noise_kwargs(P)) for i, P in enumerate(case["objs"])}
        k = case["init"]["noise"]
        nm0 = None if k is None else objs[k]
        if case["init"].get("route") == "experiment":
            proc = pcvl.Processor("SLOS", pcvl.Experiment(book.m_total, noise=nm0))
        else:
            proc = pcvl.Processor("SLOS", book.m_total, noise=nm0)
        for pos, val in book.heralds:
            proc.add_herald(pos, val)
        customs = {}
        for i, st in enumerate(case["steps"]):
            op = st["op"]
            where = f"step {i} ({op})"
            svd, judged, ns_req, thr = None, False, None, None
            if op == "set":
                if st["via"] == "getter":
                    objs[st["id"]] = proc.noise          # nm = proc.noise; nm.set_value(...)
                nm = objs[st["id"]]
                old, new = noise_kwargs(book.vals[st["id"]]), noise_kwargs(st["P"])
                for fld in NOISE_FIELDS:
                    if st.get("fields") != "changed" or old[fld] != new[fld]:
                        nm.set_value(fld, new[fld])
            elif op == "copy":
                objs[st["to"]] = pcvl.NoiseModel(**noise_kwargs(book.vals[st["id"]]))
            elif op == "assign":
                nm = None if st["id"] is None else objs[st["id"]]
                expect_reject = st["id"] is not None and rejected_noise(book.vals[st["id"]])
                try:
                    if st.get("route") == "experiment":
                        proc.experiment.noise = nm
                    else:
                        proc.noise = nm
                    raised = False
                except AssertionError:
                    if not expect_reject:
                        raise
                    raised = True
                if expect_reject and not raised and fail is None:
                    fail = (f"{where}: noise {noise_kwargs(book.vals[st['id']])} was accepted although the Source "
                            f"constructor asserts against it")
                if expect_reject and raised and proc.noise is not nm and fail is None:
                    fail = f"{where}: after the rejected assignment processor.noise is not the object that was assigned"
            elif op == "input":
                proc.with_input(BasicState(st["ns"]))
            elif op == "custom":
                obj, want = custom_object(st, book.m_total)
                customs[st["c"]] = want
                if st["form"] == "polarized":
                    proc.with_polarized_input(obj)
                else:
                    proc.with_input(obj)
            elif op == "clear":
                proc.clear_input_and_circuit(book.m_total)
            elif op == "filter":
                proc.min_detected_photons_filter(st["k"])
            elif op == "probs":
                proc.probs()
            elif op == "read":
                svd = proc.source_distribution
                judged, ns_req = not book.dirty, book.ns
            elif op == "source":
                thr = thr_float(st)
                svd = proc.source.generate_distribution(BasicState(st["ns"])) if thr is None else \
                    proc.source.generate_distribution(BasicState(st["ns"]), thr)
                judged, ns_req = not book.dirty, st["ns"]
            elif op == "heralds":
                svd = proc.generate_noisy_heralds()
                judged, ns_req = not book.dirty, book.herald_values()
            else:
                raise ValueError("unknown step " + op)
            book.apply(st)
            if outs[i]["dirty"] != book.dirty:
                raise core.LeanError(f"harness bookkeeping and model disagree on the ghost flag at step {i}")
            if not judged:
                # 'updated in place / rejected, not yet (re-)assigned': nothing is demanded by the property, but the
                # model says which source answers (the one built from the values accepted last): model-vs-code only
                if op in ("read", "source", "heralds") and svd is not None and fail is None and book.custom is None \
                        and "dist" in outs[i] and not outs[i]["near"]:
                    try:
                        worst = cmp_dicts(to_canon_dict(svd_entries(svd)),
                                          to_canon_dict(lean_entries(outs[i]["dist"]), exact=True))
                    except ValueError:
                        worst = None
                    chk.branch("hist-dirty-read-model-compared")
                    if worst is not None:
                        fail = (f"{where} (held noise object updated in place or rejected, not yet re-assigned): state "
                                f"{worst[0]}: code {worst[1]!r}, model {worst[2]!r}")
                continue
            Pcur = book.vals[book.held]
            if op == "read" and book.custom is not None:
                # a custom input bypasses the source (outside the property statement: model-vs-code only)
                try:
                    same = svd is not None and bool(svd == customs[book.custom])
                except Exception:  # noqa
                    same = False
                if fail is None and not same:
                    fail = f"{where}: source_distribution is not the custom input that was given"
                elif fail is None and outs[i].get("custom") != book.custom:
                    fail = f"{where}: the model does not return the custom input"
                continue
            if ns_req is None:
                if svd is not None:
                    return ("violation", "distribution-without-input",
                            f"{where}: source_distribution is not None although no input was given", case)
                continue
            if svd is None:
                return ("violation", "no-distribution",
                        f"{where}: source_distribution is None although an input was given", case)
            not_fock = None
            try:
                entries = svd_entries(svd)
            except ValueError as e:
                entries, not_fock = [], str(e)
            if sum(ns_req) > 0:
                chk.branch(f"imp:{cell_of(Pcur)}:hist-read")
                for lab in mag_labels(Pcur):
                    chk.branch(f"mag:{lab}:hist-read")
            if not_fock is not None:
                orc = ("not-a-fock-mixture", f"the distribution for the Fock input {ns_req} is not a mixture of "
                                             f"annotated Fock states ({not_fock})")
            else:
                orc = oracle_distribution(Pcur, ns_req, entries) if thr is None or thr <= 1e-16 else \
                    oracle_structure(Pcur, ns_req, entries, normalised=True)
            if orc is not None:
                sg, txt = orc
                try:
                    fresh_ok = oracle_distribution(Pcur, ns_req, fresh_processor_entries(Pcur, ns_req)) is None
                except Exception:  # noqa
                    fresh_ok = False
                what = ("Processor.source_distribution" if op == "read" else
                        "Processor.generate_noisy_heralds" if op == "heralds" else
                        "Processor.source.generate_distribution")
                if fresh_ok:
                    sg = "history-dependent-source-distribution"
                    txt = (f"after the history, at {where}, {what} for noise {noise_kwargs(Pcur)} and input "
                           f"{ns_req} does not have the statistics these parameters promise ({txt}), whereas a "
                           f"new Processor with the same parameters and input does")
                else:
                    txt = f"{where}: {what}: {txt}"
                return ("violation", sg, txt, case)
            if fail is None and "dist" not in outs[i]:
                fail = f"{where}: the model returns no distribution"
            elif fail is None and not outs[i]["near"]:
                worst = cmp_dicts(to_canon_dict(entries), to_canon_dict(lean_entries(outs[i]["dist"]), exact=True))
                if worst is not None:
                    fail = f"{where}: state {worst[0]}: code {worst[1]!r}, model {worst[2]!r}"
            elif fail is None:
                chk.branch("near-threshold-skipped")
    except core.LeanError:
        raise
    except Exception as e:  # noqa
        return ("violation", "raises-" + type(e).__name__,
                f"{where} of a legal history raised {type(e).__name__}: {str(e)[:200]}", case)
    if fail is not None:
        return ("broken", "model-vs-code:hist", fail, case)
    return None


def hist_simpler(case):
    steps = case["steps"]
    for i in range(len(steps)):
        cand = {**case, "steps": steps[:i] + steps[i + 1:]}
        if hist_wellformed(cand):
            yield cand
    if case["init"].get("route") == "experiment":
        yield {**case, "init": {**case["init"], "route": "ctor"}}
    for i, st in enumerate(steps):
        for key, val in (("route", "proc"), ("via", "ref"), ("fields", "all"), ("form", "svd")):
            if key in st and st[key] != val:
                cand = {**case, "steps": steps[:i] + [{**st, key: val}] + steps[i + 1:]}
                if hist_wellformed(cand):
                    yield cand
    if case["m"] > 1:       # drop the last mode everywhere
        cand = copy.deepcopy(case)
        cand["m"] -= 1
        for st in cand["steps"]:
            if "ns" in st:
                st["ns"] = st["ns"][:-1]
        yield cand


_FIELD_TURN = [0]


def gen_hist(rng, pick_params):
    """random history; the macro moves make sure the shapes that matter occur: an in-place update of the
    held object (through the reference the caller kept, or through `processor.noise`) followed by the
    re-assignment of the very same object, with and without a cached distribution in between."""
    m = rng.choice([1, 2, 2, 3])

    def rand_ns():
        ns = [rng.randint(0, 2) for _ in range(m)]
        while sum(ns) > 3:
            ns[rng.randrange(m)] = 0
        if sum(ns) == 0 and rng.random() < 0.8:
            ns[rng.randrange(m)] = 1
        return ns

    def one_field(P):
        """P with exactly one of brightness / g2 / transmittance / indistinguishability / g2 model changed
        (what a parameter sweep does); the field is taken in turn so that every one occurs in every run"""
        for _ in range(40):
            key = ("beta", "q", "eta", "r", "model")[_FIELD_TURN[0] % 5]
            _FIELD_TURN[0] += 1
            if key == "model":
                Q = {**P, "model": INDIST if P["model"] == DIST else DIST}
            else:
                grid = {"beta": BETAS, "q": QS, "eta": ETAS, "r": RS}[key]
                Q = {**P, key: str(rng.choice([x for x in grid if str(x) != P[key]]))}
            if valid(Q):
                return Q
        return pick_params()

    def new_value(P):
        return one_field(P) if rng.random() < 0.6 else pick_params()

    nobj = rng.choice([1, 2, 2, 3])
    case = {"kind": "hist", "m": m, "objs": [pick_params() for _ in range(nobj)],
            "init": {"noise": rng.choice([0, 0, 0, None]), "route": rng.choice(["ctor", "ctor", "experiment"])},
            "steps": []}
    if m <= 2 and rng.random() < 0.15:
        # a heralded mode: `with_input` merges the herald's photons into the state the source is applied to
        case["init"]["heralds"] = {str(rng.randrange(m + 1)): rng.choice([1, 1, 0])}
    book = HistBook(case)
    last_user = [None]
    counter = [0]

    def emit_input(ns):
        last_user[0] = list(ns)
        emit({"op": "input", "ns": list(ns)})

    def emit_custom(form=None):
        form = form or rng.choice(CUSTOM_FORMS)
        counter[0] += 1
        st = {"op": "custom", "c": counter[0], "form": form}
        if form == "svd-same":      # the Fock state that is (was) the plain input, handed over as a distribution
            st["ns"] = book.full(last_user[0] if last_user[0] is not None else rand_ns())
        emit(st)

    def emit(st):
        assert book.ok(st), st
        case["steps"].append(st)
        book.apply(st)

    def route():
        return rng.choice(["proc", "proc", "experiment"])

    if rng.random() < 0.85:
        emit_input(rand_ns())
        if rng.random() < 0.5:
            emit({"op": "read"})
    for _ in range(rng.randint(1, 4)):
        move = rng.choice(["sweep", "sweep", "sweep", "other", "equal", "equal", "same", "none", "input", "input", "source",
                           "filter", "read", "roundtrip", "roundtrip", "roundtrip", "custom", "clear", "probs",
                           "again", "reject", "reject", "heralds"])
        if move == "reject":
            # an assignment the Source constructor rejects (NoiseModel accepts every field on its own): a new object,
            # or the held object after an in-place update; then the user recovers — fixes the object in place and
            # assigns it again, or assigns another object
            if book.ns is None and book.custom is None and rng.random() < 0.7:
                emit_input(rand_ns())
            if book.ns is not None and not book.cached and rng.random() < 0.6:
                emit({"op": "read"})
            base = book.vals[book.held]
            if book.held != book.none_id and not book.dirty and rng.random() < 0.4:
                k = book.held
                emit({"op": "set", "id": k, "P": bad_noise(rng, base), "via": rng.choice(["ref", "getter"]),
                      "fields": rng.choice(["all", "changed"])})
            else:
                k = book.next_id
                emit({"op": "copy", "id": book.held if book.held != book.none_id else 0, "to": k})
                emit({"op": "set", "id": k, "P": bad_noise(rng, book.vals[k]), "via": "ref",
                      "fields": rng.choice(["all", "changed"])})
            emit({"op": "assign", "id": k, "route": route()})
            for _ in range(rng.randint(0, 2)):
                if book.ns is not None and rng.random() < 0.6:
                    emit({"op": "read"})
                elif rng.random() < 0.5:
                    emit({"op": "source", "ns": rand_ns(), "thr": None})
                elif rng.random() < 0.5:
                    emit_input(rand_ns())
            how = rng.choice(["fix", "fix", "other", "none"])
            if how == "fix":
                emit({"op": "set", "id": k, "P": pick_params(), "via": rng.choice(["ref", "getter"]), "fields": "all"})
                emit({"op": "assign", "id": k, "route": route()})
            else:
                if k < nobj:        # an original object stays usable for the later moves
                    emit({"op": "set", "id": k, "P": pick_params(), "via": "ref", "fields": "all"})
                others = [i for i in range(nobj) if i != k]
                if how == "other" and others:
                    emit({"op": "assign", "id": rng.choice(others), "route": route()})
                else:
                    emit({"op": "assign", "id": None, "route": route()})
            if rng.random() < 0.8:
                emit({"op": "read"})
        elif move == "heralds":
            if book.heralds:
                emit({"op": "heralds"})
        elif move == "roundtrip":
            # Fock state A, a custom input (it overwrites the slot of the cached mixture), [reads, a noise assignment,
            # a filter change, probs() in between], then a Fock state again — the SAME one most of the time
            if book.ns is None or rng.random() < 0.3:
                emit_input(rand_ns())
                if rng.random() < 0.5:
                    emit({"op": "read"})
            a = list(last_user[0])
            emit_custom()
            for _ in range(rng.randint(0, 2)):
                mid = rng.choice(["read", "assign-same", "assign-other", "sweep", "filter-probs", "custom"])
                if mid == "read":
                    emit({"op": "read"})
                elif mid == "assign-same":
                    emit({"op": "assign", "id": None if book.held == book.none_id else book.held, "route": route()})
                elif mid == "assign-other":
                    emit({"op": "assign", "id": rng.randrange(nobj), "route": route()})
                elif mid == "sweep" and book.held != book.none_id:
                    emit({"op": "set", "id": book.held, "P": new_value(book.vals[book.held]),
                          "via": rng.choice(["ref", "getter"]), "fields": rng.choice(["all", "changed"])})
                    emit({"op": "assign", "id": book.held, "route": route()})
                elif mid == "filter-probs":
                    emit({"op": "filter", "k": rng.randint(0, 1)})
                    emit({"op": "probs"})
                elif mid == "custom":
                    emit_custom()
            emit_input(a if rng.random() < 0.7 else rand_ns())
            if rng.random() < 0.9:
                emit({"op": "read"})
        elif move == "custom":
            emit_custom()
            if rng.random() < 0.6:
                emit({"op": "read"})
        elif move == "clear" and not book.heralds:
            emit({"op": "clear"})
            if rng.random() < 0.5:
                emit({"op": "read"})
            if rng.random() < 0.7:
                emit_input(last_user[0] if last_user[0] is not None and rng.random() < 0.5 else rand_ns())
        elif move == "probs" and (book.ns is not None or book.custom is not None):
            if not book.filter_set or rng.random() < 0.3:
                emit({"op": "filter", "k": rng.randint(0, 1)})
            emit({"op": "probs"})
        elif move == "again" and book.ns is not None and last_user[0] is not None:
            # the very same Fock state given again (loops do that), possibly after the noise was replaced
            if rng.random() < 0.5 and book.held != book.none_id:
                emit({"op": "set", "id": book.held, "P": new_value(book.vals[book.held]), "via": "ref", "fields": "changed"})
                emit({"op": "assign", "id": book.held, "route": route()})
            emit_input(last_user[0])
            emit({"op": "read"})
        elif move == "sweep":
            if book.held == book.none_id:
                emit({"op": "assign", "id": rng.randrange(nobj), "route": route()})
                if rng.random() < 0.5:
                    emit({"op": "read"})
            emit({"op": "set", "id": book.held, "P": new_value(book.vals[book.held]),
                  "via": rng.choice(["ref", "getter"]),
                  "fields": rng.choice(["all", "changed"])})
            if rng.random() < 0.25:
                emit({"op": "read"})          # not judged; fills the cache with the old distribution
            emit({"op": "assign", "id": book.held, "route": route()})
            if rng.random() < 0.8:
                emit({"op": "read"})
        elif move == "other":
            k = rng.randrange(nobj)
            if k == book.held and nobj > 1:
                k = (k + 1) % nobj
            if rng.random() < 0.6:
                emit({"op": "set", "id": k, "P": pick_params(), "via": "ref", "fields": rng.choice(["all", "changed"])})
            emit({"op": "assign", "id": k, "route": route()})
        elif move == "equal" and not book.dirty and book.held != book.none_id:
            to = book.next_id
            emit({"op": "copy", "id": book.held, "to": to})
            if rng.random() < 0.5:      # a new object that differs from the held one in a single field
                emit({"op": "set", "id": to, "P": one_field(book.vals[to]), "via": "ref", "fields": "changed"})
            emit({"op": "assign", "id": to, "route": route()})
            if rng.random() < 0.7:
                emit({"op": "read"})
        elif move == "same" and book.held != book.none_id:
            emit({"op": "assign", "id": book.held, "route": route()})
        elif move == "none":
            emit({"op": "assign", "id": None, "route": route()})
        elif move == "input":
            ns = rand_ns()
            if book.ns is not None and m > 1 and sum(last_user[0]) > 0 and rng.random() < 0.6:
                # another arrangement of the same number of photons (a summary of the input is unchanged)
                for _ in range(20):
                    cand = list(last_user[0])
                    i, j = rng.sample(range(m), 2)
                    if cand[i] > 0 and cand[j] < 2:
                        cand[i] -= 1
                        cand[j] += 1
                        ns = cand
                        break
            emit_input(ns)
            if rng.random() < 0.7:
                emit({"op": "read"})
        elif move == "source":
            emit({"op": "source", "ns": rand_ns(), "thr": rng.choice([None, None, "1/1000"])})
        elif move == "filter":
            emit({"op": "filter", "k": rng.randint(0, 2)})
        else:
            emit({"op": "read"})
    if book.dirty:
        emit({"op": "assign", "id": book.held, "route": route()})
    if book.ns is None:
        # end on a Fock input so that the last read is judged; after a custom input preferably the earlier Fock state
        emit_input(last_user[0] if last_user[0] is not None and rng.random() < 0.6 else rand_ns())
    emit({"op": "read"})
    if rng.random() < 0.5:
        emit({"op": "source", "ns": last_user[0], "thr": None})
    return case


JUDGES = {"gen": judge_gen, "proc": judge_gen, "pd": judge_pd, "table": judge_table, "samples": judge_samples,
          "bad": judge_bad, "hist": judge_hist, "draws": judge_draws}


# ------------------------------------------------------------------------------------------------
# Source.simplify_distribution = True  (anonymize_annotations)            [kinds "simplify", "anon"]
# ------------------------------------------------------------------------------------------------
def visit_order(bs):
    """the photons of a BasicState in the order `anonymize_annotations` visits them: per mode the list of tags
    (None / int) in index order i = 0 .. n-1"""
    out = [[] for _ in range(bs.m)]
    last = 0
    for i in range(bs.n):
        mode = bs.photon2mode(i)
        if mode < last:
            raise ValueError("photon2mode is not non-decreasing")
        last = mode
        s = str(bs.get_photon_annotation(i))
        if s == "":
            out[mode].append(None)
        else:
            mt = _ANN.fullmatch(s)
            if not mt:
                raise ValueError(f"unexpected annotation {s!r}")
            out[mode].append(int(mt.group(1)))
    return out


def exact_key(modes):
    """a state as an exact key: per mode the sorted tags (None first)"""
    return tuple(tuple(sorted(tags, key=lambda t: -1 if t is None else t)) for tags in modes)


def pattern_of(modes):
    """complete invariant of an annotated state under ARBITRARY renaming of its tags (no tag is special, 'no
    annotation' counts as one more tag): the sorted multiset of the occupation vectors of the tags"""
    m = len(modes)
    occ = {}
    for i, tags in enumerate(modes):
        for t in tags:
            occ.setdefault(t, [0] * m)[i] += 1
    return tuple(sorted(tuple(v) for v in occ.values()))


def pattern_law_closed(P, ns):
    """law of the tag-equality pattern from the PHYSICAL DESCRIPTION (exact Fractions, independent of the code
    and of the Lean model): per requested photon nothing with probability 1-beta, the signal alone p1, signal +
    extra p2; every photon survives with probability eta independently; the signal carries the common tag with
    probability r, else a tag of its own; the extra photon carries a tag of its own ("distinguishable") or the
    common tag ("indistinguishable").  -> {pattern: Fraction}"""
    d = derived(P)
    beta, q, eta, r = d["beta"], d["q"], d["eta"], d["r"]
    p2 = beta * (1 - q) / (1 + q)
    p1 = beta - p2
    sig = {(0, 0): 1 - eta, (1, 0): eta * r, (0, 1): eta * (1 - r)}
    ext = {(0, 0): 1 - eta, ((0, 1) if d["model"] == DIST else (1, 0)): eta}
    one = {}

    def add(dst, k, v):
        if v != 0:
            dst[k] = dst.get(k, 0) + v
    add(one, (0, 0), 1 - beta)
    for k, v in sig.items():
        add(one, k, p1 * v)
    for k1, v1 in sig.items():
        for k2, v2 in ext.items():
            add(one, (k1[0] + k2[0], k1[1] + k2[1]), p2 * v1 * v2)
    per_mode = []
    for n in ns:
        cur = {(0, 0): F(1)}
        for _ in range(n):
            new = {}
            for k1, v1 in cur.items():
                for k2, v2 in one.items():
                    add(new, (k1[0] + k2[0], k1[1] + k2[1]), v1 * v2)
            cur = new
        per_mode.append(cur)
    m = len(ns)
    out = {}
    for combo in itertools.product(*[list(pm.items()) for pm in per_mode]):
        pr = F(1)
        for _, v in combo:
            pr *= v
        vecs = []
        c = tuple(k[0] for k, _ in combo)
        if any(c):
            vecs.append(c)
        for i, (k, _) in enumerate(combo):
            for _ in range(k[1]):
                vecs.append(tuple(1 if j == i else 0 for j in range(m)))
        add(out, tuple(sorted(vecs)), pr)
    return out


def simplify_sources(case):
    """-> (flagged distribution, unflagged distribution of an equal source in the same state, tag counter)"""
    import perceval as pcvl
    from perceval.utils import BasicState
    P, ns = case["P"], case["ns"]
    thr = thr_float(case)
    outs = []
    t = 0
    for flag in (True, False):
        if case.get("via") == "proc":
            d = derived(P)
            noise = pcvl.NoiseModel(
                brightness=float(d["beta"]), indistinguishability=float(d["ind"]), g2=float(d["g2"]),
                g2_distinguishable=(d["model"] == DIST), transmittance=float(d["eta"]))
            proc = pcvl.Processor("SLOS", len(ns), noise=noise)
            if flag:
                proc.source.simplify_distribution = True
            proc.with_input(BasicState(ns))
            outs.append(proc.source_distribution)
        else:
            src = mk_source(P)
            if flag:
                src.simplify_distribution = True
            advance(src, case.get("pre", 0))
            for _ in range(case.get("pre1", 0)):        # cheap advancement of the tag counter: one photon per call
                src.generate_distribution(BasicState([1]))
            t = src.get_tag("discernability_tag")
            outs.append(src.generate_distribution(BasicState(ns)) if thr is None else
                        src.generate_distribution(BasicState(ns), thr))
    return outs[0], outs[1], t


def oracle_simplify(chk, P, ns, svd_s, svd_u, exact_law):
    """the property on the real simplified output.  -> None or (signature, text)"""
    from perceval.utils import anonymize_annotations
    perfect, pd = classify(P)
    ent_s, ent_u = svd_entries(svd_s), svd_entries(svd_u)
    if not pd:
        # the flag must be a no-op: identical keys (strings) and identical probabilities
        a = [(str(k), float(p)) for k, p in svd_s.items()]
        b = [(str(k), float(p)) for k, p in svd_u.items()]
        if a != b:
            return ("simplify-acts-without-annotations",
                    f"simplify_distribution changes the distribution of a source that is not partially "
                    f"distinguishable: {a[:3]} vs {b[:3]}")
        return None
    total = sum(p for _, p in ent_s)
    if ent_s and not core.close(total, 1.0):
        return ("simplify-changes-law", f"the simplified distribution has total probability {total!r}")
    if any(p < 0 for _, p in ent_s):
        return ("negative-probability", "a state has negative probability")
    keys = [exact_key(mo) for mo, _ in ent_s]
    if len(set(keys)) != len(keys):
        return ("simplify-duplicate-keys", "two keys of the simplified distribution are the same state")
    probs = [p for _, p in ent_s]
    if any(probs[i] < probs[i + 1] for i in range(len(probs) - 1)):
        return ("simplify-not-sorted", "the simplified distribution is not sorted by decreasing probability")
    for mo, p in ent_s:
        if len(mo) != len(ns):
            return ("mode-count", f"a simplified state has {len(mo)} modes for {len(ns)} requested")
        names = set(t for tags in mo for t in tags)
        if names != set(range(len(names))):
            return ("simplify-names", f"the tags of the simplified state {mo} are not _:0 .. _:{len(names) - 1}")
    # the law of the tag-equality pattern (it determines the photon counts per mode) is that of the
    # unsimplified output of an equal source, and every pattern has exactly one key
    got, want = {}, {}
    for mo, p in ent_s:
        got[pattern_of(mo)] = got.get(pattern_of(mo), 0.0) + p
    for mo, p in ent_u:
        want[pattern_of(mo)] = want.get(pattern_of(mo), 0.0) + p
    if len(got) != len(ent_s):
        return ("simplify-duplicate-keys", "two simplified states have the same tag pattern")
    if len(want) < len(ent_u):
        chk.branch("simplify-merges-states")
    for k in set(got) | set(want):
        if not core.close(got.get(k, 0.0), want.get(k, 0.0)):
            return ("simplify-changes-law",
                    f"P(tag pattern {k}) is {got.get(k, 0.0)!r} in the simplified distribution, {want.get(k, 0.0)!r} "
                    f"in the distribution it simplifies")
    if exact_law:
        law = pattern_law_closed(P, ns)
        for k in set(got) | set(law):
            if not core.close(got.get(k, 0.0), float(law.get(k, 0))):
                return ("simplify-pattern-law",
                        f"P(tag pattern {k}) is {got.get(k, 0.0)!r} in the simplified distribution; brightness/g2/"
                        f"transmittance/indistinguishability demand {float(law.get(k, 0))!r}")
    # anonymising again changes nothing
    again = anonymize_annotations(svd_s, annot_tag="_")
    a = sorted((exact_key(mo), p) for mo, p in svd_entries(again))
    b = sorted((k, p) for k, (_, p) in zip(keys, ent_s))
    if [k for k, _ in a] != [k for k, _ in b] or any(not core.close(x[1], y[1]) for x, y in zip(a, b)):
        return ("simplify-not-idempotent", "anonymising the simplified distribution again changes it")
    for mo, _ in ent_u:
        flat = [t for tags in mo for t in tags]
        if flat and flat[0] not in (None, 0):
            chk.branch("simplify-fresh-tag-becomes-0")
            break
    if any(t is not None and t >= 10 for mo, _ in ent_u for tags in mo for t in tags):
        chk.branch("simplify-two-digit-tags")
    return None


def judge_simplify(chk, case):
    """generate_distribution / Processor.source_distribution with simplify_distribution = True"""
    P, ns = case["P"], case["ns"]
    thr = thr_float(case)
    what = "Processor.source_distribution" if case.get("via") == "proc" else "generate_distribution"
    try:
        svd_s, svd_u, t = simplify_sources(case)
        ent_s = svd_entries(svd_s)
        a, b = mk_source(P), mk_source(P)
        b.simplify_distribution = True
        eq_bad = (a == b) or not (a == mk_source(P))
    except Exception as e:  # noqa
        return ("violation", "raises-" + type(e).__name__,
                f"{what} with simplify_distribution raised {type(e).__name__}: {str(e)[:200]}", case)
    perfect, pd = classify(P)
    chk.branch("simplify-on-pd" if pd else "simplify-on-nonpd")
    if case.get("via") == "proc":
        chk.branch("simplify-via-proc")
    if thr is not None and thr > 0:
        chk.branch("simplify-thr-explicit")
    rep = chk.lean.ask({"op": "gen_simplify", "P": lean_P(P, noise=case.get("via") == "proc"), "ns": ns, "t": t,
                        "thr": core.rat(thr if thr is not None else 0), "simplify": True})
    fail = None
    if "err" in rep:
        fail = f"the model rejects this setting: {rep['err']}"
    else:
        if rep["near"]:
            chk.branch("near-threshold-skipped")
            return None
        if rep["applied"] != pd:
            fail = f"model applies the simplification: {rep['applied']}, harness classification: {pd}"
        real, model = {}, {}
        for mo, p in ent_s:
            real[exact_key(mo)] = real.get(exact_key(mo), 0.0) + p
        for mo, p in lean_entries(rep["dist"]):
            model[exact_key(mo)] = model.get(exact_key(mo), 0) + p
        worst = cmp_dicts(real, model)
        if worst is not None and fail is None:
            fail = f"state {worst[0]}: code {worst[1]!r}, model {worst[2]!r}"
    orc = oracle_simplify(chk, P, ns, svd_s, svd_u, exact_law=(thr is None or thr <= 1e-16))
    if orc is not None:
        return ("violation", orc[0], orc[1], case)
    if eq_bad:
        return ("violation", "eq-ignores-simplify",
                "Source.__eq__ does not distinguish simplify_distribution (or equal sources compare different)", case)
    if fail is not None:
        return ("broken", "model-vs-code:simplify", fail, case)
    return None


def judge_anon(chk, case):
    """anonymize_annotations(StateVector) on an arbitrary annotated state vs the model"""
    from perceval.utils import BasicState, StateVector, anonymize_annotations
    text = case["state"]
    try:
        bs = BasicState(text)
        vis = visit_order(bs)
        res = anonymize_annotations(StateVector(bs), annot_tag="_")
        if len(res) != 1:
            raise ValueError("the anonymised state is superposed")
        out = bs_modes(res[0])
    except Exception as e:  # noqa
        return ("violation", "raises-" + type(e).__name__,
                f"anonymize_annotations raised {type(e).__name__}: {str(e)[:200]}", case)
    flat = [t for tags in vis for t in tags]
    if len(set(flat)) < len(flat):
        chk.branch("anon-repeated-tag")
    if None in flat:
        chk.branch("anon-unannotated-photon")
    if any(t is not None and t >= 10 for t in flat):
        chk.branch("anon-two-digit-tag")
    rep = chk.lean.ask({"op": "anon_state", "state": vis})
    fail = None
    if "err" in rep:
        fail = f"the model rejects this state: {rep['err']}"
    elif exact_key(rep["state"]) != exact_key(out):
        fail = f"{text}: code {exact_key(out)}, model {exact_key(rep['state'])}"
    names = set(t for tags in out for t in tags)
    if pattern_of(out) != pattern_of(vis) or [len(x) for x in out] != [len(x) for x in vis]:
        return ("violation", "anonymize-changes-pattern",
                f"anonymize_annotations({text}) = {exact_key(out)} does not keep which photons share a tag", case)
    if names != set(range(len(names))):
        return ("violation", "simplify-names", f"anonymize_annotations({text}) = {exact_key(out)}: names not 0..k-1", case)
    if fail is not None:
        return ("broken", "model-vs-code:anon", fail, case)
    return None


JUDGES["simplify"] = judge_simplify
JUDGES["anon"] = judge_anon


def handle_anon(chk, case):
    chk.count("kind", "anon")
    chk.branch("anon")
    t0 = time.perf_counter()
    res = judge(chk, case)
    secs = chk.extra.setdefault("seconds_by_kind", {})
    secs["anon"] = round(secs.get("anon", 0.0) + time.perf_counter() - t0, 3)
    chk.case(("anon", case["state"]), nontrivial=any(ch.isdigit() and ch != "0" for ch in case["state"]), sample=case)
    if res is not None:
        chk.fail(res[0], res[1], res[2], {"case": case})


def anon_state_text(rng, max_tag):
    m = rng.randint(1, 3)
    parts = []
    pool = [rng.randint(0, max_tag) for _ in range(rng.randint(1, 4))]
    for _ in range(m):
        k = rng.randint(0, 3)
        s = "".join("{_:%d}" % rng.choice(pool) for _ in range(k))
        u = rng.choice([0, 0, 0, 1, 2])
        if u:
            s += str(u)
        parts.append(s or "0")
    return "|" + ",".join(parts) + ">"


SIMPLIFY_REQUIRED = ["simplify-on-pd", "simplify-on-nonpd", "simplify-merges-states", "simplify-fresh-tag-becomes-0",
                     "simplify-via-proc", "simplify-thr-explicit", "simplify-two-digit-tags", "anon", "anon-repeated-tag",
                     "anon-unannotated-photon", "anon-two-digit-tag"]


def simplify_required():
    return SIMPLIFY_REQUIRED + [f"imp:{c}:simplify" for c in LATTICE]


def simplify_cases(chk, lat, rng):
    out = []
    inputs = chk.pick([[1, 1], [2], [1, 0, 1], [2, 1]], [[1], [1, 1], [2], [1, 0, 1], [2, 1], [0, 2], [2, 2], [1, 1, 1]])
    for il, (cell, P) in enumerate(lat):
        for ii, ns in enumerate(inputs if chk.thorough else [inputs[il % 4], inputs[(il + 1) % 4]]):
            out.append({"kind": "simplify", "P": P, "ns": ns, "pre": (il + ii) % 3})
        out.append({"kind": "simplify", "P": P, "ns": [[1, 1], [2], [1, 2]][il % 3], "via": "proc"})
        out.append({"kind": "simplify", "P": P, "ns": [[2, 1], [1, 1]][il % 2], "thr": ["1/1000", "1/20"][il % 2],
                    "pre": il % 2})
    for name in ("pd-dist", "pd-indist", "pd-dist-I1", "hom-only", "r-zero", "r-zero-indist", "q-zero", "nonpd-g2"):
        for ns in ([2, 2], [1, 1, 1], [3], [0, 1, 2]):
            out.append({"kind": "simplify", "P": FIXED[name], "ns": ns, "pre": rng.choice([0, 1, 2])})
    for _ in range(chk.pick(20, 300)):
        P = rand_params(rng)
        m = rng.randint(1, 3)
        ns = [rng.randint(0, 2) for _ in range(m)]
        while sum(ns) > 4:
            ns[rng.randrange(m)] = 0
        out.append({"kind": "simplify", "P": P, "ns": ns, "pre": rng.choice([0, 0, 1, 3]),
                    "thr": rng.choice([None, None, None, "0", "1/1000", "1/20"]),
                    **({"via": "proc"} if rng.random() < 0.2 else {})})
        if out[-1].get("via") == "proc":
            out[-1].pop("thr"), out[-1].pop("pre")
    # tag counter far enough for two-digit tags (their strings share a prefix with one-digit ones)
    out.append({"kind": "simplify", "P": FIXED["pd-dist"], "ns": [2, 1], "pre1": 5})
    out.append({"kind": "simplify", "P": FIXED["pd-indist"], "ns": [1, 1, 1], "pre1": 10})
    for st in ("|{_:3}{_:1},{_:2}>", "|{_:2},{_:1}{_:2}>", "|{_:10}{_:9},{_:9}>", "|1,{_:4}>", "|{_:1}{_:0}2,1>", "|0,0>",
               "|2{_:5},{_:0}{_:5}>", "|{_:12}{_:3}{_:12}1,0,{_:3}2>"):
        out.append({"kind": "anon", "state": st})
    for _ in range(chk.pick(60, 600)):
        out.append({"kind": "anon", "state": anon_state_text(rng, rng.choice([3, 12]))})
    return out


# ------------------------------------------------------------------------------------------------
# histories of calls on ONE Source object (wave 8): the event-table cache and the tag counter
# (model `Model/C06Src.lean`, driver op `src_hist`)
# ------------------------------------------------------------------------------------------------
SRC_PRIVATE = ("_prob_table", "_prob_table_n", "_prob_table_filter", "cache_prob_table", "_compute_prob_table")


def is_event_draw(call):
    """is this recorded random.choices call the draw of the events (population = keys of the event table)?"""
    kind, pop, w, _ = call
    return kind == "c" and w is not None and len(pop) > 0 and \
        all(isinstance(x, tuple) and len(x) == 3 and all(isinstance(y, int) for y in x) for x in pop)


def src_lean_ops(steps):
    return [{k: v for k, v in st.items() if k != "k"} for st in steps]


def src_cmp_table(P, n, f, keys, vals, model_rows):
    """ordered keys exactly, values with the tolerance of the filtered table -> None or text"""
    mkeys = [(i, j, k) for i, j, k, _ in model_rows]
    if list(keys) != mkeys:
        return f"event keys: code {list(keys)[:6]}, model {mkeys[:6]}"
    rtol = cond_rtol(P, n, f)
    for key, v, row in zip(keys, vals, model_rows):
        if not close_rel(float(v), float(F(row[3])), rtol):
            return f"event {key}: code {float(v)!r}, model {float(F(row[3]))!r}"
    return None


def judge_srchist(chk, case):
    import perceval as pcvl
    from perceval.utils import BasicState
    P, steps = case["P"], case["steps"]
    pcvl.random_seed(case["seed"])
    pyrandom.seed(case["seed"])
    t0 = case.get("t0", 0)
    if t0:
        # the caller's own context dictionary (public constructor argument) with a tag counter that is not 0
        from perceval.components import Source
        d = derived(P)
        src = Source(emission_probability=float(d["beta"]), multiphoton_component=float(d["g2"]),
                     indistinguishability=float(d["ind"]), losses=float(d["losses"]),
                     multiphoton_model=d["model"], context={"discernability_tag": t0})
        chk.branch("src-context-tag")
    else:
        src = mk_source(P)
    if not all(hasattr(src, a) for a in SRC_PRIVATE):
        chk.count("private_members_missing", "srchist")
        return None
    rep = chk.lean.ask({"op": "src_hist", "P": lean_P(P), "t0": t0, "ops": src_lean_ops(steps)})
    if "err" in rep:
        return ("broken", "model-vs-code:srchist", f"the model rejects this history: {rep['err']}", case)
    prev_cache = None
    for i, (st, mo) in enumerate(zip(steps, rep["steps"])):
        where = f"step {i + 1} ({json.dumps(st)})"
        exc, out, samples, calls = None, None, None, []
        try:
            if st["op"] == "cache":
                out = src.cache_prob_table(st["n"], st["f"])
            elif st["op"] == "samples":
                with Draws() as rec:
                    if st["f"]:
                        samples = src.generate_samples(st["k"], BasicState(st["ns"]), st["f"])
                    else:
                        samples = src.generate_samples(st["k"], BasicState(st["ns"]))
                calls = rec.calls
            elif st["op"] == "dist":
                src.generate_distribution(BasicState(st["ns"]))
            else:
                src.probability_distribution(st["n"])
        except (ZeroDivisionError, IndexError) as e:
            exc = type(e).__name__
        except Exception as e:  # noqa
            return ("violation", "raises-" + type(e).__name__,
                    f"{where}: {type(e).__name__}: {str(e)[:200]}", case)
        # ---- the property, directly on the real code: a filtered request draws its events from the table of ITS
        # photon number and filter (what a new Source computes for it), and no sample falls below the filter
        if st["op"] == "samples" and st["f"] and calls and is_event_draw(calls[0]):
            n, f = sum(st["ns"]), st["f"]
            try:
                want = mk_source(P)._compute_prob_table(n, f)[0]
            except Exception:  # noqa
                want = None
            if want is not None:
                wk = [tuple(int(x) for x in k) for k in want.keys()]
                wv = [float(v) for v in want.values()]
                used_k, used_w = calls[0][1], calls[0][2]
                if used_k != wk or any(not close_rel(a, b, 1e-12) for a, b in zip(used_w, wv)):
                    return ("violation", "stale-event-table",
                            f"{where}: generate_samples draws its events from a table that is not the table of this "
                            f"request ({len(used_k)} events {used_k[:4]} weights {used_w[:4]}; a new Source uses "
                            f"{len(wk)} events {wk[:4]} weights {wv[:4]}) — the samples are not conditioned on this "
                            f"filter", case)
            if any(s.n < f for s in samples):
                return ("violation", "sample-below-filter",
                        f"{where}: a sample has fewer photons than min_detected_photons", case)
        # ---- model vs code: outcome
        mout = mo["out"]
        bad = None
        if mout in ("ZeroDivisionError", "IndexError"):
            if exc != mout:
                bad = f"model: {mout}, code: {exc or 'no exception'}"
        elif exc is not None:
            bad = f"model: {mout}, code raises {exc}"
        elif mout == "cached":
            if not core.close(out[0], float(F(mo["perf"]))) or not core.close(out[1], float(F(mo["zpp"]))):
                bad = f"cache_prob_table returns {out!r}, model ({float(F(mo['perf']))!r}, {float(F(mo['zpp']))!r})"
        elif mout == "events":
            if not calls or not is_event_draw(calls[0]):
                bad = "model: events are drawn from the table, the code makes no such draw"
            else:
                bad = src_cmp_table(P, sum(st["ns"]), st["f"], calls[0][1], calls[0][2], mo["used"])
                if bad is None and len(samples) != st["k"]:
                    bad = f"{len(samples)} samples for {st['k']} requested"
        elif mout == "aborted":
            if len(samples) != 0 or calls:
                bad = f"model: aborted (no sample, no draw), code: {len(samples)} samples, {len(calls)} draws"
        elif mout == "perfect":
            if calls or [bs_modes(x) for x in samples] != [[[None] * k for k in st["ns"]]] * st["k"]:
                bad = "model: perfect source, the code does not return the input unchanged without drawing"
        elif mout == "no-filter":
            if len(samples) != st["k"] or (calls and is_event_draw(calls[0])):
                bad = "model: unfiltered route, the code draws events from a table or returns another number of samples"
        if bad is not None:
            return ("broken", "model-vs-code:src-outcome", f"{where}: {bad}", case)
        # ---- model vs code: the object after the call
        tag = src.get_tag("discernability_tag")
        if tag != mo["tag"]:
            return ("broken", "model-vs-code:src-tag",
                    f"{where}: tag counter after the call {tag}, model {mo['tag']}", case)
        mc = mo["cache"]
        if (src._prob_table is None) != (mc is None):
            return ("broken", "model-vs-code:src-cache",
                    f"{where}: _prob_table is {'None' if src._prob_table is None else 'set'}, model: "
                    f"{'None' if mc is None else 'set'}", case)
        if mc is not None:
            if (src._prob_table_n, src._prob_table_filter) != (mc["n"], mc["f"]):
                return ("broken", "model-vs-code:src-cache",
                        f"{where}: cache key ({src._prob_table_n}, {src._prob_table_filter}), model "
                        f"({mc['n']}, {mc['f']})", case)
            keys = [tuple(int(x) for x in k) for k in src._prob_table.keys()]
            bad = src_cmp_table(P, mc["n"], mc["f"], keys, list(src._prob_table.values()), mc["table"])
            if bad is not None:
                return ("broken", "model-vs-code:src-cache", f"{where}: cached table: {bad}", case)
        # ---- branches (from the model's account of the step)
        if st["op"] == "samples" and st["f"] and mout in ("events", "IndexError"):
            key = (sum(st["ns"]), st["f"])
            if prev_cache is None:
                chk.branch("src-cache-first")
            elif (prev_cache["n"], prev_cache["f"]) == key:
                chk.branch("src-cache-hit")
                if steps[i - 1]["op"] == "cache":
                    chk.branch("src-hit-after-cache_prob_table")
                if mout == "IndexError":
                    chk.branch("src-hit-on-empty-table")
            elif prev_cache["n"] == key[0]:
                chk.branch("src-cache-miss-filter")
            elif prev_cache["f"] == key[1]:
                chk.branch("src-cache-miss-n")
            else:
                chk.branch("src-cache-miss-both")
            if mout == "events" and mo["tag"] > 0:
                chk.branch("src-events-tag-restored")
        if mout == "ZeroDivisionError":
            chk.branch("src-zero-div")
        if mout == "no-filter" and prev_cache is not None:
            chk.branch("src-nofilter-keeps-cache")
        if mout == "aborted":
            chk.branch("src-aborted")
        if mout == "moved" and prev_cache is not None:
            chk.branch("src-dist-between")
        chk.count("src_step_outcome", mout)
        prev_cache = mc
    return None


def srchist_simpler(c):
    steps = c["steps"]
    if c.get("t0"):
        yield {k: v for k, v in c.items() if k != "t0"}
    for i in range(len(steps)):
        if len(steps) > 1:
            yield {**c, "steps": steps[:i] + steps[i + 1:]}
    for i, st in enumerate(steps):
        if st.get("k", 1) > 1:
            yield {**c, "steps": steps[:i] + [{**st, "k": 1}] + steps[i + 1:]}
        if "ns" in st and len(st["ns"]) > 1:
            yield {**c, "steps": steps[:i] + [{**st, "ns": [sum(st["ns"])]}] + steps[i + 1:]}


def handle_srchist(chk, case):
    chk.count("kind", "srchist")
    chk.branch("srchist")
    chk.count("srchist_steps", len(case["steps"]))
    t0 = time.perf_counter()
    res = judge(chk, case)
    secs = chk.extra.setdefault("seconds_by_kind", {})
    secs["srchist"] = round(secs.get("srchist", 0.0) + time.perf_counter() - t0, 3)
    chk.case(("srchist", json.dumps(case, sort_keys=True)), nontrivial=not classify(case["P"])[0], sample=case)
    if res is not None:
        small = shrink(chk, case, res[1])
        r2 = judge(chk, small) or res
        chk.fail(r2[0], res[1], r2[2], {"case": small})


SRC_REQUIRED = ["srchist", "src-cache-first", "src-cache-hit", "src-hit-after-cache_prob_table",
                "src-hit-on-empty-table", "src-cache-miss-filter", "src-cache-miss-n", "src-cache-miss-both",
                "src-events-tag-restored", "src-zero-div", "src-nofilter-keeps-cache", "src-aborted",
                "src-dist-between", "src-context-tag"]


def srchist_scripted():
    """deterministic histories that reach every branch of SRC_REQUIRED whatever the seed"""
    S = lambda ns, f, k=3: {"op": "samples", "ns": ns, "f": f, "k": k}   # noqa
    C = lambda n, f: {"op": "cache", "n": n, "f": f}                     # noqa
    D = lambda ns: {"op": "dist", "ns": ns}                              # noqa
    out = []
    for name in ("pd-dist", "pd-indist", "nonpd-g2", "no-loss-g2", "hom-only", "loss-only"):
        out.append({"kind": "srchist", "P": FIXED[name], "seed": 11, "steps": [
            S([1, 1], 1), S([2], 1), S([1, 1], 2), S([1, 1, 1], 2), S([2, 1], 0), S([2, 1], 2), D([1, 1]),
            S([1, 2], 2), C(2, 1), S([1, 1], 1), {"op": "pd", "n": 2}, S([1], 3), S([1], 3), C(4, 2),
            S([2, 1], 1), S([1, 1], 2)]})
    out.append({"kind": "srchist", "P": FIXED["eta-zero"], "seed": 12, "steps": [
        S([1, 1], 1), C(2, 1), C(2, 0), S([1, 1], 0), C(1, 3), S([1], 3), D([1])]})
    out.append({"kind": "srchist", "P": FIXED["pd-dist"], "seed": 14, "t0": 5, "steps": [
        S([1, 1], 1), S([2], 0), S([1, 1], 1), D([1]), S([1, 1], 2)]})
    out.append({"kind": "srchist", "P": FIXED["perfect"], "seed": 13, "steps": [
        S([1, 1], 1), C(2, 1), S([1, 1], 1), S([1, 1], 0), D([1, 1]), C(2, 2), S([2], 2)]})
    return out


def gen_srchist(rng, P):
    n0, f0 = rng.randint(1, 3), rng.randint(1, 3)

    def arrangement(n):
        m = rng.randint(1, 3)
        ns = [0] * m
        for _ in range(n):
            ns[rng.randrange(m)] += 1
        return ns
    steps = []
    for _ in range(rng.randint(3, 9)):
        n = rng.choice([n0, n0, n0 + 1])
        f = rng.choice([f0, f0, f0 + 1, 0, 2 * n + 1])
        u = rng.random()
        if u < 0.6:
            steps.append({"op": "samples", "ns": arrangement(n), "f": f, "k": rng.randint(1, 4)})
        elif u < 0.8:
            steps.append({"op": "cache", "n": n, "f": f})
        elif u < 0.92:
            steps.append({"op": "dist", "ns": arrangement(rng.randint(0, 2))})
        else:
            steps.append({"op": "pd", "n": rng.randint(0, 2)})
    return {"kind": "srchist", "P": P, "seed": rng.randrange(1 << 30), "t0": rng.choice([0, 0, 0, 3, 17]),
            "steps": steps}


JUDGES["srchist"] = judge_srchist


def judge(chk, case):
    try:
        return JUDGES[case["kind"]](chk, case)
    except core.LeanError:
        raise
    except (IndexError, KeyError, ValueError, TypeError, AttributeError, AssertionError, ZeroDivisionError) as e:
        # the comparison itself could not be carried out on what the implementation did (e.g. it made none of the random
        # calls the route of the model needs): the correspondence for this case is broken; reported as such instead of
        # ending the run with a harness error.  Never met on the unchanged tree.
        import traceback
        where = traceback.extract_tb(e.__traceback__)[-1]
        return ("broken", f"{case['kind']}-not-evaluable",
                f"{case['kind']} case could not be compared ({type(e).__name__}: {str(e)[:120]} at "
                f"{where.name}:{where.lineno})", None)


# ------------------------------------------------------------------------------------------------
# shrinking
# ------------------------------------------------------------------------------------------------
def simpler(case):
    c = case
    if c["kind"] == "hist":
        yield from hist_simpler(c)
        return
    if c["kind"] == "srchist":
        yield from srchist_simpler(c)
    if "ns" in c:
        ns = c["ns"]
        for i in range(len(ns)):
            if len(ns) > 1:
                yield {**c, "ns": ns[:i] + ns[i + 1:]}
            if ns[i] > 0:
                yield {**c, "ns": ns[:i] + [ns[i] - 1] + ns[i + 1:]}
    if c.get("n", 0) > 1:
        yield {**c, "n": c["n"] - 1}
    if c.get("f", 0) > 1:
        yield {**c, "f": c["f"] - 1}
    if c["kind"] == "draws" and c.get("k", 0) > 1:
        yield {**c, "k": 1}
        yield {**c, "k": c["k"] // 2}
    if c["kind"] == "draws" and not c.get("exh"):
        yield {**c, "exh": True}
    if c.get("pre"):
        yield {**c, "pre": 0}
    if c.get("prior"):
        yield {k: v for k, v in c.items() if k != "prior"}
    if c.get("order", "ctor") != "ctor":
        yield {**c, "order": "ctor"}
    if c.get("thr") is not None and c["kind"] != "bad":
        yield {**c, "thr": None}
    P = c["P"]
    if "g2" not in P:
        for key in ("eta", "r", "q", "beta"):
            if F(P[key]) != 1:
                Q = {**P, key: "1"}
                if valid(Q):
                    yield {**c, "P": Q}
        for key, val in (("eta", "1/2"), ("r", "1/2"), ("beta", "1/2"), ("q", "1/2")):
            if F(P[key]) not in (F(1), F(1, 2)):
                Q = {**P, key: val}
                if valid(Q):
                    yield {**c, "P": Q}


def shrink(chk, case, sig, budget=60):
    cur = copy.deepcopy(case)
    changed = True
    while changed and budget > 0:
        changed = False
        for cand in simpler(cur):
            budget -= 1
            if budget <= 0:
                break
            try:
                r = judge(chk, cand)
            except core.LeanError:
                raise
            except Exception:  # noqa
                r = None
            if r is not None and r[1] == sig:
                cur = cand
                changed = True
                break
    return cur


# ------------------------------------------------------------------------------------------------
def all_inputs(max_modes, max_per_mode, max_total):
    out = []
    for m in range(1, max_modes + 1):
        for ns in itertools.product(range(max_per_mode + 1), repeat=m):
            if sum(ns) <= max_total:
                out.append(list(ns))
    return out


def handle_hist(chk, case):
    chk.count("kind", "hist")
    if not hist_wellformed(case):
        raise ValueError("malformed history case " + json.dumps(case)[:1500])
    for sh in hist_shapes(case):
        chk.branch(sh)
        chk.count("hist_shape", sh)
    chk.branch("hist")
    chk.count("hist_steps", len(case["steps"]))
    t0 = time.perf_counter()
    res = judge(chk, case)
    secs = chk.extra.setdefault("seconds_by_kind", {})
    secs["hist"] = round(secs.get("hist", 0.0) + time.perf_counter() - t0, 3)
    nontrivial = any(not classify(P)[0] for P in case["objs"]) and \
        any(st["op"] == "input" and sum(st["ns"]) > 0 for st in case["steps"])
    chk.case(("hist", json.dumps(case, sort_keys=True)), nontrivial=nontrivial, sample=case)
    if res is not None:
        small = shrink(chk, case, res[1])
        r2 = judge(chk, small) or res
        chk.fail(r2[0], res[1], r2[2], {"case": small})


def handle(chk, case):
    if case["kind"] == "hist":
        return handle_hist(chk, case)
    if case["kind"] == "anon":
        return handle_anon(chk, case)
    if case["kind"] == "srchist":
        return handle_srchist(chk, case)
    P = case["P"]
    kind = case["kind"]
    chk.count("kind", kind)
    if kind != "bad":
        perfect, pd = classify(P)
        d = derived(P)
        cls = ("perfect" if perfect else ("pd-" + ("dist" if d["model"] == DIST else "indist")) if pd else
               ("nonpd-g2" if d["g2"] != 0 else "nonpd-plain"))
        chk.branch(cls)
        chk.count("param_class", cls)
        cell = cell_of(P)
        chk.count("imperfection_cell", cell)
        lk = kind if kind not in ("samples", "draws") else (kind + ("-filter" if case["f"] else "-nofilter"))
        chk.branch(f"imp:{cell}:{lk}")
        if lk in MAG_KINDS:
            for lab in mag_labels(P):
                chk.branch(f"mag:{lab}:{lk}")
                chk.count("magnitude_class", lab)
        if d["g2"] > 0 and d["eta"] < 1 and d["ind"] < 1:
            chk.branch("g2-loss-hom-together")
        if d["eta"] == 0:
            chk.branch("eta-zero")
        if d["beta"] == 1 and d["g2"] == 0 and d["ind"] == 1 and 0 < d["eta"] < 1:
            chk.branch("loss-only")
        if case.get("pre"):
            chk.branch("tag-offset")
        if case.get("thr") is not None and F(case["thr"]) > 0:
            chk.branch("thr-explicit")
        if "ns" in case:
            chk.count("modes", len(case["ns"]))
            chk.count("requested_photons", sum(case["ns"]))
            if len(case["ns"]) == 1:
                chk.branch("single-mode-shortcut")
            if 0 in case["ns"]:
                chk.branch("zero-photon-mode")
        if kind == "table":
            chk.branch("table-filter" if case["f"] else "table-nofilter")
            if d["g2"] == 0 or d["eta"] in (0, 1):
                chk.branch("table-range-quirk")
        if kind == "samples":
            chk.branch("samples-filter" if case["f"] else "samples-nofilter")
            for sh in prior_shapes(case):
                chk.branch(sh)
        if kind == "draws":
            chk.branch("draws-filter" if case["f"] else "draws-nofilter")
            if priors_of(case) and case["f"]:
                chk.branch("draws-after-other-request")
        if kind == "proc":
            chk.branch("proc")
            chk.branch("proc-" + case.get("order", "ctor"))
            chk.count("proc_order", case.get("order", "ctor"))
    else:
        chk.branch("rejected-stream")
    t0 = time.perf_counter()
    res = judge(chk, case)
    secs = chk.extra.setdefault("seconds_by_kind", {})
    secs[kind] = round(secs.get(kind, 0.0) + time.perf_counter() - t0, 3)
    sig = (kind, json.dumps(P, sort_keys=True), tuple(case.get("ns", [])), case.get("n"), case.get("f"),
           case.get("thr"), case.get("pre", 0), case.get("order"), json.dumps(case.get("prior"), sort_keys=True),
           case.get("k"), case.get("exh"), case.get("seed") if kind == "draws" else None)
    nontrivial = kind != "bad" and not classify(P)[0] and (sum(case.get("ns", [])) + case.get("n", 0) > 0)
    chk.case(sig, nontrivial=nontrivial,
             sample={k: case[k] for k in ("kind", "P", "ns", "n", "f", "thr", "order", "prior", "k", "exh") if k in case})
    if res is not None:
        kind_, sg, what, _ = res
        small = shrink(chk, case, sg)
        r2 = judge(chk, small) or res
        chk.fail(r2[0], sg, r2[2], {"case": small})


def bad_cases():
    base = {"q": "1", "eta": "1/2", "r": "1", "model": DIST}
    out = []
    for beta, g2, eta, model in [("0", "0", "1/2", DIST), ("5/4", "0", "1/2", DIST), ("-1/2", "0", "1/2", DIST),
                                 ("1/2", "0", "5/4", DIST), ("1/2", "0", "-1/4", DIST), ("1/2", "-1/8", "1/2", DIST),
                                 ("1/2", "9/8", "1/2", DIST), ("1", "3/4", "1/2", DIST), ("3/4", "7/8", "1/2", INDIST),
                                 ("1/2", "1/4", "1/2", "fully-distinguishable"), ("1/2", "0", "1/2", ""),
                                 ("1", "1/2", "1/2", DIST), ("1/2", "1", "1", INDIST), ("1", "0", "1", INDIST)]:
        out.append({"kind": "bad", "P": {**base, "beta": beta, "g2": g2, "eta": eta, "model": model}})
    return out


def run(chk: core.Check):
    chk.rule = ("settings = (kind of observation, rational parameter tuple (brightness, q=sqrt(1-2*b*g2), "
                "transmittance, r=sqrt(indistinguishability), multiphoton model), expected input / n / filter / "
                "explicit threshold / tag-counter offset); kinds: generate_distribution, "
                "Processor.source_distribution (noise in the constructor / set after the input / replaced / input "
                "replaced; and HISTORIES on one long-lived Processor: NoiseModel objects updated in place with "
                "set_value through the kept reference or through processor.noise and assigned again — the same "
                "object, an equal new object, another object, None — via processor.noise or "
                "processor.experiment.noise, inputs replaced, the same input given again, CUSTOM inputs (SVDistribution, "
                "an SVDistribution made of the plain input state, a superposed StateVector, a polarised state via "
                "with_polarized_input — they bypass the source and occupy the slot of the cached mixture) followed by "
                "the same or another Fock state with reads / noise assignments / filter changes / probs() in "
                "between, clear_input_and_circuit, a heralded mode merged into the input, reads that fill the cache "
                "in between, direct requests to processor.source; every read made while the held object is not in the 'updated in "
                "place, not yet re-assigned' state is judged against the CURRENT parameters), "
                "probability_distribution, _compute_prob_table/cache_prob_table, "
                "generate_samples (goodness-of-fit TEST at false-alarm level 1e-9, not a proof; two thirds of the "
                "filtered requests follow a different request on the same Source object), generate_samples as a "
                "function of its draws (kind 'draws': recorded draws replayed through the model, ALL combinations of "
                "draws forced through the real code for small requests and the exact push-forward compared with "
                "generate_distribution conditioned on the filter), constructor "
                "rejections; the imperfection lattice (each of brightness/g2/indistinguishability/transmittance ideal or "
                "not, transmittance also 0, x both multiphoton models = 48 cells) x every kind of observation incl. "
                "filtered samples requested after a stricter / weaker filter for the same photon number or the same "
                "filter for another photon number on the same Source, and a long-lived Processor swept across every "
                "edge of the lattice; orders of magnitude (every decade of brightness*g2 from 1e-5 to 1e-2 with "
                "brightness < 1 and = 1, brightness / transmittance / sqrt(indistinguishability) down to 1e-2..1e-3 and "
                "up to 1 - 1e-3..1e-4) x every exact kind of observation; fixed parameter classes x ALL inputs with <=3 modes and 0..2 (thorough 0..3) photons "
                "per mode, plus random tuples; HISTORIES of public calls on ONE Source object (kind 'srchist': "
                "cache_prob_table / generate_samples with and without filter / generate_distribution / "
                "probability_distribution, 3-16 calls, requests that hit and miss the cached event table in the photon "
                "number, in the filter, in both, after cache_prob_table, on an empty table; initial tag counter 0 or "
                "handed in through the constructor's context; after every call outcome, tag counter and cache "
                "attributes against the state machine Model/C06Src.lean); distinct = distinct settings; non-trivial = "
                "imperfect source and at least one requested photon")
    chk.assumptions = [
        "q and r are chosen rational; Python receives g2=(1-q^2)/(2*beta) and I=r^2 as floats and takes the roots "
        "itself (on the grid used — q>=1/20 and g2>=5e-6, or q=0 with dyadic beta,g2 — the float cancellation of "
        "p2=(1-x-sqrt(1-2x))/g2, about 3e-16/g2 <= 6e-11, stays below the comparison tolerance 1e-9; smaller g2 is "
        "not generated)",
        "entries of a FILTERED event table are compared with the relative tolerance 1e-9 + 3e-16*n/(g2*p2): the "
        "cancellation in the code's closed form for p2 is a relative error 1.5e-16/(g2*p2) of p2 (6e-6 at "
        "brightness*g2 = 1e-5), which conditioning on a strict filter turns into a relative error of the entries "
        "(counted in filtered_table_tolerance_widened); unconditioned probabilities keep 1e-9",
        "Source.simplify_distribution is False except in the kind 'simplify' (there: set on the Source object, or on "
        "processor.source before with_input; keys compared EXACTLY — the new names are the ranks of first appearance, "
        "nothing is left to rename; the order of the entries is only checked to be non-increasing on the real output, "
        "the model's stable order is not compared because float ties need not be rational ties); that assigning "
        "processor.noise builds a new Source and thereby resets the flag is not modelled; kind 'anon': "
        "anonymize_annotations on arbitrary one-state StateVectors, the photons handed to the model in the visiting "
        "order read off the real BasicState (exqalibur stores the annotated photons of a mode ordered by annotation "
        "STRING, the unannotated ones last)",
        "states are compared up to renaming of the non-zero distinguishability tags (complete invariant: "
        "occupation vectors per tag); for generate_samples an unannotated photon and the signal tag _:0 are identified",
        "settings in which a trimming comparison falls within 1e-6 (relative) of the threshold are skipped and counted",
        "generate_samples: random.choices / random.shuffle are wrapped as attributes of the `random` module while the "
        "call runs (recording: the original functions run on index lists, same consumption of the generator; forcing: "
        "prescribed draws are returned); the recorded / forced draws are replayed through the Lean model and the samples "
        "compared exactly (tags up to renaming); 'ideal draws' = index i with probability w_i/sum(w) of the weights the "
        "code passes, independent, uniform permutations — that CPython's generator realises this law is assumed; "
        "exhaustive forcing of all draws only for requests with at most 16000 combinations; larger requests are "
        "additionally validated by the statistical goodness-of-fit test (a test, not a proof)",
        "a NoiseModel updated in place takes effect at the next assignment to processor.noise (NoiseModel has no "
        "observer); reads between the in-place update and the assignment are performed but not judged",
        "kind 'srchist': the event-table cache is observed through the private attributes _prob_table, _prob_table_n, "
        "_prob_table_filter (read only) and through the population/weights of the recorded random.choices call; the "
        "direct oracle recomputes the table of the request on a new Source of the same parameters; every request asks "
        "for at least one sample",
        "an assignment of noise values the Source constructor rejects (brightness 0, brightness*g2 > 1/2) is expected "
        "to raise AssertionError and to leave the processor with the source of the values accepted last; reads in that "
        "state are compared with the model only; while a custom input is the current input, "
        "source_distribution is only compared with the object that was handed over (model-vs-code, not a clause of "
        "the property); LogicalState inputs (ports) are not generated; clear_input_and_circuit only on processors "
        "without heralds",
    ]
    chk.required_branches = ["pd-dist", "pd-indist", "nonpd-g2", "nonpd-plain", "perfect", "g2-loss-hom-together",
                             "eta-zero", "tag-offset", "thr-explicit", "trim-active", "single-mode-shortcut",
                             "zero-photon-mode", "table-filter", "table-nofilter", "table-range-quirk",
                             "table-zero-perf", "samples-filter", "samples-nofilter", "samples-after-other-request",
                             "samples-after-stricter-filter-same-n", "samples-after-weaker-filter-same-n",
                             "samples-after-other-n-same-filter", "samples-after-two-requests",
                             "draws-filter", "draws-nofilter", "draws-route-perfect", "draws-route-no-filter",
                             "draws-route-aborted", "draws-route-events", "draws-route-IndexError",
                             "draws-exhaustive-nf", "draws-exhaustive-filter", "draws-after-other-request", "proc",
                             "proc-ctor", "proc-noise-after", "proc-renoise", "proc-reinput", "loss-only",
                             "rejected-stream",
                             "hist", "hist-inplace-ref", "hist-inplace-getter", "hist-inplace-reassign",
                             "hist-inplace-reassign-cached", "hist-inplace-reassign-uncached",
                             "hist-same-object-reassign-clean", "hist-equal-new-object", "hist-other-object",
                             "hist-set-unheld", "hist-noise-none", "hist-experiment-route", "hist-input-change",
                             "hist-input-change-same-photon-number",
                             "hist-read-cached", "hist-read-regenerates", "hist-read-source",
                             "hist-dirty-read-unjudged", "hist-only-beta-changes", "hist-only-q-changes",
                             "hist-only-eta-changes", "hist-only-r-changes", "hist-only-model-changes"]
    chk.required_branches += [f"hist-{k}-{w}-ideal" for k in ("beta", "q", "eta", "r") for w in ("becomes", "leaves")]
    # custom inputs share the slot of the cached mixture; clear_input_and_circuit; heralds; probs(); same state again
    chk.required_branches += ["hist-custom-" + f for f in CUSTOM_FORMS]
    chk.required_branches += ["hist-fock-after-custom-same-state", "hist-fock-after-custom-other-state",
                              "hist-fock-after-custom-same-state-noise-assigned",
                              "hist-fock-after-custom-other-state-noise-assigned",
                              "hist-noise-assigned-under-custom", "hist-custom-read", "hist-clear",
                              *["hist-custom-read-after-noise-assigned-" + f for f in CUSTOM_FORMS],
                              "hist-read-after-clear", "hist-fock-after-clear", "hist-herald", "hist-probs",
                              "hist-same-input-again",
                              "hist-assign-rejected", "hist-assign-rejected-cached", "hist-assign-rejected-uncached",
                              "hist-assign-rejected-same-object", "hist-accepted-after-rejected",
                              "hist-rejected-object-fixed-inplace-reassigned", "hist-read-after-rejected",
                              "hist-dirty-read-model-compared", "hist-noisy-heralds", "draws-profile-compared"]
    # every cell of the imperfection lattice through every kind of observation
    chk.required_branches += lattice_required()
    # every order of magnitude through every exact kind of observation
    chk.required_branches += mag_required()
    # simplify_distribution = True: every cell of the lattice, the merging / renaming branches, anonymize_annotations
    chk.required_branches += simplify_required()
    # kind 'srchist' observes the cache through private attributes; on a tree that renamed them (a harmless rewrite,
    # harmless/C06-h1) every case of the kind is counted as skipped, so its branches cannot be demanded there
    # (demanding them ended the run with exit 2 "generator blind" on such a tree)
    try:
        import perceval as _pcvl
        _probe = _pcvl.Source()
        _src_private_ok = all(hasattr(_probe, a) for a in SRC_PRIVATE)
    except Exception:  # noqa: BLE001
        _src_private_ok = False
    if _src_private_ok:
        chk.required_branches += SRC_REQUIRED
    else:
        chk.count("private_members_missing", "srchist-branches-not-required")
    chk.lean = core.LeanDriver("C06")
    rng = chk.rng

    for case in load_corpus():
        handle(chk, case)

    cases = []
    # 1. fixed parameter classes x all small inputs
    per_mode = chk.pick(2, 3)
    for name, P in FIXED.items():
        _, pd = classify(P)
        cap = 6 if pd else 9
        for ns in all_inputs(3, per_mode, cap):
            cases.append({"kind": "gen", "P": P, "ns": ns})
    # 1b. the imperfection lattice: every cell (fixed non-ideal values; thorough: random non-ideal values too)
    #     through every kind of observation
    lat = [(c, P) for c, P in LATTICE.items()]
    for _ in range(chk.pick(0, 2)):
        for mask in range(16):
            for model in (DIST, INDIST):
                P = lattice_params(mask, model, rng=rng)
                lat.append((cell_of(P), P))
    lat_inputs = chk.pick([[1], [2], [1, 1], [0, 2], [1, 0, 1], [2, 1]],
                          all_inputs(2, 2, 4) + [[1, 0, 1], [2, 1, 1], [0, 1, 2]])
    n_lat = 8000
    for il, (cell, P) in enumerate(lat):
        for ns in lat_inputs:
            cases.append({"kind": "gen", "P": P, "ns": ns})
        for n in (1, 2, 3):
            cases.append({"kind": "pd", "P": P, "n": n})
        for io, order in enumerate(("ctor", "noise-after", "renoise", "reinput")):
            cases.append({"kind": "proc", "P": P, "ns": [[1, 0, 1], [1, 1], [2], [1, 2]][(il + io) % 4], "order": order})
        for n, f in ((2, 0), (2, 1), (3, 2), (1, 2)):
            cases.append({"kind": "table", "P": P, "n": n, "f": f, "cache": (il + n) % 2 == 0})
        ns = [[1, 0, 1], [1, 1], [2], [2, 1]][il % 4]
        for f in (0, 1 + il % 2):
            if f and "L" in cell.split(":")[0]:
                continue
            case = {"kind": "samples", "P": P, "ns": ns, "f": f, "N": n_lat, "seed": rng.randrange(1 << 30),
                    "pre": il % 2}
            if f and cell.split(":")[0] != "none":
                # the filtered sampler caches its event table under (photon number, filter): earlier requests
                # on the same object, related to this one in every way, must not leak into it
                pr = prior_requests(P, ns, f, ("stricter", "weaker", "other-n", "two", "stricter")[(il // 2) % 5])
                case["prior"] = [{**q, "cache": (il + j) % 3 == 0} for j, q in enumerate(pr)]
            cases.append(case)
        # a long-lived Processor swept INTO the cell along every EDGE of the lattice: from the neighbouring cell
        # (one parameter toggled between ideal and non-ideal, or the other model) by an in-place update of that
        # single field of the held NoiseModel + re-assignment, with the neighbour's distribution cached
        ns = [[1, 1], [1, 0, 1], [2], [1, 2]][il % 4]
        for ia, key in enumerate(("beta", "q", "r", "eta", "model")):
            if key == "model":
                start = {**P, "model": INDIST if P["model"] == DIST else DIST}
            else:
                fixed = dict((k, v[0]) for k, _, v in AXES)[key]
                start = {**P, key: str(fixed if F(P[key]) == 1 else F(1))}
            if not valid(start):
                continue
            cases.append({"kind": "hist", "m": len(ns), "objs": [start], "init": {"noise": 0, "route": "ctor"},
                          "steps": [{"op": "input", "ns": ns}, {"op": "read"},
                                    {"op": "set", "id": 0, "P": P, "via": ["ref", "getter"][(il + ia) % 2],
                                     "fields": "changed"},
                                    {"op": "assign", "id": 0, "route": "proc"}, {"op": "read"}]
                                   + ([{"op": "source", "ns": ns, "thr": None}] if ia == il % 5 else [])})
        # ... and a new Processor that gets the cell's noise after a perfect start (noise None)
        cases.append({"kind": "hist", "m": len(ns), "objs": [P], "init": {"noise": None, "route": "ctor"},
                      "steps": [{"op": "input", "ns": ns}, {"op": "read"},
                                {"op": "assign", "id": 0, "route": ["proc", "experiment"][il % 2]}, {"op": "read"}]})
        # ... and the cell's Fock input given again after a CUSTOM input took its place in the slot of the cached
        # mixture (with the noise re-assigned / a read / a filter change + probs() in between)
        form = CUSTOM_FORMS[il % 4]
        cst = {"op": "custom", "c": 1, "form": form}
        if form == "svd-same":
            cst["ns"] = ns
        mid = [[], [{"op": "assign", "id": 0, "route": "proc"}], [{"op": "read"}],
               [{"op": "filter", "k": 0}, {"op": "probs"}],
               [{"op": "assign", "id": 0, "route": "experiment"}, {"op": "read"}]][(il // 4) % 5]
        cases.append({"kind": "hist", "m": len(ns), "objs": [P], "init": {"noise": 0, "route": "ctor"},
                      "steps": [{"op": "input", "ns": ns}] + ([{"op": "read"}] if il % 2 else []) + [cst] + mid +
                               [{"op": "input", "ns": ns}, {"op": "read"}]})
    # 1b'. the history shapes around custom inputs / clear / heralds / the same state again, deterministically
    for ip, P in enumerate((FIXED["pd-dist"], FIXED["pd-indist"], FIXED["nonpd-g2"])):
        A, B = [[1, 0], [0, 1]] if ip != 1 else [[1, 1], [2, 0]]
        init = {"noise": 0, "route": ["ctor", "experiment", "ctor"][ip]}
        rd = [{"op": "read"}]
        Q = {**P, "beta": "9/10" if P["beta"] != "9/10" else "1/2"}
        det = [
            (init, 2, [{"op": "input", "ns": A}] + rd + [{"op": "clear"}] + rd + [{"op": "input", "ns": A}] + rd),
            (init, 2, [{"op": "input", "ns": A}, {"op": "custom", "c": 1, "form": CUSTOM_FORMS[ip], "ns": A}, {"op": "clear"}]
             + rd + [{"op": "input", "ns": A}] + rd),
            ({**init, "heralds": {"1": 1}}, 2,
             [{"op": "input", "ns": A}] + rd + [{"op": "custom", "c": 1, "form": "sv"}, {"op": "assign", "id": 0,
                                                                                       "route": "proc"},
                                                {"op": "input", "ns": A}] + rd),
            ({**init, "heralds": {"0": 1}}, 1, [{"op": "input", "ns": [1]}] + rd + [{"op": "input", "ns": [1]}] + rd
             + [{"op": "custom", "c": 1, "form": "polarized"}] + rd + [{"op": "input", "ns": [1]}] + rd),
            (init, 2, [{"op": "input", "ns": A}, {"op": "custom", "c": 1, "form": "svd"},
                       {"op": "assign", "id": 0, "route": "proc"}, {"op": "input", "ns": B}] + rd),
            (init, 2, [{"op": "input", "ns": A}] + rd + [{"op": "set", "id": 0, "P": Q, "via": "ref", "fields": "changed"},
                                                        {"op": "assign", "id": 0, "route": "proc"},
                                                        {"op": "input", "ns": A}] + rd),
            (init, 2, [{"op": "input", "ns": A}, {"op": "custom", "c": 1, "form": "svd-same", "ns": A},
                       {"op": "filter", "k": 0}, {"op": "probs"}, {"op": "input", "ns": B}] + rd
             + [{"op": "custom", "c": 2, "form": "polarized"}, {"op": "input", "ns": B}] + rd),
        ]
        BADP = {**{k: P[k] for k in ("eta", "r", "model")}, "beta": "1", "g2": "4/5", "q": "0"}
        det += [
            # a rejected assignment (brightness * g2 = 4/5) of a new object with the mixture cached, a read in that
            # state, the object fixed in place and assigned again
            (init, 2, [{"op": "input", "ns": A}] + rd + [{"op": "copy", "id": 0, "to": 2},
                       {"op": "set", "id": 2, "P": BADP, "via": "ref", "fields": "changed"},
                       {"op": "assign", "id": 2, "route": "proc"}] + rd +
                      [{"op": "source", "ns": B, "thr": None},
                       {"op": "set", "id": 2, "P": Q, "via": "getter", "fields": "all"},
                       {"op": "assign", "id": 2, "route": "proc"}] + rd),
            # the held object made inadmissible in place, re-assigned (rejected), then another object assigned
            (init, 2, [{"op": "input", "ns": A}, {"op": "set", "id": 0, "P": BADP, "via": "ref", "fields": "all"},
                       {"op": "assign", "id": 0, "route": "experiment"}] + rd +
                      [{"op": "assign", "id": None, "route": "proc"}] + rd + [{"op": "input", "ns": B}] + rd),
            # rejected while NO mixture is cached (an accepted assignment dropped it): the read in that state
            # regenerates with the source of the values accepted last
            (init, 2, [{"op": "input", "ns": A}, {"op": "assign", "id": 0, "route": "proc"},
                       {"op": "copy", "id": 0, "to": 2},
                       {"op": "set", "id": 2, "P": {**BADP, "beta": "0", "g2": "1/4", "q": "1"}, "via": "ref", "fields": "all"},
                       {"op": "assign", "id": 2, "route": "proc"}] + rd +
                      [{"op": "assign", "id": 0, "route": "proc"}] + rd),
            # generate_noisy_heralds: the herald photons go through the current source
            ({**init, "heralds": {"1": 1}}, 2,
             [{"op": "heralds"}, {"op": "input", "ns": A}, {"op": "heralds"},
              {"op": "set", "id": 0, "P": Q, "via": "ref", "fields": "changed"},
              {"op": "assign", "id": 0, "route": "proc"}, {"op": "heralds"}] + rd),
        ]
        for ini, mm, steps in det:
            cases.append({"kind": "hist", "m": mm, "objs": [P], "init": ini, "steps": steps})
    # 1c. orders of magnitude: every decade of brightness*g2 and the extremes of the other axes through every exact
    #     kind of observation (the sampler is left out: its test has no power at these probabilities; its event
    #     table is compared exactly)
    mags = list(MAG)
    for _ in range(chk.pick(0, 1)):
        for P0 in MAG:
            for _ in range(20):
                P = {**P0, "eta": str(rng.choice(ETAS)), "r": str(rng.choice(RS)), "model": rng.choice([DIST, INDIST])}
                P = {**P, **{k: P0[k] for k in ("eta", "r") if F(P0[k]) in MAG_GRID[k]}}
                if valid(P):
                    mags.append(P)
                    break
    for im, P in enumerate(mags):
        for ns in ([1], [2], [1, 1], [1, 0, 2]):
            cases.append({"kind": "gen", "P": P, "ns": ns})
        for n in (1, 2, 3):
            cases.append({"kind": "pd", "P": P, "n": n})
        for io, order in enumerate(("ctor", "noise-after", "renoise", "reinput")[im % 2::2]):
            cases.append({"kind": "proc", "P": P, "ns": [[1, 1], [2], [1, 0, 1], [1, 2]][(im + io) % 4], "order": order})
        for n, f in ((2, 0), (3, 1 + im % 2)):
            cases.append({"kind": "table", "P": P, "n": n, "f": f, "cache": (im + n) % 2 == 0})
        # a long-lived Processor swept to these values from ordinary ones (in place + re-assignment, cache filled)
        ns = [[1, 1], [2], [1, 0, 1]][im % 3]
        start = {**P, **{k: str(v[0]) for k, _, v in AXES if F(P[k]) in MAG_GRID[k]}}
        if valid(start) and start != P:
            cases.append({"kind": "hist", "m": len(ns), "objs": [start], "init": {"noise": 0, "route": "ctor"},
                          "steps": [{"op": "input", "ns": ns}, {"op": "read"},
                                    {"op": "set", "id": 0, "P": P, "via": ["ref", "getter"][im % 2], "fields": "changed"},
                                    {"op": "assign", "id": 0, "route": "proc"}, {"op": "read"}]})
        else:
            cases.append({"kind": "hist", "m": len(ns), "objs": [P], "init": {"noise": None, "route": "ctor"},
                          "steps": [{"op": "input", "ns": ns}, {"op": "read"},
                                    {"op": "assign", "id": 0, "route": "proc"}, {"op": "read"}]})
    # 2. random tuples, random inputs, explicit thresholds, tag offsets, deeper inputs (trimming active)
    for _ in range(chk.pick(70, 1300)):
        P = rand_params(rng)
        _, pd = classify(P)
        m = rng.randint(1, 3)
        cap = chk.pick(5, 6) if pd else 8
        ns = [rng.randint(0, 3) for _ in range(m)]
        while sum(ns) > cap:
            ns[rng.randrange(m)] = 0
        thr = rng.choice([None, None, None, "0", "1/1000", "1/100000", "1/20"])
        cases.append({"kind": "gen", "P": P, "ns": ns, "thr": thr, "pre": rng.choice([0, 0, 1, 2, 3])})
    # small probabilities: the default 1e-16 trimming really removes states
    for P in (spec(F(1, 2), F(9, 10), F(1, 20), F(9, 10), DIST), spec(F(1, 4), F(4, 5), F(1, 16), F(1, 2), INDIST),
              spec(F(1), F(9, 10), F(1), F(19, 20), DIST)):
        for ns in ([3, 3], [2, 2, 2], [3, 2, 1]):
            cases.append({"kind": "gen", "P": P, "ns": ns})
    # 3. Processor.source_distribution (from_noise_model)
    for ip in range(chk.pick(30, 300)):
        P = rng.choice(POOL) if rng.random() < 0.4 else rand_params(rng)
        m = rng.randint(1, 3)
        ns = [rng.randint(0, 2) for _ in range(m)]
        while sum(ns) > 5:
            ns[rng.randrange(m)] = 0
        cases.append({"kind": "proc", "P": P, "ns": ns,
                      "order": ["ctor", "noise-after", "ctor", "renoise", "reinput"][ip % 5]})
    # 3b. histories on one long-lived Processor
    _FIELD_TURN[0] = 0
    def hist_params():
        return rng.choice(POOL) if rng.random() < 0.5 else rand_params(rng)
    for _ in range(chk.pick(60, 700)):
        cases.append(gen_hist(rng, hist_params))
    # 4. probability_distribution
    for _ in range(chk.pick(40, 600)):
        P = rng.choice(POOL) if rng.random() < 0.4 else rand_params(rng)
        _, pd = classify(P)
        cases.append({"kind": "pd", "P": P, "n": rng.randint(0, 5 if pd else 8),
                      "thr": rng.choice([None, None, "0", "1/1000", "1/50"]), "pre": rng.choice([0, 0, 2])})
    # 5. event table
    for _ in range(chk.pick(60, 1200)):
        P = rng.choice(POOL) if rng.random() < 0.5 else rand_params(rng)
        n = rng.randint(0, chk.pick(6, 12))
        f = rng.choice([0, 0, 1, 2, 3, n, n + 1, 2 * n, 2 * n + 1])
        cases.append({"kind": "table", "P": P, "n": n, "f": f, "cache": rng.random() < 0.5})
    # everything lost and a filter: phys_perf = 0 (deterministic, so that the branch never depends on the seed)
    for n, f in ((2, 1), (1, 1), (3, 2)):
        cases.append({"kind": "table", "P": FIXED["eta-zero"], "n": n, "f": f, "cache": f == 2})
    # 6. constructor rejections
    cases.extend(bad_cases())
    # 7. sampler, goodness-of-fit TEST
    nsamp = chk.pick(40000, 200000)
    names = ["pd-dist", "pd-indist", "nonpd-g2", "pd-dist-I1", "no-loss-g2", "perfect"]
    sample_params = [FIXED[k] for k in names] + [rand_params(rng) for _ in range(chk.pick(2, 9))]
    nfilt = 0
    for P in sample_params:
        for f in (0, rng.choice([1, 2, 3])):
            ns = rng.choice([[1, 1], [2, 1], [1, 0, 1], [2], [1, 1, 1], [2, 2]])
            if f > sum(ns):
                f = sum(ns)
            d = derived(P)
            if f and d["eta"] * d["beta"] == 0:
                continue
            case = {"kind": "samples", "P": P, "ns": ns, "f": f, "N": nsamp,
                    "seed": rng.randrange(1 << 30), "pre": rng.choice([0, 1])}
            nfilt += 1 if f else 0
            if f and nfilt % 3 != 0:
                # same photon number with another filter, or another photon number with the same filter
                if rng.random() < 0.5:
                    case["prior"] = {"ns": ns, "f": f - 1 if f > 1 else f + 1, "cache": rng.random() < 0.3}
                else:
                    case["prior"] = {"ns": ns + [1], "f": f, "cache": rng.random() < 0.3}
            cases.append(case)
    # 8. the sampler as a function of its draws: recorded run replayed through the model, all draws forced
    kd = chk.pick(24, 50)
    for il, (cell, P) in enumerate(lat):
        ns = [[1, 1], [2], [1, 0, 1], [2, 1]][il % 4]
        cases.append({"kind": "draws", "P": P, "ns": ns, "f": 0, "k": kd, "seed": rng.randrange(1 << 30),
                      "pre": il % 2, "exh": True})
        f = 1 + il % 2
        case = {"kind": "draws", "P": P, "ns": ns, "f": f, "k": kd, "seed": rng.randrange(1 << 30),
                "pre": (il // 2) % 2, "exh": True}
        if cell.split(":")[0] != "none" and "L" not in cell.split(":")[0] and il % 3 != 2:
            pr = prior_requests(P, ns, f, ("stricter", "weaker", "other-n", "two", "stricter")[(il // 2) % 5])
            case["prior"] = [{**q, "cache": (il + j) % 3 == 0} for j, q in enumerate(pr)]
        cases.append(case)
    for name in ("pd-dist", "pd-indist", "nonpd-g2", "pd-dist-I1", "no-loss-g2", "r-zero", "r-zero-indist", "q-zero",
                 "hom-only", "loss-only", "perfect"):
        P = FIXED[name]
        for ns, f, exh in (([2, 2], 0, False), ([1, 1, 1, 1], 2, chk.thorough and name in ("pd-dist", "pd-indist")),
                           ([3, 1], 3, False),
                           ([0, 2, 0, 1], 1, True), ([1, 2], 0, True), ([3], 5, True), ([1], 3, True)):
            cases.append({"kind": "draws", "P": P, "ns": ns, "f": f, "k": chk.pick(40, 100),
                          "seed": rng.randrange(1 << 30), "pre": rng.choice([0, 1, 3]), "exh": exh})
    for _ in range(chk.pick(24, 160)):
        P = rand_params(rng)
        m = rng.randint(1, 4)
        ns = [rng.randint(0, 2) for _ in range(m)]
        while sum(ns) > 5:
            ns[rng.randrange(m)] = 0
        f = rng.choice([0, 0, 1, 2, 3, sum(ns), 2 * sum(ns) + 1])
        case = {"kind": "draws", "P": P, "ns": ns, "f": f, "k": chk.pick(30, 50), "seed": rng.randrange(1 << 30),
                "pre": rng.choice([0, 0, 2]), "exh": sum(ns) <= 3}
        if f and rng.random() < 0.4 and filter_reachable(P, sum(ns), f):
            case["prior"] = [{**q, "cache": rng.random() < 0.3}
                             for q in prior_requests(P, ns, f, rng.choice(["stricter", "weaker", "other-n", "two"]))]
        cases.append(case)
    # 9. Source.simplify_distribution = True (anonymize_annotations)
    cases.extend(simplify_cases(chk, lat, rng))
    # 10. histories of calls on ONE Source object: event-table cache and tag counter (model Model/C06Src.lean)
    cases.extend(srchist_scripted())
    for il, (cell, P) in enumerate(lat):
        cases.append(gen_srchist(rng, P))
    for _ in range(chk.pick(150, 1500)):
        cases.append(gen_srchist(rng, rng.choice(POOL) if rng.random() < 0.5 else rand_params(rng)))
    for case in cases:
        handle(chk, case)
    chk.extra["gof_false_alarm_level"] = ALPHA
    chk.extra["gof_samples_per_setting"] = nsamp


def load_corpus():
    out = []
    for p in sorted(glob.glob(os.path.join(core.VERIF, "corpus", "C06", "*.json"))):
        out.append(json.load(open(p))["case"])
    return out


def replay(chk, data):
    chk.lean = core.LeanDriver("C06")
    chk.rule = "replay of one stored setting"
    handle(chk, data["replay"]["case"])
