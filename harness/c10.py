"""C10 — plugging a component or processor onto chosen modes wires it exactly there.

Every case is one `Processor.add(mapping, obj)` on a left processor whose public state was observed just
before.  Three parties are compared:

* the REAL code (`Processor.add`, then `linear_circuit().compute_unitary()`, `heralds`, `detectors`,
  `in_port_names`, `out_port_names`, `post_select_fn` evaluated on every state of a small Fock space);
* the Lean model (`Model/C10.lean`: resolve / _check_consistency / add_heralded_modes /
  generate_permutation / _compose_experiment / _add_component) asked the same question through the driver;
* a direct oracle written from the property statement (numpy + plain Python, independent of Lean): light
  leaving left mode k enters the input the mapping names and returns on k, untouched modes are untouched,
  heralds are appended in order with their expected values and detectors, the post-selection of the added
  processor holds on a composed state iff it held on the pulled-back state, illegal mappings are rejected.

`violation` = the direct oracle fails on the real code; `broken` = only model and code disagree.

A processor is long-lived: the scenario goes on after an add that was refused cleanly by the mapping check, and
which modes are *available* for the next add is decided from the public `heralds` / `detectors` lists (`avail_of`),
never from the `is_mode_connectible` flag the code under test consults — after every accepted add the two must
agree (`availability_failure` turns a disagreement into a concrete add on that mode).
"""
from __future__ import annotations

import copy
import glob
import itertools
import json
import os
import re

import numpy as np

from . import core, gens

LEAF_KINDS = ("BS", "PS", "PERM", "U", "UH")
RESOLVE_ERRS = ("InvalidMappingException", "UnavailableModeException")


# ------------------------------------------------------------------------------------------------
# post-selection ASTs:  ["c", [modes], op, val] | ["&", a, b] | ["|", a, b] | ["^", a, b] | ["!", a]
# ------------------------------------------------------------------------------------------------
def ps_str(a):
    if a[0] == "c":
        return "[" + ",".join(str(m) for m in a[1]) + "]" + a[2] + str(a[3])
    if a[0] == "!":
        return "!(" + ps_str(a[1]) + ")"
    return "(" + ps_str(a[1]) + ") " + a[0] + " (" + ps_str(a[2]) + ")"


def ps_eval(a, s):
    if a[0] == "c":
        t = sum(s[m] for m in a[1] if m < len(s))   # a mode past the end counts as empty (observed)
        return {"==": t == a[3], ">": t > a[3], "<": t < a[3], ">=": t >= a[3], "<=": t <= a[3]}[a[2]]
    if a[0] == "!":
        return not ps_eval(a[1], s)
    x, y = ps_eval(a[1], s), ps_eval(a[2], s)
    return {"&": x and y, "|": x or y, "^": x != y}[a[0]]


def ps_conds(a):
    if a[0] == "c":
        return [list(a[1])]
    out = []
    for b in a[1:]:
        out += ps_conds(b)
    return out


def gen_ps(rng, modes, depth=2):
    """random condition tree over the given modes (each condition on 1..2 distinct modes)"""
    if depth == 0 or rng.random() < 0.45:
        k = min(len(modes), rng.choice([1, 1, 2]))
        return ["c", sorted(rng.sample(list(modes), k)), rng.choice(["==", ">", "<", ">=", "<="]), rng.randint(0, 2)]
    op = rng.choice(["&", "&", "|", "^", "!"])
    if op == "!":
        return ["!", gen_ps(rng, modes, depth - 1)]
    return [op, gen_ps(rng, modes, depth - 1), gen_ps(rng, modes, depth - 1)]


def small_states(n_modes, max_n=2):
    out = []
    for n in range(max_n + 1):
        for c in itertools.combinations_with_replacement(range(n_modes), n):
            s = [0] * n_modes
            for i in c:
                s[i] += 1
            out.append(s)
    return out


# ------------------------------------------------------------------------------------------------
# building real objects from specs
# ------------------------------------------------------------------------------------------------
def _apply_extra(p, op):
    import perceval as pcvl
    from perceval.components import Port, PortLocation
    from perceval.utils import Encoding, PostSelect
    k = op["op"]
    if k == "add":
        p.add(op["at"], gens.build_leaf(op["leaf"]))
    elif k == "herald":
        p.add_herald(op["mode"], op["exp"], op.get("name"))
    elif k == "port":
        p.add_port(op["mode"], Port(Encoding[op["enc"]], op["name"]), PortLocation[op["loc"]])
    elif k == "det":
        p.add(op["mode"], pcvl.Detector.threshold() if op["kind"] == "threshold" else pcvl.Detector.pnr())
    elif k == "ps":
        p.set_postselection(PostSelect(ps_str(op["ps"])))
    else:
        raise ValueError(k)


class BuildFailed(Exception):
    """the real code raised while a scenario's processor was being built through its public API"""
    def __init__(self, op, exc):
        super().__init__(f"{type(exc).__name__}: {str(exc)[:160]}")
        self.op, self.exc = op, exc


def _apply_ops(p, ops):
    for op in ops:
        try:
            _apply_extra(p, op)
        except Exception as e:  # noqa: reported by run_scenario, never swallowed
            raise BuildFailed(op, e) from e


def build_left(spec):
    import perceval as pcvl
    p = pcvl.Processor("SLOS", spec["cs"])
    _apply_ops(p, spec["ops"])
    return p


def build_right(spec):
    import perceval as pcvl
    k = spec["kind"]
    if k == "leaf":
        return gens.build_leaf(spec["leaf"])
    if k == "circ":
        c = pcvl.Circuit(spec["m"])
        for off, leaf in spec["ops"]:
            c.add(off, gens.build_leaf(leaf))
        return c
    if k == "proc":
        if spec["whole"]:
            c = pcvl.Circuit(spec["cs"])
            for off, leaf in spec["ops"]:
                c.add(off, gens.build_leaf(leaf))
            p = pcvl.Processor("SLOS", c)
            rest = spec["extra"]
        else:
            p = pcvl.Processor("SLOS", spec["cs"])
            # heralds / ports may be declared at any (admissible) point of a piecewise construction
            rest = piecewise_order(spec)
        _apply_ops(p, rest)
        return p
    if k == "scn":  # a processor that is itself the result of compositions (its inner scenario is checked as a
        # case of its own by run(); here a failure of the inner construction only invalidates the outer case)
        try:
            p = build_left(spec["scn"]["left"])
            for st in spec["scn"]["steps"]:
                p.add(py_mapping(st["map"]), build_right(st["right"]), keep_port=st.get("keep_port", True))
        except GenInvalid:
            raise
        except Exception as e:
            raise GenInvalid(f"nested right-hand side cannot be built: {type(e).__name__}") from e
        return p
    if k == "hist":   # a processor built by a life of public calls (extension 5); every call must succeed
        return hist_realize(spec["hist"])[0]
    raise ValueError(k)


def piecewise_order(spec):
    """component adds with the extras inserted at the positions `spec["at"]` chose (each herald / detector after
    the last component touching its mode, the post-selection last); deterministic, so replayable"""
    seq = [{"op": "add", "at": off, "leaf": leaf} for off, leaf in spec["ops"]]
    out = [(i, 0, j, op) for j, (i, op) in enumerate(zip(range(len(seq)), seq))]
    for j, (e, pos) in enumerate(zip(spec["extra"], spec.get("at", []) + [len(seq)] * len(spec["extra"]))):
        lo = 0
        if e["op"] in ("herald", "det"):
            for i, a in enumerate(seq):
                w = gens.leaf_width(a["leaf"])
                if a["at"] <= e["mode"] < a["at"] + w:
                    lo = i + 1
        if e["op"] == "ps":
            lo = len(seq)
        out.append((max(lo, min(pos, len(seq))) - 0.5, 1, j, e))
    return [x[3] for x in sorted(out, key=lambda x: (x[0], x[1], x[2]))]


def py_mapping(ms):
    f = ms["form"]
    if f == "int":
        return ms["v"]
    if f == "list":
        return list(ms["v"])
    if f == "tuple":
        return tuple(ms["v"])
    return {(k if not isinstance(k, list) else tuple(k)): v for k, v in ms["items"]}


# ------------------------------------------------------------------------------------------------
# observing the public state of a processor / component
# ------------------------------------------------------------------------------------------------
def canon_name(n):
    return "herald#" if isinstance(n, str) and re.fullmatch(r"herald\d+", n) else n


def det_name(d):
    return None if d is None else str(getattr(d, "name", type(d).__name__))


def ports_of(p, getter, cs):
    """[[start, size, name, is_herald, expected, user_name]] rebuilt through get_input_port/get_output_port;
    heralds first in `heralds` order (the only order that is observable), then the others by first mode"""
    from perceval.components.port import Herald
    seen, items = {}, []
    for m in range(cs):
        port = getter(m)
        if port is None or id(port) in seen:
            continue
        seen[id(port)] = True
        h = isinstance(port, Herald)
        items.append([m, port.m, port.name, h, (port.expected if h else 0), (port.user_given_name if h else None)])
    hpos = list(p.heralds.keys())
    her = sorted([x for x in items if x[3]], key=lambda x: hpos.index(x[0]) if x[0] in hpos else 99)
    return her + [x for x in items if not x[3]]


def observe_proc(p):
    cs = p.circuit_size
    o = {"comp": False, "m": p.m, "cs": cs,
         "conn": [bool(p.experiment.is_mode_connectible(k)) for k in range(cs)],
         "heralds": [[int(k), int(v)] for k, v in p.heralds.items()],
         "dets": [det_name(d) for d in p.detectors],
         "outp": ports_of(p, p.get_output_port, cs), "inp": ports_of(p, p.get_input_port, cs)}
    try:
        o["in_names"] = [canon_name(n) for n in p.in_port_names]
    except IndexError:
        o["in_names"] = None
    try:
        o["out_names"] = [canon_name(n) for n in p.out_port_names]
    except IndexError:
        o["out_names"] = None
    o["raw_in_names"] = list(p.in_port_names) if o["in_names"] is not None else None
    o["raw_out_names"] = list(p.out_port_names) if o["out_names"] is not None else None
    o["has_ps"] = p.post_select_fn is not None
    o["U"] = np.array(p.linear_circuit().compute_unitary(), dtype=complex)
    o["clist"] = comp_list(p)
    o["avail"] = avail_of(o)
    return o


def avail_of(o):
    """which modes the property calls *available* for a mapping, from the public `heralds` and `detectors` only: a
    mode is reserved when it is heralded (declared with add_herald or imported by an earlier composition) or ends in
    a detector.  Deliberately NOT read from `is_mode_connectible` (the flag the code under test consults): `conn`
    above is that flag, and the two must agree after any history (see `availability_failure`)."""
    hm = {h[0] for h in o["heralds"]}
    dets = o["dets"]
    return [(k not in hm) and (k >= len(dets) or dets[k] is None) for k in range(o["cs"])]


def reserved_why(o, k):
    if k in {h[0] for h in o["heralds"]}:
        return "is listed in `heralds`"
    return "ends in a detector"


def availability_failure(p, o, when):
    """The flag `is_mode_connectible` must say exactly what `heralds` / `detectors` say, whatever sequence of adds
    produced the processor.  Where they differ, the clause of the property is evaluated directly: a one-mode phase
    shifter is plugged on that mode through the public API, which must be refused on a reserved mode (and accepted
    on a free one).  -> failure tuple or None.  Never reached on a consistent processor."""
    import perceval as pcvl
    from perceval.components import PS
    for k in range(o["cs"]):
        if o["conn"][k] == o["avail"][k]:
            continue
        try:
            p.add(k, PS(0.25))
            acc, cls = True, None
        except Exception as e:  # noqa: the class is the observable
            acc, cls = False, type(e).__name__
        if not o["avail"][k] and acc:
            return ("violation", "illegal-mapping-accepted",
                    f"{when}, mode {k} {reserved_why(o, k)} (heralds {o['heralds']}, detectors {o['dets']}) but "
                    f"Processor.add({k}, PS) — an unavailable mode — is accepted instead of being rejected")
        if o["avail"][k] and not acc:
            return ("violation", "legal-mapping-rejected-reserved",
                    f"{when}, mode {k} is neither heralded nor detected, yet Processor.add({k}, PS) raised {cls}")
        return ("broken", "availability-flag",
                f"{when}, is_mode_connectible({k}) = {o['conn'][k]} contradicts heralds {o['heralds']} / detectors "
                f"{o['dets']} although Processor.add({k}, PS) behaves as the lists say")
    return None


def comp_list(p):
    """[(modes, kind, payload)] of the public component list: ("PS", numeric phase | None when symbolic),
    ("PERM", perm vector), ("X", None) for anything else.  Used only to *classify* the case (which rewriting rules of
    the automatic simplification the inserted segment can trigger), never for the verdict."""
    from perceval.components import PS, PERM
    out = []
    try:
        for r, c in p.components:
            r = [int(x) for x in r]
            if isinstance(c, PERM):
                out.append((r, "PERM", [int(x) for x in c.perm_vector]))
            elif isinstance(c, PS):
                phi = c.param("phi")
                out.append((r, "PS", None if phi.is_variable else float(phi)))
            else:
                out.append((r, "X", None))
    except Exception:   # classification only
        return []
    return out


def ext_perm(r, pv, m):
    """permutation of all m modes (input mode i leaves on p[i]) of a PERM placed on modes r"""
    p = list(range(m))
    for i, v in enumerate(pv):
        p[r[0] + i] = r[0] + v
    return p


def segment_shapes(seg, m):
    """Which simplification-relevant shapes a component segment contains, by tracing light paths (input mode i of a
    PERM leaves on mode perm[i]; two phase shifters are on one path when every PERM between them carries the one onto
    the other and no other component touches the path).  `direction-sensitive` = following the path through a PERM
    the wrong way round (perm instead of perm^-1) would pair the phase shifter differently, i.e. the shape on which
    a perm/inverse-perm confusion is observable at all."""
    shapes = set()
    two_pi = 2 * np.pi
    for j, (r, k, pay) in enumerate(seg):
        if k == "PERM":
            p = ext_perm(r, pay, m)
            if any(p[p[x]] != x for x in range(m)):
                shapes.add("simp-perm-asym")
            if j > 0 and seg[j - 1][1] == "PERM":
                q = ext_perm(seg[j - 1][0], seg[j - 1][2], m)
                shapes.add("simp-perm-successive")
                if [p[q[x]] for x in range(m)] != [q[p[x]] for x in range(m)]:
                    shapes.add("simp-perm-successive-noncommuting")
            elif any(s[1] == "PERM" for s in seg[:j]):
                shapes.add("simp-perm-nonsuccessive")
            continue
        if k != "PS" or pay is None:
            continue
        if pay % two_pi == 0:
            shapes.add("simp-ps-null")
        res = {}
        for way in ("back", "fwd"):
            x, crossed, asym, out = r[0], 0, False, ("none",)
            for i in range(j - 1, -1, -1):
                ri, ki, pi = seg[i]
                if ki == "PS" and ri[0] == x:
                    if pi is not None:
                        out = ("merge", i)
                        break
                elif ki == "PERM":
                    p = ext_perm(ri, pi, m)
                    inv = [0] * m
                    for a, b in enumerate(p):
                        inv[b] = a
                    if x in ri:
                        crossed += 1
                    if p[x] != inv[x]:
                        asym = True
                    x = inv[x] if way == "back" else p[x]
                elif x in ri:
                    out = ("blocked", i)
                    break
            res[way] = (out, crossed, asym)
        out, crossed, asym = res["back"]
        if out[0] == "merge":
            shapes.add("simp-ps-merge")
            if crossed:
                shapes.add("simp-ps-merge-across-perm")
            if asym:
                shapes.add("simp-ps-merge-across-asym-perm")
            if (pay + seg[out[1]][2]) % two_pi == 0:
                shapes.add("simp-ps-cancel")
        elif out[0] == "blocked" and crossed:
            shapes.add("simp-ps-blocked-behind-perm")
        if res["fwd"][0] != out:
            shapes.add("simp-ps-direction-sensitive")
            if res["fwd"][0][0] == "merge" and out[0] != "merge":
                shapes.add("simp-ps-decoy")
    return shapes


def inserted_segment(L, R, rep):
    """the segment `PERM, shifted components, PERM^-1` the composition inserts (before simplification), rebuilt from
    the public component list of the added processor and the PERM the mapping needs"""
    first = rep.get("min") or 0
    seg = [([x + first for x in r], k, pay) for r, k, pay in R.get("clist", [])]
    pv = rep.get("perm")
    if pv is not None:
        inv = [0] * len(pv)
        for a, b in enumerate(pv):
            inv[b] = a
        rng_ = list(range(first, first + len(pv)))
        seg = [(rng_, "PERM", list(pv))] + seg + [(rng_, "PERM", inv)]
    return seg


def observe_right(r):
    import perceval as pcvl
    if isinstance(r, pcvl.AProcessor):
        return observe_proc(r)
    return {"comp": True, "m": r.m, "cs": r.m, "heralds": [], "dets": [], "outp": [], "inp": [],
            "in_names": [""] * r.m, "raw_in_names": [""] * r.m, "has_ps": False, "clist": [],
            "U": np.array(r.compute_unitary(), dtype=complex)}


def truth_table(p, states):
    import perceval as pcvl
    fn = p.post_select_fn
    if fn is None:
        return None
    return [bool(fn(pcvl.BasicState(s))) for s in states]


# ------------------------------------------------------------------------------------------------
# direct oracle: the documented meaning of a mapping
# ------------------------------------------------------------------------------------------------
def moi_modes(R):
    hp = {h[0] for h in R["heralds"]}
    return [x for x in range(R["cs"]) if x not in hp]


def port_modes(names, name):
    if names is None or name not in names:
        return None
    i = names.index(name)
    return list(range(i, i + names.count(name)))


def intended_pairs(L, R, ms):
    """the (left mode, right mode) pairs the documentation gives to a mapping, item by item, or None when an item
    cannot be read (unknown port, sizes that do not match, a port name on a bare component, an odd type).  An int
    key stands for that one mode whatever the value is (an int, a one-entry list, the name of a one-mode port)."""
    rm = moi_modes(R)
    f = ms["form"]
    if f == "int":
        if not isinstance(ms["v"], int):
            return None
        return [(ms["v"] + i, rm[i]) for i in range(len(rm))]
    if f in ("list", "tuple"):
        if len(ms["v"]) != len(rm) or not all(isinstance(x, int) for x in ms["v"]):
            return None
        return list(zip(ms["v"], rm))
    pairs = []
    for k, v in ms["items"]:
        if isinstance(k, bool) or isinstance(v, bool):
            return None
        if isinstance(k, int):
            lk = [k]
        elif isinstance(k, str):
            lk = port_modes(L["raw_out_names"], k)
        else:
            return None
        if lk is None:
            return None
        if isinstance(v, int):
            rv = [v]
        elif isinstance(v, list):
            rv = v
            if not all(isinstance(x, int) and not isinstance(x, bool) for x in rv):
                return None
        elif isinstance(v, str):
            if R["comp"]:
                return None
            rv = port_modes(R["raw_in_names"], v)
        else:
            return None
        if rv is None or len(rv) != len(lk):
            return None
        pairs += list(zip(lk, rv))
    return pairs


def names_mode_twice(L, R, ms):
    """a dictionary mapping whose items give a value to the same left mode more than once (a port name and one of
    its modes, say).  The documentation says nothing about it (the code keeps the last value): such a mapping is
    not judged by the direct oracle, model and code are only compared with each other."""
    if ms["form"] in ("int", "list", "tuple"):
        return False
    pairs = intended_pairs(L, R, ms)
    if pairs is None:
        return False
    keys = [k for k, _ in pairs]
    return len(set(keys)) != len(keys)


def intended_mapping(L, R, ms):
    """-> (dict left mode -> right mode) or None when the documentation calls the mapping illegal"""
    rm = moi_modes(R)
    pairs = intended_pairs(L, R, ms)
    if pairs is None:
        return None
    keys = [k for k, _ in pairs]
    vals = [v for _, v in pairs]
    if len(pairs) != len(rm) or len(set(keys)) != len(keys) or len(set(vals)) != len(vals):
        return None
    if any(k < 0 or k >= L["cs"] or not L["avail"][k] for k in keys):
        return None
    if sorted(vals) != rm:
        return None
    return dict(pairs)


def embed(n, off, u):
    e = np.eye(n, dtype=complex)
    k = u.shape[0]
    e[off:off + k, off:off + k] = u
    return e


def oracle_wiring(L, R, mp, after):
    """the property statement evaluated on the real matrices. -> None or (signature, text)"""
    n0, nh = L["cs"], len(R["heralds"])
    n = n0 + nh
    if after["cs"] != n:
        return ("circuit-size", f"circuit_size {after['cs']} != {n0} + {nh} new herald modes")
    left = embed(n, 0, L["U"])
    m_ = after["U"] @ left.conj().T          # what was appended after the left processor
    c = R["U"]
    if not R["comp"]:
        wire = dict(mp)
        for i, h in enumerate(R["heralds"]):
            wire[n0 + i] = h[0]
        exp = np.eye(n, dtype=complex)
        dom = sorted(wire)
        for a in dom:
            for b in dom:
                exp[a, b] = c[wire[a], wire[b]]
        if not np.allclose(m_, exp, atol=1e-8):
            bad = np.argwhere(np.abs(m_ - exp) > 1e-8)[0]
            return ("wiring-processor",
                    f"appended transfer matrix differs from the added processor wired through {wire} "
                    f"(entry {bad.tolist()}: {m_[tuple(bad)]:.6g} vs {exp[tuple(bad)]:.6g})")
        return None
    lo, hi = min(mp), max(mp)
    w = c.shape[0]
    used = set(range(lo, lo + w))
    relabel = []
    for k in range(n):
        col = m_[:, k]
        if k in mp:
            e = np.zeros(n, dtype=complex)
            e[lo:lo + w] = c[:, mp[k]]
            if not np.allclose(col, e, atol=1e-8):
                return ("wiring-component", f"light leaving left mode {k} does not enter component input {mp[k]} "
                                            f"placed on modes {lo}..{lo + w - 1}")
        elif k < lo or k > hi:
            e = np.zeros(n, dtype=complex)
            e[k] = 1
            if not np.allclose(col, e, atol=1e-8):
                return ("untouched-mode", f"mode {k} outside [{lo},{hi}] is modified")
        else:
            j = int(np.argmax(np.abs(col)))
            e = np.zeros(n, dtype=complex)
            e[j] = 1
            if not np.allclose(col, e, atol=1e-8) or j in used or j in relabel:
                return ("relabel-mode", f"unmapped mode {k} inside [{lo},{hi}] is not merely relabelled")
            relabel.append(j)
    return None


def oracle_book(L, R, mp, after, keep_port):
    n0 = L["cs"]
    exp_h = L["heralds"] + [[n0 + i, h[1]] for i, h in enumerate(R["heralds"])]
    if after["heralds"] != exp_h:
        return ("heralds-appended", f"heralds {after['heralds']} != expected {exp_h}")
    exp_d = L["dets"] + [R["dets"][h[0]] for h in R["heralds"]]
    if after["dets"] != exp_d:
        return ("herald-detectors", f"detectors {after['dets']} != expected {exp_d}")
    if after["m"] != L["m"] or after["m"] != after["cs"] - len(after["heralds"]):
        return ("modes-of-interest", f"m = {after['m']} after the add (was {L['m']}; circuit_size {after['cs']} with "
                                     f"{len(after['heralds'])} heralds)")
    # names of the transferred heralds (user-given names are kept, the others are auto-generated)
    for names in (after["in_names"], after["out_names"]):
        if names is None:
            continue
        rh = {x[0]: x for x in R["outp"] if x[3]}
        for i, h in enumerate(R["heralds"]):
            if h[0] not in rh:
                continue      # `heralds` of the added processor names a mode without an output herald port: nothing to name
            want = canon_name(rh[h[0]][2]) if rh[h[0]][5] is not None else "herald#"
            if len(names) <= n0 + i or names[n0 + i] != want:
                return ("herald-names", f"port name of new herald mode {n0 + i} is not {want!r}: {names}")
    return None


def canon_ports(ports):
    """[[start, size, name, is_herald, expected]] sorted by first mode (anonymous herald names canonicalised)"""
    return sorted([[int(x[0]), int(x[1]), canon_name(x[2]), bool(x[3]), int(x[4])] for x in ports])


def oracle_ports(L, R, mp, after):
    """direct reading of "wires it exactly there" for port names: on either side, no two ports of the result overlap,
    and a port that was not on the left processor is a port of the added processor sitting, mode by mode and in order,
    on the left modes the mapping wired to its modes.  -> None or (signature, text)"""
    wire_inv = {v: k for k, v in mp.items()}
    for i, h in enumerate(R["heralds"]):
        wire_inv[h[0]] = L["cs"] + i
    for side in ("inp", "outp"):
        old = {(x[0], x[1], x[2]) for x in L[side] if not x[3]}
        rports = [x for x in R[side] if not x[3]]
        taken = {}
        for q in after[side]:
            for m in range(q[0], q[0] + q[1]):
                if m in taken:
                    return ("port-overlap", f"{side}: ports {taken[m]!r} and {q[2]!r} both sit on mode {m} after the add")
                taken[m] = q[2]
            if q[3] or (q[0], q[1], q[2]) in old:
                continue
            cands = [x for x in rports if x[1] == q[1] and x[2] == q[2]]
            if not any(all(wire_inv.get(x[0] + j) == q[0] + j for j in range(x[1])) for x in cands):
                return ("port-misplaced",
                        f"{side}: port {q[2]!r} sits on modes {list(range(q[0], q[0] + q[1]))} of the result, which are "
                        f"not the modes the mapping wired to a port of that name and size of the added object "
                        f"(right-hand ports {[(x[2], x[0], x[1]) for x in rports]}, wiring right->left {wire_inv})")
    return None


def names_check(ask, o, when):
    """the model of in_port_names / out_port_names on the REAL port lists of a processor -> None or failure tuple"""
    if not any(not x[3] for x in o["inp"] + o["outp"]) and (o["cs"] * 7 + len(o["heralds"])) % 5:
        return None      # herald-only processors: one in five (their names are compared after every add anyway)
    rep = ask({"op": "names", "cs": o["cs"], "inp": o["inp"], "outp": o["outp"]})
    for side, key, rk in (("inp", "raw_in_names", "in_names"), ("outp", "raw_out_names", "out_names")):
        if "err" in rep or rep.get(rk) != o[key]:
            return ("broken", "port-names-model", f"{when}: {rk} of the real processor are {o[key]} but the model of "
                                                  f"the names property gives {rep.get(rk, rep)} on its ports {o[side]}")
    return None


def pullback(s, L, R, mp):
    t = [0] * R["cs"]
    for k, v in mp.items():
        t[v] = s[k]
    for i, h in enumerate(R["heralds"]):
        t[h[0]] = s[L["cs"] + i]
    return t


# ------------------------------------------------------------------------------------------------
# one step = one Processor.add
# ------------------------------------------------------------------------------------------------
def lean_request(L, R, ms, keep_port, lps, rps, states, fix_name=True, fix_ps=True, fix_ports=True, fix_skip=True):
    def side(o, ps):
        return {"comp": o["comp"], "m": o["m"], "cs": o["cs"],
                "conn": o.get("avail", o.get("conn", [True] * o["cs"])),
                "heralds": o["heralds"], "dets": o["dets"], "outp": o["outp"], "inp": o["inp"],
                "out_names": o.get("raw_out_names") or [], "in_names": o.get("raw_in_names") or [],
                "ps": ps, "U": core.mat(o["U"].tolist())}
    return {"fix_name": fix_name, "fix_skip": fix_skip, "fix_ps": fix_ps, "fix_ports": fix_ports, "left": side(L, lps),
            "right": side(R, rps), "map": ms, "keep_port": keep_port, "states": states}


def canon_reply_names(names):
    return None if names is None else [canon_name(n) for n in names]


def ps_excuse(L, R, mp, lps, rps):
    """documented reasons to refuse a legal mapping: the left post-selection straddles the impacted modes, or
    shares a mode with the (correctly renamed) post-selection of the added processor"""
    if lps is None:
        return False
    keys = set(mp)
    for c in ps_conds(lps):
        inter = keys & set(c)
        if inter and inter != keys:
            return True
    if rps is not None:
        inv = {v: k for k, v in mp.items()}
        for i, h in enumerate(R["heralds"]):
            inv[h[0]] = L["cs"] + i
        mine = {m for c in ps_conds(lps) for m in c}
        if any(inv[m] in mine for c in ps_conds(rps) for m in c):
            return True
    return False


def real_ps_conds(p):
    """mode lists of the conditions of the real post-selection, in textual order"""
    fn = p.post_select_fn
    if fn is None:
        return []
    return [sorted(int(x) for x in grp.split(",")) for grp in re.findall(r"\[([\d, ]+)\]", str(fn))]


def compare_model(rep, after, tt_real, states):
    """-> list of fields on which the model's prediction and the real processor differ"""
    diffs = []
    if rep["cs"] != after["cs"]:
        diffs.append("cs")
    if rep["heralds"] != after["heralds"]:
        diffs.append("heralds")
    if rep["dets"] != after["dets"]:
        diffs.append("dets")
    if rep.get("conn") != after["conn"]:
        diffs.append(f"connectible model={rep.get('conn')} real={after['conn']}")
    if canon_reply_names(rep["in_names"]) != after["in_names"]:
        diffs.append(f"in_names model={rep['in_names']} real={after['in_names']}")
    if canon_reply_names(rep["out_names"]) != after["out_names"]:
        diffs.append(f"out_names model={rep['out_names']} real={after['out_names']}")
    for side in ("inp", "outp"):
        if side in rep and canon_ports(rep[side]) != canon_ports(after[side]):
            diffs.append(f"{side} ports model={canon_ports(rep[side])} real={canon_ports(after[side])}")
    mu = np.array(core.unmat(rep["U"]), dtype=complex)
    if mu.shape != after["U"].shape or not np.allclose(mu, after["U"], rtol=core.TOL, atol=core.TOL):
        diffs.append("U")
    if states and rep.get("tt") != tt_real:
        diffs.append("ps-truth-table")
    if (rep.get("ps") is None) != (not after["has_ps"]):
        diffs.append("ps-presence")
    if rep.get("ps") is not None and [sorted(c) for c in ps_conds(rep["ps"])] != after["ps_conds"]:
        diffs.append(f"ps-modes model={ps_conds(rep['ps'])} real={after['ps_conds']}")
    return diffs


def agrees(rep, err, after, tt_real, states):
    if err is not None:
        return rep.get("err") == err
    return "err" not in rep and not compare_model(rep, after, tt_real, states)


DEFECT_FLAGS = (("intkey-skipped", "fix_skip"), ("portname-int", "fix_name"), ("postselect-renamed", "fix_ps"),
                ("port-stretched", "fix_ports"))


def attribute(mk_req, ask, err, after, tt_real, states):
    """The repaired model disagrees with the real code.  If the model of the code *as found* (some of the recorded
    defects switched back on; single ones first) reproduces the real outcome exactly, the disagreement is that defect."""
    for size in range(1, len(DEFECT_FLAGS) + 1):
        for combo in itertools.combinations(DEFECT_FLAGS, size):
            if agrees(ask(mk_req(**{flag: False for _, flag in combo})), err, after, tt_real, states):
                return "+".join(name for name, _ in combo)
    return None


DEFECT_TEXT = {
    "intkey-skipped": "a dictionary item with an int key and a list / port-name value ({0: [1]}, {0: 'port'}) is silently "
                      "ignored by resolve: the mapping is judged on its other items only",
    "port-stretched": "a multi-mode port of the added processor is re-attached on port_mode..port_mode+m-1 whatever the "
                      "mapping did to its other modes (it can cover a new herald mode: _add_herald then raises)",
    "portname-int": "a {'port name': mode} item on a one-mode port is stored and then refused as "
                              "'imbalanced ports' (resolve leaves r_idx empty)",
    "postselect-renamed": "the carried-over post-selection is permuted before being shifted, i.e. on the wrong modes "
                          "when the first impacted mode is not 0; acceptance / RuntimeError of the composition and the "
                          "resulting condition follow the wrongly renamed modes",
}


def run_step(p, L, lps, st, ask, reuse_obj=None, R_pre=None):
    """Performs one add on the real processor `p` (state `L` observed before, model PS `lps`).
    -> (failure or None, new L, new model ps, info)"""
    ms, keep_port = st["map"], st.get("keep_port", True)
    right = reuse_obj if reuse_obj is not None else build_right(st["right"])
    R = R_pre if R_pre is not None else observe_right(right)
    rps = st["right"].get("ps_ast") if st["right"]["kind"] == "proc" else None
    if R["has_ps"] and rps is None:
        return ("skip", "right post-selection without a known AST"), L, lps, {}
    n_after = L["cs"] + len(R["heralds"])
    need_tt = (rps is not None or lps is not None)
    states = small_states(n_after, 2 if n_after <= 7 else 1) if need_tt and n_after <= 9 else []
    info = {"R": R}

    def mk_req(**flags):
        return lean_request(L, R, ms, keep_port, lps, rps, states, **flags)

    # ---- real code
    err, where = None, ""
    try:
        p.add(py_mapping(ms), right, keep_port=keep_port)
    except Exception as e:  # noqa: the class is the observable
        err = type(e).__name__
        tb = e.__traceback__
        while tb is not None:   # innermost perceval function: names the defect, not the input
            if "perceval" in tb.tb_frame.f_code.co_filename and tb.tb_frame.f_code.co_name != "__init__":
                where = tb.tb_frame.f_code.co_name
            tb = tb.tb_next
    mp = intended_mapping(L, R, ms)
    info["legal"] = mp is not None
    unjudged = names_mode_twice(L, R, ms)
    info["unjudged"] = unjudged
    if ms["form"] == "dict":
        rep, rq = ask([mk_req(), dict(mk_req(), op="resolve")])
    else:
        rep, rq = ask(mk_req()), None
    info["rep"] = rep
    nomodel = bool(rep.get("nomodel"))
    if ms["form"] == "dict":
        # the closed form of the dictionary branch (allPairs) against the documented reading of every item
        closed = rq.get("closed") or {}
        want = intended_pairs(L, R, ms)
        info["pairs"] = want
        got = closed.get("pairs") if closed.get("types") else None
        if (want is None) != (got is None) or (want is not None and [list(x) for x in want] != got):
            return (("broken", "closed-form-pairs",
                     f"dictionary mapping {ms['items']}: the documented reading of its items is {want}, the closed "
                     f"form of the model gives {closed}"), L, lps, info)
    if err is not None:
        info["err"] = err
        if nomodel:
            if mp is not None and err in RESOLVE_ERRS:
                return (("violation", "legal-mapping-rejected", f"{ms} rejected with {err}"), L, lps, info)
            return None, None, None, info
        if mp is not None and err in RESOLVE_ERRS:
            sig, why = "legal-mapping-rejected-" + where, ""
            if rep.get("err") != err and has_intkey_item(ms) and \
                    (attribute(mk_req, ask, err, None, None, states) or "").startswith("intkey-skipped"):
                sig, why = "intkey-skipped", ": " + DEFECT_TEXT["intkey-skipped"]
            return (("violation", sig,
                     f"mapping {ms} names available distinct modes of the right size but the real API raised {err} "
                     f"in {where}{why}"), L, lps, info)
        if mp is not None and not ps_excuse(L, R, mp, lps, rps) and "err" not in rep:
            cause = attribute(mk_req, ask, err, None, None, states)
            if cause is None:
                return (("violation", "legal-composition-crashes-" + where,
                         f"mapping {ms} is legal and no post-selection stands in the way, yet Processor.add raised "
                         f"{err} in {where}"), L, lps, info)
        if rep.get("err") != err:
            cause = attribute(mk_req, ask, err, None, None, states)
            if cause is not None:
                return (("violation", cause.split("+")[0],
                         f"real API raised {err} where the repaired behaviour is "
                         f"{rep.get('err', 'to accept')}: " + DEFECT_TEXT[cause.split("+")[0]]), L, lps, info)
            return (("broken", "reject-class", f"real API raised {err}, model predicts {rep.get('err', 'acceptance')}"),
                    L, lps, info)
        if err in RESOLVE_ERRS:
            try:
                again = observe_proc(p)
            except Exception as e:
                return (("violation", "rejected-but-modified", f"after the rejected add the processor is unusable: "
                                                               f"{type(e).__name__}"), L, lps, info)
            for key in ("cs", "heralds", "dets", "in_names", "out_names"):
                if again[key] != L[key]:
                    return (("violation", "rejected-but-modified",
                             f"a mapping rejected with {err} still changed {key}: {L[key]} -> {again[key]}"),
                            L, lps, info)
            if not np.allclose(again["U"], L["U"], atol=1e-9):
                return (("violation", "rejected-but-modified", "a rejected mapping changed the circuit"), L, lps, info)
            if again["conn"] != L["conn"] or again["has_ps"] != L["has_ps"]:
                return (("violation", "rejected-but-modified",
                         f"a mapping rejected with {err} changed the mode availability / post-selection"), L, lps, info)
            # refused cleanly by the mapping check and verified untouched: the processor lives on, the scenario too
            info["continues"] = True
            return None, L, lps, info
        return None, None, None, info      # the processor may be half-modified: stop the scenario here
    # ---- accepted by the real code
    try:
        after = observe_proc(p)
    except Exception as e:  # noqa: an accepted composition must leave a usable processor
        if mp is None:
            return (("violation", "illegal-mapping-accepted",
                     f"mapping {ms} is illegal but was accepted (and the result is unusable: {type(e).__name__})"),
                    None, None, info)
        return (("violation", "composed-processor-unusable",
                 f"mapping {ms} was accepted but the composed processor cannot be observed any more "
                 f"({type(e).__name__}: {str(e)[:120]})"), None, None, info)
    after["ps_conds"] = real_ps_conds(p)
    info["after"] = after
    if mp is not None:
        # the state this add leaves behind decides what the NEXT add may use
        bad = availability_failure(p, after, f"after the accepted add of {'a component' if R['comp'] else 'a processor'} "
                                             f"through {ms.get('v', ms.get('items'))}")
        if bad is not None:
            return (bad, None, None, info)
    bad = names_check(ask, after, "after the accepted add")
    if bad is not None:
        return (bad, None, None, info)
    if mp is None and not unjudged:
        if "err" in rep or nomodel:
            cause = attribute(mk_req, ask, None, after, truth_table(p, states) if states else None, states)
            if cause is not None:
                return (("violation", cause.split("+")[0],
                         f"mapping {ms} is illegal (size / duplicate / unavailable modes) but was accepted: "
                         + DEFECT_TEXT[cause.split("+")[0]]), after, None, info)
            return (("violation", "illegal-mapping-accepted",
                     f"mapping {ms} is illegal (size / duplicate / unavailable modes) but was accepted"),
                    after, None, info)
        return (("broken", "illegal-accepted-by-both", f"mapping {ms}: oracle says illegal, model and code accept"),
                after, None, info)
    # direct oracle first (a mapping that gives two values to one left mode is not judged: model vs code only)
    tt_real = truth_table(p, states) if states else None
    bad = None
    if mp is not None:
        bad = oracle_wiring(L, R, mp, after) or oracle_book(L, R, mp, after, keep_port) or \
            oracle_ports(L, R, mp, after)
    if mp is not None and bad is None and (rps is not None or lps is not None):
        if not after["has_ps"]:
            bad = ("postselect-lost", "the post-selection disappeared in the composition")
        else:
            wire_inv = {v: k for k, v in mp.items()}
            for i, h in enumerate(R["heralds"]):
                wire_inv[h[0]] = L["cs"] + i
            want_conds = ([sorted(c) for c in ps_conds(lps)] if lps is not None else []) + \
                         ([sorted(wire_inv[m] for m in c) for c in ps_conds(rps)] if rps is not None else [])
            if after["ps_conds"] != want_conds:
                bad = ("postselect-renamed",
                       f"carried-over post-selection {p.post_select_fn} constrains modes {after['ps_conds']}; "
                       f"re-expressed in the new numbering the conditions are on {want_conds}")
            for s, got in zip(states, tt_real or []):
                if bad is not None:
                    break
                want = (ps_eval(lps, s) if lps is not None else True) and \
                       (ps_eval(rps, pullback(s, L, R, mp)) if rps is not None else True)
                if got != want:
                    bad = ("postselect-renamed",
                           f"carried-over post-selection {p.post_select_fn} evaluates to {got} on {s} but the "
                           f"original conditions evaluate to {want} on the corresponding sub-states")
    if bad is not None:
        return (("violation", bad[0], bad[1]), after, None, info)
    # ---- model vs code
    if nomodel:
        return None, (after if not after["has_ps"] else None), None, info
    if "err" in rep:
        cause = attribute(mk_req, ask, None, after, tt_real, states)
        if cause is not None:
            return (("violation", cause.split("+")[0],
                     f"real API accepted where the repaired behaviour is {rep['err']}: "
                     + DEFECT_TEXT[cause.split("+")[0]]), after, None, info)
        return (("broken", "model-rejects", f"model predicts {rep['err']} but the real API accepted"), after, None, info)
    diffs = compare_model(rep, after, tt_real, states)
    if mp is not None and not R["comp"] and rep.get("pull") is not None:
        # the left mode the carried-over post-selection reads for every right-hand mode is the wiring
        wire_inv = {v: k for k, v in mp.items()}
        for i, h in enumerate(R["heralds"]):
            wire_inv[h[0]] = L["cs"] + i
        if any(v >= len(rep["pull"]) or rep["pull"][v] != k for v, k in wire_inv.items()):
            diffs.append(f"pull-wiring model={rep['pull']} wiring right->left={wire_inv}")
    if diffs:
        cause = attribute(mk_req, ask, None, after, tt_real, states)
        if cause is not None:
            return (("violation", cause.split("+")[0],
                     "the composed processor differs from the repaired behaviour on " + "; ".join(diffs)[:300]
                     + " — " + DEFECT_TEXT[cause.split("+")[0]]), after, None, info)
        return (("broken", "model-vs-code", "model and implementation disagree on: " + "; ".join(diffs)),
                after, rep.get("ps"), info)
    return None, after, rep.get("ps"), info


def left_ps_of(spec):
    ps = None
    for op in spec["ops"]:
        if op["op"] == "ps":
            ps = op["ps"]
    return ps


def run_scenario(scn, ask, on_step=None):
    """-> failure tuple (kind, sig, what) or None"""
    try:
        return _run_scenario(scn, ask, on_step)
    except BuildFailed as e:
        # every construction step of a generated scenario is a legal call of the public API (components are added on
        # modes inside the processor, before any herald / detector is declared there)
        if e.op.get("op") == "add":
            return ("violation", "legal-add-crashes",
                    f"Processor.add({e.op['at']}, {e.op['leaf'].get('t')}) on free modes inside the processor raised {e}")
        return ("broken", "construction-failed", f"{e.op.get('op')} raised {e} while the scenario was being built")


def _observe_built(p, what, nested=False):
    try:
        return observe_proc(p) if not nested else observe_right(p)
    except Exception as e:  # noqa
        raise Unusable(f"{what} was built through accepted Processor.add calls but cannot be observed any more "
                       f"({type(e).__name__}: {str(e)[:120]})") from e


class Unusable(Exception):
    pass


def _run_scenario(scn, ask, on_step=None):
    p = build_left(scn["left"])
    try:
        L = _observe_built(p, "the left processor")
    except Unusable as e:
        return ("violation", "composed-processor-unusable", str(e))
    bad = availability_failure(p, L, "on the left processor as declared") or \
        names_check(ask, L, "on the left processor as declared")
    if bad is not None:
        return bad
    L["cs0"] = L["cs"]
    lps = left_ps_of(scn["left"])
    prev = None
    for i, st in enumerate(scn["steps"]):
        reuse = prev if (st.get("reuse") and prev is not None) else None
        if reuse is None:
            right_obj = build_right(st["right"])
        else:
            right_obj = reuse
        try:
            R_pre = _observe_built(right_obj, "the processor to add", nested=True)
        except Unusable as e:
            if st["right"]["kind"] == "scn":   # reported by the inner scenario, which is a case of its own
                raise GenInvalid(str(e)) from e
            return ("violation", "composed-processor-unusable", str(e))
        fail, L2, lps2, info = run_step(p, L, lps, st, ask, reuse_obj=right_obj, R_pre=R_pre)
        prev = right_obj
        if on_step:
            on_step(i, st, L, info)
        if fail is not None:
            if fail[0] == "skip":
                return None
            return fail
        if L2 is None:
            return None
        L2.setdefault("cs0", L["cs0"])
        if info.get("continues"):
            L2["after_rejection"] = True
        L, lps = L2, lps2
    return None


# ------------------------------------------------------------------------------------------------
# generators
# ------------------------------------------------------------------------------------------------
NAMES = ["a", "b", "q0", "q1", "data", "ctrl", "x", "y"]


def gen_ops(rng, cs, n, kinds=LEAF_KINDS):
    ops = []
    for _ in range(n):
        leaf = gens.gen_leaf(rng, cs, kinds)
        ops.append([rng.randint(0, cs - gens.leaf_width(leaf)), leaf])
    return ops


def gen_extras(rng, cs, max_heralds, names, allow_det=True, allow_ps=True, keep_moi=1):
    """heralds (any positions, any order), ports, detectors, post-selection for a `cs`-mode processor"""
    extra = []
    free = list(range(cs))
    rng.shuffle(free)
    nh = rng.randint(0, min(max_heralds, cs - keep_moi))
    hmodes = free[:nh]
    rest = sorted(free[nh:])
    for h in hmodes:
        extra.append({"op": "herald", "mode": h, "exp": rng.randint(0, 1),
                      "name": (None if rng.random() < 0.6 else "h" + names.pop())})
    taken_in, taken_out = set(hmodes), set(hmodes)
    for _ in range(rng.choice([0, 0, 1, 2])):
        enc = rng.choice(["RAW", "RAW", "DUAL_RAIL"])
        w = 1 if enc == "RAW" else 2
        loc = rng.choice(["INPUT", "OUTPUT", "IN_OUT"])
        cands = [m for m in range(cs - w + 1)
                 if all(((x not in taken_in) or loc == "OUTPUT") and ((x not in taken_out) or loc == "INPUT")
                        for x in range(m, m + w))]
        if not cands or not names:
            break
        m = rng.choice(cands)
        extra.append({"op": "port", "mode": m, "enc": enc, "name": names.pop(), "loc": loc})
        for x in range(m, m + w):
            if loc != "OUTPUT":
                taken_in.add(x)
            if loc != "INPUT":
                taken_out.add(x)
    if allow_det and rest and rng.random() < 0.25:
        extra.append({"op": "det", "mode": rng.choice(rest), "kind": rng.choice(["threshold", "pnr"])})
    ps = None
    if allow_ps and rest and rng.random() < 0.4:
        ps = gen_ps(rng, rest)
        extra.append({"op": "ps", "ps": ps})
    return extra, ps


def gen_left(rng, max_cs):
    cs = rng.randint(1, max_cs)
    names = NAMES[:]
    rng.shuffle(names)
    ops = [{"op": "add", "at": off, "leaf": leaf} for off, leaf in gen_ops(rng, cs, rng.randint(0, 4))]
    extra, _ = gen_extras(rng, cs, 2, names)
    return {"cs": cs, "ops": ops + extra}


def gen_right(rng, max_m, want=None):
    kind = want or rng.choice(["leaf", "circ", "proc", "proc", "proc"])
    if kind == "leaf":
        return {"kind": "leaf", "leaf": gens.gen_leaf(rng, max_m, LEAF_KINDS)}
    if kind == "circ":
        m = rng.randint(1, max_m)
        return {"kind": "circ", "m": m, "ops": gen_ops(rng, m, rng.randint(1, 4))}
    nh_max = rng.choice([0, 1, 2, 3])
    cs = rng.randint(1, max_m + min(nh_max, 2))
    names = ["r" + n for n in NAMES]
    rng.shuffle(names)
    extra, ps = gen_extras(rng, cs, nh_max, names, allow_det=False)
    # detectors on herald modes are what gets transferred
    for e in list(extra):
        if e["op"] == "herald" and rng.random() < 0.5:
            extra.append({"op": "det", "mode": e["mode"], "kind": rng.choice(["threshold", "pnr"])})
    n_ops = rng.randint(1, 5)
    spec = {"kind": "proc", "cs": cs, "whole": rng.random() < 0.4, "ops": gen_ops(rng, cs, n_ops),
            "extra": extra, "at": [rng.randint(0, n_ops) for _ in extra], "ps_ast": ps}
    return spec


def right_shape(spec):
    """(m to connect, herald positions) of a right spec without building it"""
    if spec["kind"] == "leaf":
        return gens.leaf_width(spec["leaf"]), []
    if spec["kind"] == "circ":
        return spec["m"], []
    if spec["kind"] == "hist":   # read off the built object by the generator
        return spec["shape"][0], list(spec["shape"][1])
    if spec["kind"] == "scn":   # heralds of the inner left processor + those appended by the inner compositions
        total = spec["scn"]["left"]["cs"]
        hs = [e["mode"] for e in spec["scn"]["left"]["ops"] if e["op"] == "herald"]
        for st in spec["scn"]["steps"]:
            _, h2 = right_shape(st["right"])
            hs += [total + i for i in range(len(h2))]
            total += len(h2)
        return total - len(hs), hs
    hs = [e["mode"] for e in spec["extra"] if e["op"] == "herald"]
    return spec["cs"] - len(hs), hs


def left_shape(spec):
    """connectible modes of a left spec (without building it)"""
    bad = {e["mode"] for e in spec["ops"] if e["op"] in ("herald", "det")}
    return [k for k in range(spec["cs"]) if k not in bad]


def evolved_shape(lspec, steps):
    """(circuit size, available modes, reserved modes, imported herald modes) of the left processor after `steps`
    (each processor step appends one reserved mode per herald of the added processor; computed from the specs, assuming
    the steps are accepted — when one is not, later mappings are merely a little more often illegal)"""
    cs = lspec["cs"]
    avail = left_shape(lspec)
    imported = []
    for st in steps:
        _, hs = right_shape(st["right"])
        imported += list(range(cs, cs + len(hs)))
        cs += len(hs)
    reserved = [k for k in range(cs) if k not in avail]
    return cs, avail, reserved, imported


def gen_reserved_mapping(rng, shape, rspec, prefer_imported=True):
    """a mapping whose ONLY fault is that it reaches a reserved mode (heralded — declared or imported by an earlier
    add — or detected): right size, distinct modes inside the circuit, every syntax"""
    cs, avail, reserved, imported = shape
    n, hs = right_shape(rspec)
    rm = [x for x in range(n + len(hs)) if x not in hs]
    pool = imported if (imported and prefer_imported and rng.random() < 0.75) else reserved
    if not pool or n < 1:
        return None
    u = rng.choice(pool)
    form = rng.choice(["int", "list", "list", "tuple", "dict", "dict"])
    if form == "int":
        starts = [s for s in range(max(0, u - n + 1), min(u, cs - n) + 1)]
        if starts:
            return {"form": "int", "v": rng.choice(starts)}
        form = "list"
    others = [k for k in avail if k != u]
    if len(others) < n - 1:
        others = [k for k in range(cs) if k != u]
    if len(others) < n - 1:
        return None
    keys = rng.sample(others, n - 1)
    keys.insert(rng.randrange(n), u)
    if form in ("list", "tuple"):
        return {"form": form, "v": keys}
    vals = rm[:]
    rng.shuffle(vals)
    return {"form": "dict", "items": [[k, v] for k, v in zip(keys, vals)]}


def gen_mapping(rng, lspec, rspec, lnames=None, rnames=None, malformed=False, shape=None):
    n, hs = right_shape(rspec)
    rm = [x for x in range(n + len(hs)) if x not in hs]
    if shape is None:
        shape = evolved_shape(lspec, [])
    cs, avail = shape[0], shape[1]
    if malformed:
        how = rng.choice(["short", "long", "dupkey", "dupval", "unavail", "neg", "range", "badval", "offend",
                          "reserved", "reserved"])
        if how == "reserved":
            ms = gen_reserved_mapping(rng, shape, rspec)
            if ms is not None:
                return ms
            how = "unavail"
        if how == "short":
            keys = rng.sample(range(cs), min(cs, max(0, n - 1)))
            return {"form": rng.choice(["list", "dict"]), "v": keys, "items": [[k, rm[i]] for i, k in enumerate(keys)]}
        if how == "long":
            keys = rng.sample(range(cs), min(cs, n + 1))
            return {"form": rng.choice(["list", "dict"]), "v": keys,
                    "items": [[k, (rm + [n + len(hs)])[i]] for i, k in enumerate(keys)]}
        if how == "dupkey":
            keys = [rng.randrange(cs) for _ in range(n)]
            if n > 1:
                keys[rng.randrange(1, n)] = keys[0]
            return {"form": "list", "v": keys}
        if how == "dupval":
            keys = rng.sample(range(cs), min(cs, n))
            vals = [rng.choice(rm) for _ in keys]
            return {"form": "dict", "items": [[k, v] for k, v in zip(keys, vals)]}
        if how == "unavail":
            keys = rng.sample(range(cs + 2), min(cs + 2, n))
            return {"form": rng.choice(["list", "dict"]), "v": keys, "items": [[k, rm[i]] for i, k in enumerate(keys)]}
        if how == "neg":
            return {"form": "int", "v": -rng.randint(1, 2)}
        if how == "offend":
            return {"form": "int", "v": rng.randint(max(0, cs - n + 1), cs + 1)}
        if how == "range":
            keys = rng.sample(range(cs), min(cs, n))
            return {"form": "dict", "items": [[k, i + rng.choice([1, 2])] for i, k in enumerate(keys)]}
        keys = rng.sample(range(cs), min(cs, n))   # values landing on the right processor's herald modes
        pool = list(range(n + len(hs)))
        rng.shuffle(pool)
        return {"form": "dict", "items": [[k, pool[i]] for i, k in enumerate(keys)]}
    if len(avail) < n:
        keys = rng.sample(range(cs), min(cs, n))
        return {"form": "list", "v": keys}
    keys = rng.sample(avail, n)
    form = rng.choice(["list", "list", "tuple", "dict", "dict", "int", "named"])
    if form == "int":
        runs = [s for s in range(cs) if all(s + i in avail for i in range(n))]
        if runs:
            return {"form": "int", "v": rng.choice(runs)}
        form = "list"
    if form in ("list", "tuple"):
        return {"form": form, "v": keys}
    vals = rm[:]
    rng.shuffle(vals)
    items = [[k, v] for k, v in zip(keys, vals)]
    if form == "named":
        return {"form": "named", "items": items}   # resolved to port names once the objects exist
    return {"form": "dict", "items": items}


def name_items(items, L, R, rng):
    """rewrite some int->int pairs of a dict mapping through port names when ports cover them"""
    out = []
    used = set()
    lo, ri = L["raw_out_names"], R["raw_in_names"]
    d = dict(items)
    for k, v in items:
        if k in used:
            continue
        name = lo[k] if lo else ""
        if name and not L["conn"][k] is False:
            ks = port_modes(lo, name)
            if all(x in d for x in ks) and not any(x in used for x in ks):
                vs = [d[x] for x in ks]
                rname = ri[vs[0]] if ri and vs[0] < len(ri) else ""
                if rname and port_modes(ri, rname) == vs and rng.random() < 0.6:
                    out.append([name, rname])
                elif len(ks) == 1 and rng.random() < 0.5:
                    out.append([name, vs[0]])
                else:
                    out.append([name, vs])
                used.update(ks)
                continue
        out.append([k, v])
        used.add(k)
    return out


def has_intkey_item(ms):
    return ms["form"] == "dict" and any(isinstance(k, int) and not isinstance(v, int) for k, v in ms["items"])


def item_form(k, v):
    return ("name" if isinstance(k, str) else "int") + "-" + \
           ("name" if isinstance(v, str) else "list" if isinstance(v, list) else "int")


# ---- dictionary mappings written through every key form ---------------------------------------------------------
DICT_FAULTS = ("unknown-left", "unknown-right", "imbalanced", "name-int-multimode", "name-on-component",
               "twice-same", "twice-other", "intkey-extra", "intkey-extra-name")


def dict_forms(items, L, R, rng, fault=None):
    """Rewrite the int->int pairs `items` of a dictionary mapping through every key form the objects allow
    ('port': int, 'port': [modes], 'port': 'port', int: [mode], int: 'port'), then inject `fault` (if it applies):
    -> (items, fault actually injected or None)"""
    lo, ri = L["raw_out_names"] or [], (R.get("raw_in_names") or [])
    d = dict(items)
    out, used = [], set()
    for k, v in items:
        if k in used:
            continue
        name = lo[k] if isinstance(k, int) and 0 <= k < len(lo) else ""
        ks = port_modes(lo, name) if name else None
        if ks and all(x in d for x in ks) and not any(x in used for x in ks) and rng.random() < 0.8:
            vs = [d[x] for x in ks]
            rname = ri[vs[0]] if isinstance(vs[0], int) and 0 <= vs[0] < len(ri) else ""
            u = rng.random()
            if rname and not R["comp"] and port_modes(ri, rname) == vs and u < 0.45:
                out.append([name, rname])
            elif len(ks) == 1 and u < 0.7:
                out.append([name, vs[0]])
            else:
                out.append([name, vs])
            used.update(ks)
            continue
        rname = ri[v] if isinstance(v, int) and 0 <= v < len(ri) else ""
        u = rng.random()
        if rname and not R["comp"] and port_modes(ri, rname) == [v] and u < 0.3:
            out.append([k, rname])
        elif u < 0.55:
            out.append([k, [v]])
        else:
            out.append([k, v])
        used.add(k)
    done = None
    rm = moi_modes(R) if not R["comp"] else list(range(R["m"]))
    free_left = [k for k in range(L["cs"]) if L["avail"][k] and k not in d]
    if fault == "unknown-left" and out:
        i = rng.randrange(len(out))
        out[i] = ["nope", out[i][1]]
        done = fault
    elif fault == "unknown-right" and out and not R["comp"]:
        i = rng.randrange(len(out))
        out[i] = [out[i][0], "rnope"]
        done = fault
    elif fault == "imbalanced" and out:
        i = rng.randrange(len(out))
        k, v = out[i]
        vs = v if isinstance(v, list) else ([v] if isinstance(v, int) else port_modes(ri, v) or [0])
        vs = vs + [rng.choice(rm)] if (rng.random() < 0.5 or len(vs) == 1) else vs[:-1]
        out[i] = [k, vs]
        done = fault
    elif fault == "name-int-multimode":
        cands = [i for i, (k, v) in enumerate(out) if isinstance(k, str) and len(port_modes(lo, k) or []) > 1]
        if cands:
            i = rng.choice(cands)
            v = out[i][1]
            out[i] = [out[i][0], (v[0] if isinstance(v, list) else rng.choice(rm))]
            done = fault
    elif fault == "name-on-component" and out and R["comp"]:
        i = rng.randrange(len(out))
        out[i] = [out[i][0], "x"]
        done = fault
    elif fault in ("twice-same", "twice-other"):
        cands = [(k, v) for k, v in items if isinstance(k, int)]
        named = [i for i, (k, _) in enumerate(out) if isinstance(k, str)]
        if cands and named:
            # a mode of a port named as a whole is given a value again, as an int key (after or before the port item)
            i = rng.choice(named)
            ks = port_modes(lo, out[i][0])
            k = rng.choice(ks)
            v = d[k] if fault == "twice-same" else rng.choice(rm)
            extra = [k, v] if rng.random() < 0.6 else [k, [v]]
            out.insert(rng.choice([i, i + 1, len(out)]), extra)
            done = fault
    elif fault in ("intkey-extra", "intkey-extra-name"):
        # one more item, on a free left mode, written with an int key and a list / port-name value: the mapping now
        # has one pair too many
        if free_left:
            k = rng.choice(free_left)
            one = [n for n in dict.fromkeys(ri) if n and len(port_modes(ri, n)) == 1] if not R["comp"] else []
            if fault == "intkey-extra-name" and one:
                out.insert(rng.randrange(len(out) + 1), [k, rng.choice(one)])
                done = fault
            elif fault == "intkey-extra":
                out.insert(rng.randrange(len(out) + 1), [k, [rng.choice(rm + [len(ri) + 1])]])
                done = fault
    return out, done


def gen_left_ports(rng, max_cs):
    """a left processor carrying one-mode and two-mode ports (output side at least) on available modes"""
    cs = rng.randint(2, max_cs)
    names = NAMES[:]
    rng.shuffle(names)
    ops = [{"op": "add", "at": off, "leaf": leaf} for off, leaf in gen_ops(rng, cs, rng.randint(0, 3))]
    extra = []
    taken = set()
    if cs >= 3 and rng.random() < 0.35:
        h = rng.randrange(cs)
        extra.append({"op": "herald", "mode": h, "exp": rng.randint(0, 1), "name": None})
        taken.add(h)
    for _ in range(rng.choice([1, 2, 2, 3])):
        enc = rng.choice(["RAW", "DUAL_RAIL", "DUAL_RAIL"])
        w = 1 if enc == "RAW" else 2
        cands = [m for m in range(cs - w + 1) if not any(x in taken for x in range(m, m + w))]
        if not cands:
            continue
        m = rng.choice(cands)
        extra.append({"op": "port", "mode": m, "enc": enc, "name": names.pop(), "loc": rng.choice(["OUTPUT", "IN_OUT"])})
        taken.update(range(m, m + w))
    return {"cs": cs, "ops": ops + extra}


def gen_right_ports(rng, max_m):
    """a component, a circuit, or a processor with input ports (one-mode and two-mode) and maybe heralds"""
    u = rng.random()
    if u < 0.2:
        return {"kind": "leaf", "leaf": gens.gen_leaf(rng, max_m, LEAF_KINDS)}
    if u < 0.3:
        m = rng.randint(1, max_m)
        return {"kind": "circ", "m": m, "ops": gen_ops(rng, m, rng.randint(1, 3))}
    nh = rng.choice([0, 0, 1, 2])
    m = rng.randint(1, max_m)
    cs = m + nh
    names = ["r" + n for n in NAMES]
    rng.shuffle(names)
    modes = list(range(cs))
    rng.shuffle(modes)
    extra = [{"op": "herald", "mode": h, "exp": rng.randint(0, 1), "name": None} for h in modes[:nh]]
    taken = set(modes[:nh])
    for _ in range(rng.choice([1, 2, 2])):
        enc = rng.choice(["RAW", "DUAL_RAIL", "DUAL_RAIL"])
        w = 1 if enc == "RAW" else 2
        cands = [x for x in range(cs - w + 1) if not any(y in taken for y in range(x, x + w))]
        if not cands:
            continue
        x = rng.choice(cands)
        extra.append({"op": "port", "mode": x, "enc": enc, "name": names.pop(), "loc": rng.choice(["INPUT", "IN_OUT"])})
        taken.update(range(x, x + w))
    ps = None
    rest = sorted(modes[nh:])
    if rng.random() < 0.25:
        ps = gen_ps(rng, rest, 1)
        extra.append({"op": "ps", "ps": ps})
    n_ops = rng.randint(1, 3)
    return {"kind": "proc", "cs": cs, "whole": rng.random() < 0.5, "ops": gen_ops(rng, cs, n_ops), "extra": extra,
            "at": [n_ops for _ in extra], "ps_ast": ps}


def gen_scenario_dict(rng, max_cs):
    """1-2 adds through dictionary mappings written with every key form; ~45% carry exactly one fault of DICT_FAULTS"""
    for _ in range(20):
        left = gen_left_ports(rng, max_cs)
        if len(left_shape(left)) >= 2:
            break
    steps = []
    for i in range(rng.choice([1, 1, 2])):
        shape = evolved_shape(left, steps)
        avail = shape[1]
        right = gen_right_ports(rng, max(1, min(len(avail), 4)))
        n, hs = right_shape(right)
        rm = [x for x in range(n + len(hs)) if x not in hs]
        if len(avail) < n:
            continue
        # prefer assignments that keep two-mode ports together, in order or crossed
        keys = rng.sample(avail, n)
        if rng.random() < 0.6:
            runs = [s_ for s_ in range(shape[0]) if all(s_ + j in avail for j in range(n))]
            if runs:
                s0 = rng.choice(runs)
                keys = list(range(s0, s0 + n))
                if rng.random() < 0.3:
                    rng.shuffle(keys)
        vals = rm[:]
        if rng.random() < 0.4:
            rng.shuffle(vals)
        fault = rng.choice(DICT_FAULTS) if rng.random() < 0.45 else None
        steps.append({"right": right, "keep_port": rng.random() < 0.6, "reuse": False,
                      "map": {"form": "forms", "items": [[k, v] for k, v in zip(keys, vals)], "fault": fault}})
    if not steps:
        raise GenInvalid("no room for a dictionary mapping")
    return {"left": left, "steps": steps}


# ---- right-hand sides that engage the automatic simplification of the inserted segment ----------------------
def gen_perm_asym(rng, w):
    """a permutation of w >= 3 modes that is not its own inverse (contains a cycle of length >= 3)"""
    while True:
        p = list(range(w))
        rng.shuffle(p)
        if any(p[p[i]] != i for i in range(w)):
            return p


def neg_cs(cs):
    from fractions import Fraction
    return [cs[0], core.rat(-Fraction(cs[1]))]


def gen_ops_simpl(rng, cs, n_items=None):
    """component-by-component content made of what `simplify` rewrites: layers of numeric phase shifters (some
    cancelling an earlier one exactly, some null), PERMs of any width and position (mostly not self-inverse, sometimes
    adjacent to each other, sometimes first or last), and now and then a component that blocks a light path"""
    ops, phases = [], []

    def ps(mode):
        u = rng.random()
        if phases and u < 0.12:
            phi = neg_cs(rng.choice(phases))
        elif u < 0.18:
            phi = [core.rat(1), core.rat(0)]
        else:
            phi = gens.gen_cs(rng)
            phases.append(phi)
        ops.append([mode, {"t": "PS", "phi": phi}])

    for _ in range(n_items if n_items is not None else rng.randint(3, 7)):
        u = rng.random()
        if u < 0.45 or cs < 2:
            for mo in rng.sample(range(cs), rng.randint(1, cs)):
                ps(mo)
        elif u < 0.85:
            w = rng.randint(2, cs) if (cs < 3 or rng.random() < 0.25) else rng.randint(3, cs)
            if w >= 3 and rng.random() < 0.85:
                pv = gen_perm_asym(rng, w)
            else:
                pv = list(range(w))
                rng.shuffle(pv)
            ops.append([rng.randint(0, cs - w), {"t": "PERM", "perm": pv}])
        else:
            leaf = gens.gen_leaf(rng, cs, ("BS", "UH", "U"))
            ops.append([rng.randint(0, cs - gens.leaf_width(leaf)), leaf])
    return ops


def gen_right_simpl(rng, max_m, plain=False):
    """a processor built component by component from `gen_ops_simpl` (heralds / ports / post-selection as usual)"""
    lo = min(3, max_m)
    extra, ps, cs = [], None, rng.randint(lo, max_m)
    if not plain:
        nh_max = rng.choice([0, 0, 1, 2])
        for _ in range(6):
            cs = rng.randint(lo, max_m + nh_max)
            names = ["r" + n for n in NAMES]
            rng.shuffle(names)
            extra, ps = gen_extras(rng, cs, nh_max, names, allow_det=False)
            if lo <= cs - sum(e["op"] == "herald" for e in extra) <= max_m:
                break
        for e in list(extra):
            if e["op"] == "herald" and rng.random() < 0.4:
                extra.append({"op": "det", "mode": e["mode"], "kind": rng.choice(["threshold", "pnr"])})
    ops = gen_ops_simpl(rng, cs)
    return {"kind": "proc", "cs": cs, "whole": False, "ops": ops, "extra": extra,
            "at": [rng.randint(0, len(ops)) for _ in extra], "ps_ast": ps, "family": "simpl"}


def gen_right_nested(rng, max_m):
    """a processor that is itself the result of a composition through a non-trivial mapping: its component list
    contains the PERM / inverse PERM that composition left behind"""
    cs = rng.randint(min(3, max_m), max_m)
    left = {"cs": cs, "ops": [{"op": "add", "at": off, "leaf": leaf}
                              for off, leaf in gen_ops_simpl(rng, cs, rng.randint(1, 3))]}
    steps = []
    for _ in range(rng.choice([1, 1, 2])):
        inner = gen_right_simpl(rng, rng.randint(min(2, cs), cs), plain=True)
        inner["ops"] = inner["ops"][:rng.randint(2, 6)]
        for _ in range(4):
            ms = gen_mapping(rng, left, inner)
            if ms["form"] not in ("int", "named"):
                break
        if ms["form"] == "named":
            ms = {"form": "dict", "items": ms["items"]}
        steps.append({"right": inner, "map": ms, "keep_port": True})
    return {"kind": "scn", "scn": {"left": left, "steps": steps}, "family": "nested"}


def gen_scenario_simpl(rng, max_cs):
    """left processor of >= 3 modes (sometimes ending with a PERM, which the composition merges with the PERM of the
    mapping), then 1-2 adds of simplifier-engaging processors through any kind of mapping"""
    for _ in range(8):
        cs = rng.randint(3, max_cs)
        names = NAMES[:]
        rng.shuffle(names)
        ops = [{"op": "add", "at": off, "leaf": leaf} for off, leaf in gen_ops(rng, cs, rng.randint(0, 3))]
        if rng.random() < 0.35:
            w = rng.randint(3, cs)
            ops.append({"op": "add", "at": rng.randint(0, cs - w), "leaf": {"t": "PERM", "perm": gen_perm_asym(rng, w)}})
        extra, _ = gen_extras(rng, cs, 1, names, allow_ps=rng.random() < 0.3) if rng.random() < 0.5 else ([], None)
        left = {"cs": cs, "ops": ops + extra}
        if len(left_shape(left)) >= 3:
            break
    else:
        left = {"cs": cs, "ops": ops}
    n_conn = len(left_shape(left))
    steps = []
    for i in range(rng.choice([1, 1, 2])):
        mk = gen_right_nested if rng.random() < 0.25 else gen_right_simpl
        right = mk(rng, min(n_conn, 5))
        steps.append({"right": right, "map": gen_mapping(rng, left, right), "keep_port": rng.random() < 0.8,
                      "reuse": False})
    return {"left": left, "steps": steps}


def gen_scenario(rng, max_cs, malformed=False):
    left = gen_left(rng, max_cs)
    n_conn = len(left_shape(left))
    steps = []
    n_steps = rng.choice([1, 1, 2, 3])
    bad_step = rng.randrange(n_steps) if malformed else -1     # the illegal mapping may come at any point of the history
    for i in range(n_steps):
        right = gen_right(rng, max(1, min(n_conn, 4)))
        shape = evolved_shape(left, steps)
        ms = gen_mapping(rng, left, right, malformed=(i == bad_step), shape=shape)
        steps.append({"right": right, "map": ms, "keep_port": rng.random() < 0.8,
                      "reuse": i > 0 and rng.random() < 0.3})
        if i > 0 and steps[-1]["reuse"]:
            # the same Port object cannot sit at two places of one processor: reuse only port-free objects
            if "extra" in steps[-2]["right"]:
                steps[-2]["right"]["extra"] = [e for e in steps[-2]["right"]["extra"] if e["op"] != "port"]
                steps[-2]["right"]["at"] = steps[-2]["right"]["at"][:len(steps[-2]["right"]["extra"])]
            steps[-1]["right"] = steps[-2]["right"]
            n, hs = right_shape(steps[-1]["right"])
            steps[-1]["map"] = gen_mapping(rng, left, steps[-1]["right"], malformed=(i == bad_step), shape=shape)
    return {"left": left, "steps": steps}


def gen_scenario_histright(rng, max_cs):
    """extension 5: a left processor and 1-2 adds whose right-hand side is a processor built by a LIFE of public calls
    (heralds declared at any time, ports added and removed — herald ports on the input side included —, components and
    heralded processors added), kept only when it is a well-formed processor (m = circuit_size - #heralds: no herald
    port taken off the output side); every mapping syntax, ~12% malformed.  Judged like any other scenario (wiring,
    unitary, heralds, detectors, ports)."""
    for _ in range(20):
        left = gen_left(rng, max_cs)
        if len(left_shape(left)) >= 1:
            break
    steps = []
    for i in range(rng.randint(1, 2)):
        shape = evolved_shape(left, steps)
        right = None
        for _ in range(12):
            sub = gen_history(rng, nest=0.25, inner=True)
            life = sub["hist"]
            if sub["out_removed"] or any(o["op"] == "det" for o in life["ops"]):
                continue
            try:
                obj = hist_realize(life)[0]
                o = observe_right(obj)
            except Exception:  # noqa: GenInvalid or a port past the last mode
                continue
            if o["in_names"] is None or o["out_names"] is None:
                continue
            if real_right_wf(o) and 1 <= o["m"] <= max(1, len(shape[1])) and obj.post_select_fn is None:
                right = {"kind": "hist", "hist": life, "shape": [int(obj.m), [h[0] for h in o["heralds"]]]}
                break
        if right is None:
            raise GenInvalid("no well-formed life found")
        ms = gen_mapping(rng, left, right, malformed=rng.random() < 0.12, shape=shape)
        steps.append({"right": right, "map": ms, "keep_port": rng.random() < 0.8})
    return {"left": left, "steps": steps}


def gen_scenario_reserved(rng, max_cs):
    """a long-lived processor: a left processor (heralds / detectors declared or not), 1-2 legal adds of which at
    least one imports heralded modes, then 1-3 adds — components, circuits, processors, through every mapping syntax —
    that reach a mode reserved by that history (mostly an imported herald mode), interleaved with legal ones.  Each
    illegal add must be refused and leave the processor as it was; the scenario goes on after a refusal."""
    for _ in range(20):
        left = gen_left(rng, max_cs)
        if len(left_shape(left)) >= 1:
            break
    n_conn = len(left_shape(left))
    steps = []
    for i in range(rng.choice([1, 1, 2])):
        right = None
        for _ in range(30):
            right = gen_right(rng, max(1, min(n_conn, 3)), want=("proc" if i == 0 else None))
            n, hs = right_shape(right)
            if n <= n_conn and (i > 0 or hs):
                break
        # no left post-selection games here: drop a right post-selection that could be refused for other reasons
        steps.append({"right": right, "map": gen_mapping(rng, left, right, shape=evolved_shape(left, steps)),
                      "keep_port": rng.random() < 0.8, "reuse": False})
    for j in range(rng.choice([1, 2, 2, 3])):
        shape = evolved_shape(left, steps)
        right = gen_right(rng, max(1, min(n_conn, 3)))
        if rng.random() < 0.25 and j > 0:
            ms = gen_mapping(rng, left, right, shape=shape)              # a legal add in between
        else:
            ms = gen_reserved_mapping(rng, shape, right) or gen_mapping(rng, left, right, malformed=True, shape=shape)
        steps.append({"right": right, "map": ms, "keep_port": rng.random() < 0.8, "reuse": False})
    return {"left": left, "steps": steps}


# ------------------------------------------------------------------------------------------------
# bookkeeping
# ------------------------------------------------------------------------------------------------
def resolve_named(scn, rng_seed):
    """`named` mappings need the real port names: resolve them deterministically at run time"""
    return scn


class Runner:
    def __init__(self, chk):
        self.chk = chk
        self.shrunk = []

    def ask(self, req):
        if isinstance(req, list):
            return self.chk.lean.ask_many(req)
        return self.chk.lean.ask(req)

    def on_step(self, i, st, L, info):
        chk = self.chk
        R = info.get("R")
        if R is None:
            return
        ms = st["map"]
        chk.count("mapping_form", ms["form"])
        chk.count("left_cs", L["cs"])
        chk.count("right_kind", st["right"]["kind"] + ("+heralds" if R["heralds"] else ""))
        chk.branch("form-" + ms["form"])
        if st["right"]["kind"] == "hist":
            chk.branch("right-life")
            if R["heralds"]:
                chk.branch("right-life-heralds")
                if "err" not in info and info.get("legal"):
                    chk.branch("right-life-heralds-accepted")
            if len(ports_of_side(R, "inp")) != len(ports_of_side(R, "outp")):
                chk.branch("right-life-herald-input-port-removed")
        if ms["form"] == "dict" and any(isinstance(k, str) for k, _ in ms["items"]):
            chk.branch("port-names")
        if ms["form"] == "dict":
            for k, v in ms["items"]:
                chk.branch("dict-" + item_form(k, v))
            if st.get("fault"):
                chk.branch("dictfault-" + st["fault"])
                chk.count("dict_fault_outcome", f"{st['fault']}/{'comp' if R['comp'] else 'proc'}/"
                                                f"{info.get('err', 'ACCEPTED')}")
            if info.get("unjudged"):
                chk.branch("dict-left-mode-twice")
        if info.get("err") == "RuntimeError":
            chk.branch("ps-runtime-refused")
        if L.get("after_rejection"):
            chk.branch("continued-after-rejection")
        # mappings that reach a reserved mode of the processor as its history left it
        hm = {h[0] for h in L["heralds"]}
        hit = [k for k in named_left_modes(ms, L, R) if 0 <= k < L["cs"] and not L["avail"][k]]
        if hit:
            kinds = set()
            for k in hit:
                if k in hm:
                    kinds.add("imported-herald" if k >= L.get("cs0", L["cs"]) else "declared-herald")
                else:
                    kinds.add("detector-mode")
            only = intended_mapping(dict(L, avail=[True] * L["cs"]), R, ms) is not None
            for kd in kinds:
                chk.branch("probe-" + kd)
                if only:
                    chk.branch("probe-" + kd + "-only-fault")
                chk.count("reserved_probe", f"{kd}/{ms['form']}/{'comp' if R['comp'] else 'proc'}/"
                                            f"{'only-fault' if only else 'other-faults-too'}/"
                                            f"{info.get('err', 'ACCEPTED')}")
        if "err" in info:
            chk.branch("rejected")
            chk.count("reject_class", info["err"])
        else:
            rep = info.get("rep", {})
            if rep.get("perm") is not None:
                chk.branch("perm-needed")
                if rep.get("min", 0) > 0:
                    chk.branch("perm-at-offset")
            else:
                chk.branch("no-perm")
            if R["heralds"]:
                chk.branch("right-heralds")
                if [h[0] for h in R["heralds"]] != sorted(h[0] for h in R["heralds"]):
                    chk.branch("right-heralds-unsorted")
            if L["heralds"]:
                chk.branch("left-heralds")
            if R["comp"]:
                chk.branch("bare-component")
            else:
                chk.branch("processor")
            if R["has_ps"]:
                chk.branch("right-postselect")
            if i > 0:
                chk.branch("second-composition")
            if st.get("reuse") and i > 0:
                chk.branch("same-object-twice")
            if any(d is not None for d in R["dets"]):
                chk.branch("herald-detectors")
            if not R["comp"] and "after" in info and rep.get("full") is not None:
                # what became of the non-herald ports of the added processor
                after = info["after"]
                inv = {v: k for k, v in rep["full"]}
                for side in ("inp", "outp"):
                    for x in R[side]:
                        if x[3]:
                            continue
                        img = [inv.get(x[0] + j) for j in range(x[1])]
                        if None in img or img != list(range(img[0], img[0] + x[1])):
                            chk.branch(f"port-{side}-dropped-crossed")
                        elif any(q[0] == img[0] and q[1] == x[1] and q[2] == x[2] for q in after[side]):
                            chk.branch(f"port-{side}-reattached")
                        else:
                            chk.branch(f"port-{side}-dropped-occupied")
                if R["heralds"]:
                    chk.branch("herald-input-port")
                if R["has_ps"] and L.get("has_ps"):
                    chk.branch("ps-merged")
            if not R["comp"] and "after" in info:
                # which rewriting rules of the automatic simplification the inserted segment can trigger
                if st["right"]["kind"] == "scn":
                    chk.branch("nested-right")
                shapes = segment_shapes(inserted_segment(L, R, rep), L["cs"] + len(R["heralds"]))
                for sh in shapes:
                    chk.branch(sh)
                lc = L.get("clist") or []
                if rep.get("perm") is not None and lc and lc[-1][1] == "PERM":
                    chk.branch("left-trailing-perm-merged")
                chk.count("simplifier_shapes", ",".join(sorted(x[5:] for x in shapes)) or "none")


def named_left_modes(ms, L, R):
    """left modes a raw mapping names (before any legality check)"""
    f = ms["form"]
    if f == "int":
        return [ms["v"] + i for i in range(R["m"])] if isinstance(ms["v"], int) else []
    if f in ("list", "tuple"):
        return [k for k in ms["v"] if isinstance(k, int)]
    out = []
    for k, _ in ms.get("items", []):
        if isinstance(k, int):
            out.append(k)
        elif isinstance(k, str):
            out += port_modes(L.get("raw_out_names"), k) or []
    return out


def finalize_named(scn, rng):
    """turn `named` mapping placeholders into real dict mappings using the objects' port names"""
    return scn


def prepare(scn, rng):
    """resolve `named` mappings: needs the state of the left processor at that step, so run the real code once
    on a throw-away copy (no comparison), falling back to an int dict when a step fails."""
    if not any(st["map"]["form"] in ("named", "forms") for st in scn["steps"]):
        return scn
    scn = copy.deepcopy(scn)
    try:
        p = build_left(scn["left"])
        for st in scn["steps"]:
            right = build_right(st["right"])
            if st["map"]["form"] == "named":
                L, R = observe_proc(p), observe_right(right)
                st["map"] = {"form": "dict", "items": name_items(st["map"]["items"], L, R, rng)}
            elif st["map"]["form"] == "forms":
                L, R = observe_proc(p), observe_right(right)
                items, done = dict_forms(st["map"]["items"], L, R, rng, st["map"].get("fault"))
                st["map"] = {"form": "dict", "items": items}
                st["fault"] = done
            try:
                p.add(py_mapping(st["map"]), right, keep_port=st.get("keep_port", True))
            except Exception as e:
                if type(e).__name__ not in RESOLVE_ERRS:   # a clean refusal leaves the processor usable
                    raise
    except Exception:
        pass
    for st in scn["steps"]:
        if st["map"]["form"] in ("named", "forms"):
            st["map"] = {"form": "dict", "items": st["map"]["items"]}
    return scn


def sig_of(scn):
    out = [scn["left"]["cs"], len(scn["left"]["ops"])]
    for st in scn["steps"]:
        n, hs = right_shape(st["right"])
        ms = st["map"]
        out.append((st["right"]["kind"], n, tuple(hs), ms["form"],
                    json.dumps(ms.get("v", ms.get("items")), sort_keys=True)))
    return json.dumps(out)


def nontrivial(scn):
    """at least one step with a non-monotone or gapped mapping onto a multi-component / heralded right side"""
    for st in scn["steps"]:
        ms = st["map"]
        keys = ms["v"] if ms["form"] in ("list", "tuple") else ([k for k, _ in ms["items"]] if "items" in ms else None)
        if not isinstance(keys, list) or not all(isinstance(k, int) for k in keys) or len(keys) < 2:
            continue
        if keys != list(range(keys[0], keys[0] + len(keys))):
            return True
    return False


def shrink(scn, fails):
    cur = copy.deepcopy(scn)
    budget = 120

    def attempt(c):
        nonlocal budget
        budget -= 1
        try:
            return fails(c)
        except Exception:
            return False

    changed = True
    while changed and budget > 0:
        changed = False
        cands = []
        if len(cur["steps"]) > 1:
            for i in range(len(cur["steps"])):
                c = copy.deepcopy(cur); del c["steps"][i]; cands.append(c)
        for i in range(len(cur["left"]["ops"])):
            c = copy.deepcopy(cur); del c["left"]["ops"][i]; cands.append(c)
        for si, st in enumerate(cur["steps"]):
            r = st["right"]
            for key in ("ops", "extra"):
                for i in range(len(r.get(key, []))):
                    if key == "ops" and len(r["ops"]) == 1:
                        continue
                    if key == "extra" and r["extra"][i]["op"] == "herald":
                        continue   # would change the mapping's meaning
                    c = copy.deepcopy(cur); del c["steps"][si]["right"][key][i]
                    if key == "extra" and r["extra"][i]["op"] == "ps":
                        c["steps"][si]["right"]["ps_ast"] = None
                    cands.append(c)
        for c in cands:
            if budget <= 0:
                break
            if attempt(c):
                cur = c
                changed = True
                break
    return cur


def handle(chk, runner, scn, record=True):
    if "hist" in scn:
        return handle_history(chk, runner, scn, record)

    def fails_with(sig):
        def f(c):
            r = run_scenario(c, runner.ask)
            return r is not None and r[1] == sig
        return f
    res = run_scenario(scn, runner.ask, runner.on_step if record else None)
    if record:
        chk.case(sig_of(scn), nontrivial=nontrivial(scn),
                 sample={"left_cs": scn["left"]["cs"],
                         "steps": [(st["right"]["kind"], st["map"].get("v", st["map"].get("items"))) for st in scn["steps"]]})
    if res is not None:
        kind, sig, what = res
        seen = runner.shrunk
        if [kind, sig] in seen:      # one minimised replay per defect is reported; do not minimise it again
            chk.fail(kind, sig, what, {"scenario": scn})
            return res
        seen.append([kind, sig])
        small = shrink(scn, fails_with(sig))
        r2 = run_scenario(small, runner.ask)
        chk.fail(kind, sig, (r2[2] if r2 is not None and r2[1] == sig else what), {"scenario": small})
    return res


# ------------------------------------------------------------------------------------------------
# exhaustive part: every injective mapping on at most 4 left modes
# ------------------------------------------------------------------------------------------------
def exhaustive_scenarios(rng, max_cs):
    for cs in range(1, max_cs + 1):
        for n in range(1, cs + 1):
            for keys in itertools.permutations(range(cs), n):
                keys = list(keys)
                # a bare component, a herald-free processor and processors with 1..2 heralds at varying positions
                variants = [("leaf", []), ("proc", [])]
                hsets = [[h] for h in range(n + 1)] + [[0, n + 1], [n + 1, 0], [1, n]]
                hs = hsets[rng.randrange(len(hsets))]
                variants.append(("proc", hs))
                variants.append(("proc", hsets[rng.randrange(len(hsets))]))
                if n >= 2:
                    variants.append(("simpl", hsets[rng.randrange(len(hsets))] if rng.random() < 0.3 else []))
                for kind, hs in variants:
                    rcs = n + len(hs)
                    hs = [h for h in hs if h < rcs]
                    hs = list(dict.fromkeys(hs))
                    rcs = n + len(hs)
                    if kind == "leaf":
                        right = {"kind": "circ", "m": n, "ops": gen_ops(rng, n, 2, ("BS", "PS", "UH", "PERM"))}
                    elif kind == "simpl":
                        extra = [{"op": "herald", "mode": h, "exp": rng.randint(0, 1), "name": None} for h in hs]
                        ops = gen_ops_simpl(rng, rcs)
                        right = {"kind": "proc", "cs": rcs, "whole": False, "ops": ops, "extra": extra,
                                 "at": [rng.randint(0, len(ops)) for _ in extra], "ps_ast": None, "family": "simpl"}
                    else:
                        extra = [{"op": "herald", "mode": h, "exp": rng.randint(0, 1), "name": None} for h in hs]
                        rm = [x for x in range(rcs) if x not in hs]
                        ps = gen_ps(rng, rm, 1) if rng.random() < 0.5 else None
                        if ps is not None:
                            extra.append({"op": "ps", "ps": ps})
                        right = {"kind": "proc", "cs": rcs, "whole": rng.random() < 0.5,
                                 "ops": gen_ops(rng, rcs, 2, ("BS", "PS", "UH", "PERM")), "extra": extra,
                                 "at": [rng.randint(0, 2) for _ in extra], "ps_ast": ps}
                    left = {"cs": cs, "ops": [{"op": "add", "at": off, "leaf": leaf}
                                              for off, leaf in gen_ops(rng, cs, 1, ("UH", "PERM"))]}
                    form = rng.choice(["list", "dict"])
                    rm = [x for x in range(rcs) if x not in hs]
                    ms = {"form": "list", "v": keys} if form == "list" else \
                        {"form": "dict", "items": [[k, rm[i]] for i, k in enumerate(keys)]}
                    yield {"left": left, "steps": [{"right": right, "map": ms, "keep_port": True}]}



# ------------------------------------------------------------------------------------------------
# extension 3: the life of a processor (Model/C10Hist.lean) — construction, add_herald / add_port / remove_port /
# add(mode, Detector) / add(mapping, obj) in any order, compared call by call with the model's state machine
# ------------------------------------------------------------------------------------------------
SIG_M0 = "add-all-modes-heralded-resets-mode-count"
HIST_SIZES = {"RAW": 1, "DUAL_RAIL": 2}


def observe_hist(p):
    """public bookkeeping of a processor (no matrix): raises if a public accessor raises"""
    cs = p.circuit_size
    span = cs + 3
    o = {"m": p.m, "cs": cs,
         "conn": [bool(p.experiment.is_mode_connectible(k)) for k in range(cs)],
         "heralds": [[int(k), int(v)] for k, v in p.heralds.items()],
         "dets": [det_name(d) for d in p.detectors]}
    for side, getter in (("inp", p.get_input_port), ("outp", p.get_output_port)):
        o[side] = sorted([x[0], x[1], canon_name(x[2]), x[3], x[4]] for x in ports_of(p, getter, span))
    for key, attr in (("in_names", "in_port_names"), ("out_names", "out_port_names")):
        try:
            o[key] = [canon_name(n) for n in getattr(p, attr)]
        except IndexError:
            o[key] = None
    return o


def hist_apply(p, op):
    import perceval as pcvl
    from perceval.components import Port, PortLocation
    from perceval.utils import Encoding
    k = op["op"]
    if k == "herald":
        p.add_herald(op["mode"], op["exp"], op.get("name"))
    elif k == "port":
        p.add_port(op["mode"], Port(Encoding[op["enc"]], op["name"]), PortLocation[op["loc"]])
    elif k == "rmport":
        p.remove_port(op["mode"], PortLocation[op["loc"]])
    elif k == "det":
        p.add(op["mode"], pcvl.Detector.threshold() if op["kind"] == "threshold" else pcvl.Detector.pnr())
    elif k == "add":
        p.add(py_mapping(op["map"]), op["_obj"], keep_port=op.get("keep_port", True))
    else:
        raise ValueError(k)


def hist_lean_op(op, R):
    k = op["op"]
    if k == "herald":
        return {"op": "herald", "mode": op["mode"], "exp": op["exp"], "name": op.get("name")}
    if k == "port":
        return {"op": "port", "mode": op["mode"], "size": HIST_SIZES[op["enc"]], "name": op["name"], "loc": op["loc"]}
    if k == "rmport":
        return {"op": "rmport", "mode": op["mode"], "loc": op["loc"]}
    if k == "det":
        return {"op": "det", "mode": op["mode"], "name": "threshold" if op["kind"] == "threshold" else "pnr"}
    rps = op["right"].get("ps_ast") if op["right"]["kind"] == "proc" else None
    side = {"comp": R["comp"], "m": R["m"], "cs": R["cs"], "conn": R.get("conn", [True] * R["cs"]),
            "heralds": R["heralds"], "dets": R["dets"], "outp": R["outp"], "inp": R["inp"],
            "out_names": R.get("raw_out_names") or [], "in_names": R.get("raw_in_names") or [], "ps": rps}
    return {"op": "add", "right": side, "map": op["map"], "keep_port": op.get("keep_port", True)}


def ports_of_side(R, side):
    return [x for x in R.get(side, []) if x[3]]


def hist_right(op):
    """-> (real object to add, its observed public state, the model's description of it) for one add of a life.
    A right-hand side that is itself a life (kind 'hist') is described to the model BY THAT LIFE: the model runs it and
    reads the processor through Exp.side (addHist), nothing observed on the real object is handed over."""
    spec = op["right"]
    if spec["kind"] == "hist":
        obj, inner = hist_realize(spec["hist"])
        try:
            R = observe_right(obj)
        except Exception as e:  # noqa: judged by the life's own case
            raise GenInvalid(f"nested life cannot be observed: {type(e).__name__}") from e
        return obj, R, {"op": "add", "right_hist": {"m": spec["hist"]["m"], "ops": inner}, "map": op["map"],
                        "keep_port": op.get("keep_port", True)}
    try:
        obj = build_right(spec)
        R = observe_right(obj)
    except GenInvalid:
        raise
    except Exception as e:  # noqa
        raise GenInvalid(f"right-hand side cannot be built: {type(e).__name__}") from e
    if R.get("has_ps") and spec.get("ps_ast") is None:
        raise GenInvalid("right post-selection without a known AST")
    return obj, R, hist_lean_op(op, R)


def hist_realize(h):
    """runs a whole life on the real code; -> (processor, the same calls for the model).  Every call must succeed
    (a failing call inside a nested life invalidates the outer case: failing calls are the business of the life's
    own case in the history family)"""
    import perceval as pcvl
    try:
        p = pcvl.Processor("SLOS", h["m"]) if h["m"] is not None else pcvl.Processor("SLOS")
    except Exception as e:  # noqa
        raise GenInvalid(f"nested life: construction raised {type(e).__name__}") from e
    lean_ops = []
    for op in h["ops"]:
        if op["op"] == "add":
            obj, _, lop = hist_right(op)
        else:
            obj, lop = None, hist_lean_op(op, None)
        try:
            hist_apply(p, dict(op, _obj=obj))
        except Exception as e:  # noqa
            raise GenInvalid(f"nested life: {op['op']} raised {type(e).__name__}") from e
        lean_ops.append(lop)
    return p, lean_ops


def real_right_wf(o):
    """RightWF judged on the public state: herald positions inside the circuit (a dictionary: distinct by
    construction) and m + #heralds = circuit_size (m read as max(m, 0): the model's Side.m is a natural number)"""
    return all(0 <= k < o["cs"] for k, _ in o["heralds"]) and max(o["m"], 0) + len(o["heralds"]) == o["cs"]


def hist_model_state(st):
    out = {"m": st["m"], "cs": st["cs"], "conn": st["conn"], "heralds": st["heralds"],
           "dets": hist_det_canon(st),
           "in_names": st["in_names"], "out_names": st["out_names"]}
    for side in ("inp", "outp"):
        out[side] = sorted([x[0], x[1], canon_name(x[2]), x[3], x[4]] for x in st[side])
    return out


def hist_det_canon(o):
    """detector names: the real objects are named by their class/name, the model by the kind asked for"""
    return [None if d is None else ("threshold" if "hreshold" in d else "pnr") for d in o["dets"]]


def run_history(scn, ask, on_event=None):
    """-> failure tuple (kind, sig, what) or None.  One case = one processor life."""
    import perceval as pcvl
    h = scn["hist"]
    ev = on_event or (lambda *_: None)
    try:
        p = pcvl.Processor("SLOS", h["m"]) if h["m"] is not None else pcvl.Processor("SLOS")
    except Exception as e:  # noqa
        return ("broken", "hist-construction", f"Processor('SLOS', {h['m']}) raised {type(e).__name__}: {e}")
    ops, lean_ops, objs = h["ops"], [], []
    # the objects to add are built (and observed) first: the model needs their public state
    for op in ops:
        if op["op"] == "add":
            obj, R, lop = hist_right(op)
            if op["right"]["kind"] == "hist":
                # does the nested life keep its herald ports on the output side?  (the model's own predicate)
                inner = ask({"op": "hist", "fix_m0": True, "m": op["right"]["hist"]["m"], "ops": lop["right_hist"]["ops"]})
                if "trace" not in inner or "err" in inner["trace"][-1]:
                    return ("broken", "hist-nested-model-fails",
                            f"a nested life every call of which the real code accepted is refused by the model: "
                            f"{str(inner)[:200]} ; life: {describe_hist(op['right']['hist'], 99)}")
                R = dict(R, keeps=bool(inner.get("keeps_herald_out")), model_side=inner["trace"][-1])
            objs.append((obj, R))
            lean_ops.append(lop)
        else:
            objs.append((None, None))
            lean_ops.append(hist_lean_op(op, None))
    rep = ask({"op": "hist", "fix_m0": True, "m": h["m"], "ops": lean_ops})
    if "trace" not in rep:
        return ("broken", "hist-driver", f"the driver refused the history: {rep}")
    trace = rep["trace"]
    try:
        cur = observe_hist(p)
    except Exception as e:  # noqa
        return ("broken", "hist-observe", f"a fresh processor cannot be observed: {type(e).__name__}: {e}")

    def diff(real, model, when):
        real = dict(real, dets=hist_det_canon(real))
        mod = hist_model_state(model)
        for key in ("m", "cs", "conn", "heralds", "dets", "inp", "outp", "in_names", "out_names"):
            if real[key] != mod[key]:
                return ("broken", "hist-state-" + key,
                        f"{when}: {key} of the real processor is {real[key]}, the model of the bookkeeping says {mod[key]}")
        if "right_wf" in model and real_right_wf(real) != model["right_wf"]:
            return ("broken", "hist-state-right_wf",
                    f"{when}: m={real['m']}, circuit_size={real['cs']}, heralds={real['heralds']}: well-formed as an added "
                    f"processor = {real_right_wf(real)}, the model's RightWF says {model['right_wf']}")
        ev("rightwf-" + str(real_right_wf(real)).lower())
        return None

    bad = diff(cur, trace[0], "after construction")
    if bad:
        return bad
    for i, op in enumerate(ops):
        when = f"after call {i} ({op['op']}) of {describe_hist(h, i)}"
        obj, R = objs[i]
        before = cur
        nested = op["op"] == "add" and op["right"]["kind"] == "hist"
        # a nested life that took a herald port off its output side is not a well-formed processor (m != circuit_size
        # - #heralds): the property does not say what adding it means; model and code are compared, nothing is judged
        judged = not nested or R["keeps"]
        if nested:
            try:
                bad = diff(observe_hist(obj), R["model_side"], f"nested life {describe_hist(op['right']['hist'], 99)}")
            except Exception as e:  # noqa
                raise GenInvalid(f"nested life cannot be observed: {type(e).__name__}") from e
            if bad:
                return bad
            ev("add-hist")
            ev("add-hist-keeps" if R["keeps"] else "add-hist-herald-out-removed")
            if R["keeps"] and not real_right_wf(R):
                return ("broken", "hist-rightwf-theorem",
                        f"{when}: the nested life keeps its herald ports yet m={R['m']}, circuit_size={R['cs']}, "
                        f"heralds={R['heralds']} (history_right_wf says this cannot happen in the model)")
            if R["heralds"]:
                ev("add-hist-heralds")
        reserved = {x[0] for x in before["heralds"]} | {k for k, d in enumerate(before["dets"]) if d is not None}
        err = None
        try:
            hist_apply(p, dict(op, _obj=obj))
        except Exception as e:  # noqa: the class is the observable
            err = type(e).__name__
        ev("op-" + op["op"])
        if op["op"] == "add":
            ev("add-" + ("comp" if R["comp"] else "proc") + ("-m0" if before["m"] == 0 and before["cs"] > 0 else "")
               + ("-unset" if before["cs"] == 0 else ""))
        model = trace[i + 1] if i + 1 < len(trace) else None
        if not judged:
            # the added processor lost a herald port on its output side: m != circuit_size - #heralds, ports may cover
            # modes that are neither mapped nor listed as heralds (the port loop of _compose_experiment then dies with
            # ValueError after having changed the processor).  Outside the property and outside the model: the life of
            # the added processor was compared above (state and RightWF = false); the add itself is only counted.
            ev("add-hist-malformed-" + ("accepted" if err is None else err))
            return None
        if op["op"] == "det" and before["m"] == 0 and before["cs"] > 0:
            # a detector on a mode of a processor all of whose modes are heralds: accepted or not, the call must not
            # change the number of modes, the heralds or the availability of any mode
            try:
                now = observe_hist(p)
            except Exception as e:  # noqa
                now = f"unobservable ({type(e).__name__})"
            if isinstance(now, str) or any(now[k] != before[k] for k in ("m", "cs", "conn", "heralds")):
                chg = now if isinstance(now, str) else {k: (before[k], now[k]) for k in ("m", "cs", "conn", "heralds")
                                                         if before[k] != now[k]}
                return ("violation", SIG_M0,
                        f"{when}: all {before['cs']} modes are heralds (m = 0); add({op['mode']}, Detector) "
                        f"({'accepted' if err is None else err}) changed the processor: {chg}")
        if op["op"] == "add" and before["m"] == 0 and before["cs"] > 0:
            # every mode of the processor is a herald: no mode is available, so the add must be refused and, like any
            # refused add, leave the processor as it was (judged on the real code alone)
            try:
                now = observe_hist(p)
            except Exception as e:  # noqa
                now = f"unobservable ({type(e).__name__})"
            if err is None:
                return ("violation", SIG_M0,
                        f"{when}: all {before['cs']} modes are heralds ({before['heralds']}, m = 0), no mode is available, "
                        f"yet the add is accepted; the processor is now {now if isinstance(now, str) else {k: now[k] for k in ('m', 'cs', 'conn', 'heralds')}}")
            if now != before:
                chg = now if isinstance(now, str) else {k: (before[k], now[k]) for k in before if before[k] != now[k]}
                return ("violation", SIG_M0,
                        f"{when}: all {before['cs']} modes are heralds (m = 0); the add is refused ({err}) but the "
                        f"processor was changed by the refused call: {chg}")
        if err is not None:
            ev("hist-error-" + err)
            if model is None or model.get("err") != err:
                # a refusal the model does not predict: is the call legal by the property's reading?
                return ("broken", "hist-error-class",
                        f"{when}: the real call raised {err}, the model says "
                        f"{model.get('err', 'accepted') if model else 'nothing (ended earlier)'}")
            return None
        # ---- accepted by the real code: judged directly first (independent of the model)
        try:
            cur = observe_hist(p)
        except Exception as e:  # noqa
            return ("violation", "hist-unusable-after-accepted-call",
                    f"{when}: the call was accepted but the processor cannot be observed any more "
                    f"({type(e).__name__}: {str(e)[:100]}); before: m={before['m']}, circuit_size={before['cs']}, "
                    f"heralds={before['heralds']}")
        if op["op"] == "add":
            named = named_left_modes(op["map"], before, R)
            hit = sorted(k for k in named if k in reserved)
            if hit:
                return ("violation", "add-on-reserved-mode-accepted" + ("-m0" if before["m"] == 0 else ""),
                        f"{when}: Processor.add({py_mapping(op['map'])}, …) names mode(s) {hit}, reserved by heralds "
                        f"{before['heralds']} / detectors {before['dets']} (m = {before['m']}), yet it is accepted")
            want_cs = before["cs"] + len(R["heralds"]) if before["cs"] > 0 else None
            if want_cs is not None and cur["cs"] != want_cs:
                return ("violation", "hist-circuit-size",
                        f"{when}: circuit_size went from {before['cs']} to {cur['cs']} although the added object brings "
                        f"{len(R['heralds'])} heralded modes")
        elif op["op"] != "add" and cur["cs"] != before["cs"] and before["cs"] > 0:
            return ("violation", "hist-circuit-size", f"{when}: circuit_size changed from {before['cs']} to {cur['cs']}")
        for hm, _ in cur["heralds"]:
            if hm < len(cur["conn"]) and cur["conn"][hm]:
                return ("violation", "herald-mode-connectible",
                        f"{when}: mode {hm} is listed in heralds {cur['heralds']} but is_mode_connectible({hm}) is True")
        if model is None or "err" in model:
            return ("broken", "hist-error-class",
                    f"{when}: accepted by the real code, the model says {model.get('err') if model else 'nothing'}")
        bad = diff(cur, model, when)
        if bad:
            return bad
        if cur["m"] == 0 and cur["cs"] > 0:
            ev("hist-all-heralded")
        if nested:
            ev("add-hist-accepted")
    ev("hist-completed")
    return None


def describe_hist(h, upto):
    def d(op):
        if op["op"] == "add":
            return f"add({py_mapping(op['map'])}, {op['right']['kind']})"
        return op["op"] + "(" + ",".join(str(op[k]) for k in ("mode", "exp", "enc", "loc", "kind") if k in op) + ")"
    return f"Processor('SLOS'{'' if h['m'] is None else ', ' + str(h['m'])}) ; " + " ; ".join(d(o) for o in h["ops"][:upto + 1])


def gen_history(rng, nest=0.0, inner=False, lead=False):
    """a processor life: mostly legal calls (a shadow of the expected state steers the choice), ~15% arbitrary ones;
    ~30% of the lives declare EVERY mode a herald before going on.  `nest` = probability that an add brings a processor
    that is itself a life (extension 5); `inner` = such a nested life: legal calls only, 2-3 modes, at least one herald
    most of the time, and remove_port aimed at herald ports (any location) a third of the time"""
    m0 = None if (rng.random() < 0.1 and not inner) else rng.randint(1, 4)
    if inner:
        m0 = rng.randint(2, 3)
    cs = m0 or 0
    her, det, pin, pout = set(), set(), {}, {}
    names = [("n" if inner else "") + x for x in NAMES]
    rng.shuffle(names)
    ops = []
    out_removed = [False]      # a herald port was taken off the output side (or a malformed nested life was added)
    all_her = rng.random() < 0.3 and m0 is not None and not inner and not lead

    def free_modes():
        return [k for k in range(cs) if k not in her and k not in det]

    def add_op():
        nonlocal cs
        fm = free_modes()
        kind = rng.choice(["leaf", "leaf", "proc"])
        right = None
        if rng.random() < nest:
            sub = gen_history(rng, nest=nest / 3, inner=True)
            life = sub["hist"]
            try:
                obj = hist_realize(life)[0]
                observe_right(obj)
                # inside a nested life only well-formed lives are added (a malformed added processor leaves garbage
                # behind); at the top level a malformed nested life is allowed: its add is counted, not compared
                if 1 <= obj.m <= max(1, len(fm)) + 1 and not (inner and sub["out_removed"]):
                    right = {"kind": "hist", "hist": life, "shape": [int(obj.m), [int(k) for k in obj.heralds]]}
            except Exception:  # noqa: GenInvalid, or a life that cannot be observed
                right = None
        if right is not None:
            pass
        elif kind == "leaf":
            right = {"kind": "leaf", "leaf": gens.gen_leaf(rng, max(1, min(2, len(fm) or 2)), ("BS", "PS", "PERM"))}
        else:
            right = gen_right(rng, max(1, min(2, len(fm) or 1)), want="proc")
        n, hs = right_shape(right)
        if rng.random() < 0.15 or len(fm) < n:
            ms = rng.choice([{"form": "int", "v": rng.randint(0, max(0, cs))},
                             {"form": "list", "v": [rng.randint(0, max(0, cs)) for _ in range(n)]}])
        elif rng.random() < 0.5:
            starts = [b for b in range(cs) if all(b + i in fm for i in range(n))]
            ms = {"form": "int", "v": rng.choice(starts)} if starts else {"form": "list", "v": rng.sample(fm, n)}
        else:
            ms = {"form": "list", "v": rng.sample(fm, n)}
        ops.append({"op": "add", "right": right, "map": ms, "keep_port": rng.random() < 0.7})
        if cs == 0:   # the number of modes defaults from the first add
            cs = (n + ms["v"]) if ms["form"] == "int" else (max(ms["v"]) + 1 if ms["v"] else 0)
        for i in range(len(hs)):
            her.add(cs + i)
        cs += len(hs)

    if all_her:
        order = list(range(cs))
        rng.shuffle(order)
        for k in order:
            ops.append({"op": "herald", "mode": k, "exp": rng.randint(0, 1),
                        "name": None if rng.random() < 0.6 else "h" + str(k)})
            her.add(k)
    if inner and rng.random() < 0.8:
        k = rng.randrange(cs)
        ops.append({"op": "herald", "mode": k, "exp": rng.randint(0, 1), "name": None if rng.random() < 0.6 else "nh"})
        her.add(k)
        pin[k] = pout[k] = "H"
        if rng.random() < 0.3:      # the herald port taken off again, on either side or both
            loc = rng.choice(["INPUT", "OUTPUT", "IN_OUT"])
            out_removed[0] = out_removed[0] or loc != "INPUT"
            ops.append({"op": "rmport", "mode": k, "loc": loc})
            for tbl in ([pin] if loc == "INPUT" else [pout] if loc == "OUTPUT" else [pin, pout]):
                del tbl[k]
    if lead and cs > 0:
        add_op()
    for _ in range(rng.randint(1, 4 if (inner or lead) else 5)):
        r = rng.random()
        wild = rng.random() < (0.05 if lead else 0.15) and not inner
        if cs == 0 and not wild:
            if rng.random() < 0.5:
                k = rng.randint(0, 2)
                ops.append({"op": "det", "mode": k, "kind": rng.choice(["threshold", "pnr"])})
                cs = k + 1
                det.add(k)
            else:
                add_op()
            continue
        if r < 0.22:
            cands = [k for k in range(cs) if k not in pin and k not in pout and k not in her]
            if wild or not cands:
                k = rng.randint(0, cs + 1)
            else:
                k = rng.choice(cands)
            ops.append({"op": "herald", "mode": k, "exp": rng.randint(0, 1) if not (wild and rng.random() < 0.2) else 2,
                        "name": None if rng.random() < 0.6 else "h" + str(len(ops))})
            her.add(k)
            pin[k] = pout[k] = "H"
        elif r < 0.42 and names:
            enc = rng.choice(["RAW", "RAW", "DUAL_RAIL"])
            w = HIST_SIZES[enc]
            loc = rng.choice(["INPUT", "OUTPUT", "IN_OUT"])
            cands = [k for k in range(max(0, cs - w + 1))
                     if all((x not in pin or loc == "OUTPUT") and (x not in pout or loc == "INPUT") for x in range(k, k + w))]
            if inner and not cands:
                continue      # a nested life keeps its ports inside its circuit (see the manifest: port past the last mode)
            k = rng.randint(0, cs) if (wild or not cands) else rng.choice(cands)
            nm = names.pop()
            ops.append({"op": "port", "mode": k, "enc": enc, "name": nm, "loc": loc})
            for x in range(k, k + w):
                if loc != "OUTPUT":
                    pin[x] = nm
                if loc != "INPUT":
                    pout[x] = nm
        elif r < 0.55:
            both = [k for k in pin if k in pout and pin[k] != "H"]
            loc = rng.choice(["INPUT", "OUTPUT", "IN_OUT"])
            pool = both if loc == "IN_OUT" else [k for k in (pin if loc == "INPUT" else pout)
                                                 if (pin if loc == "INPUT" else pout)[k] != "H"]
            if rng.random() < (0.4 if inner else 0.12):
                tbls = {"INPUT": [pin], "OUTPUT": [pout], "IN_OUT": [pin, pout]}[loc]
                pool = [k for k in her if all(k in t for t in tbls)]      # removing a herald port: allowed by the code
            k = rng.randint(0, cs) if (wild or not pool) else rng.choice(sorted(pool))
            out_removed[0] = out_removed[0] or (k in her and loc != "INPUT")
            ops.append({"op": "rmport", "mode": k, "loc": loc})
            for tbl in ([pin] if loc == "INPUT" else [pout] if loc == "OUTPUT" else [pin, pout]):
                nm = tbl.get(k)
                for x in [x for x in tbl if tbl[x] == nm and nm is not None and abs(x - k) <= 1]:
                    del tbl[x]
        elif r < 0.68:
            fm = [k for k in range(cs) if k not in det]
            k = rng.randint(0, cs) if (wild or not fm) else rng.choice(fm)
            ops.append({"op": "det", "mode": k, "kind": rng.choice(["threshold", "pnr"])})
            det.add(k)
        else:
            add_op()
    if all_her and not any(o["op"] == "add" for o in ops):
        add_op()
    return {"hist": {"m": m0, "ops": ops}, "out_removed": out_removed[0]}


def hist_sig(scn):
    h = scn["hist"]
    return json.dumps([h["m"]] + [[o["op"], o.get("mode"), o.get("loc"),
                                   (json.dumps(o.get("map"), sort_keys=True) +
                                    (json.dumps(o["right"]["hist"], sort_keys=True) if o["right"]["kind"] == "hist" else ""))
                                   if o["op"] == "add" else None]
                                  for o in h["ops"]])


def shrink_history(scn, fails):
    cur = copy.deepcopy(scn)
    budget = 60
    changed = True
    while changed and budget > 0:
        changed = False
        for i in range(len(cur["hist"]["ops"])):
            c = copy.deepcopy(cur)
            del c["hist"]["ops"][i]
            budget -= 1
            try:
                ok = fails(c)
            except Exception:
                ok = False
            if ok:
                cur, changed = c, True
                break
    return cur


def handle_history(chk, runner, scn, record=True):
    def ev(name):
        if record:
            chk.branch(name)
    res = run_history(scn, runner.ask, ev)
    if record:
        h = scn["hist"]
        chk.case(hist_sig(scn), nontrivial=len(h["ops"]) >= 3 and any(o["op"] == "add" for o in h["ops"]),
                 sample={"m": h["m"], "ops": [o["op"] for o in h["ops"]]})
        chk.count("history_length", len(h["ops"]))
    if res is not None:
        kind, sig, what = res
        if [kind, sig] in runner.shrunk:
            chk.fail(kind, sig, what, {"scenario": scn})
            return res
        runner.shrunk.append([kind, sig])

        def fails(c):
            r = run_history(c, runner.ask)
            return r is not None and r[1] == sig
        small = shrink_history(scn, fails)
        r2 = run_history(small, runner.ask)
        chk.fail(kind, sig, (r2[2] if r2 is not None and r2[1] == sig else what), {"scenario": small})
    return res


# ------------------------------------------------------------------------------------------------
# wave 9: the verdict of Processor.add(mapping, component) in closed form, left post-selection included
# (Model/C10Verdict.lean: compVerdict; Props: add_component_closed)
# ------------------------------------------------------------------------------------------------
VERDICT_CLASSES = ("ok", "InvalidMappingException", "UnavailableModeException", "AssertionError")


def verdict_component(m, kind):
    import perceval as pcvl
    from perceval.components import BS, PS, PERM
    if kind == "leaf":
        return {1: lambda: PS(0.3), 2: lambda: BS.H(), 3: lambda: PERM([1, 2, 0])}[m]()
    c = pcvl.Circuit(m)
    c.add(0, PS(0.25))
    if m >= 2:
        c.add(m - 2, BS())
    return c


def gen_verdict(rng):
    cs = rng.randint(2, 6)
    modes = list(range(cs))
    heralds = []
    if rng.random() < 0.45:
        heralds = [[k, rng.randint(0, 1)] for k in sorted(rng.sample(modes, rng.randint(1, min(2, cs - 1))))]
    hm = {h[0] for h in heralds}
    free = [k for k in modes if k not in hm]
    dets = []
    if len(free) >= 2 and rng.random() < 0.3:
        dets = [rng.choice(free)]
    m = min(rng.choice([1, 1, 2, 2, 2, 3]), cs)
    if rng.random() < 0.5:
        b = rng.randint(-1, cs - m + 1) if rng.random() < 0.25 else rng.randint(0, cs - m)
        ms = {"form": "int", "v": b}
        keys = list(range(b, b + m))
    else:
        pool = [k for k in free if k not in dets]
        keys = rng.sample(pool, m) if (len(pool) >= m and rng.random() < 0.6) else rng.sample(modes, m)
        r = rng.random()
        if r < 0.12:
            keys = keys[:-1] if (len(keys) > 1 and rng.random() < 0.5) else keys + [rng.choice(modes)]
        elif r < 0.24 and len(keys) >= 2:
            keys[rng.randrange(len(keys))] = keys[0] if rng.random() < 0.5 else keys[-1]
        elif r < 0.34:
            keys[rng.randrange(len(keys))] = rng.choice([-1, cs, cs + 1])
        ms = {"form": rng.choice(["list", "list", "tuple"]), "v": keys}
    ps = None
    r = rng.random()
    inside = sorted({k for k in keys if 0 <= k < cs})
    if r < 0.3 and inside:
        # a condition on exactly the mapped modes (composable), possibly next to one on other modes
        ps = ["c", inside, rng.choice(["==", ">", "<", ">=", "<="]), rng.randint(0, 2)]
        others = [k for k in free if k not in inside]
        if others and rng.random() < 0.6:
            ps = [rng.choice(["&", "|", "^"]), ps, gen_ps(rng, others, 1)]
        if rng.random() < 0.2:
            ps = ["!", ps]
    elif r < 0.5 and inside and len(modes) > len(inside):
        # a condition on the mapped modes and one more
        extra = rng.choice([k for k in modes if k not in inside])
        ps = ["c", sorted(inside + [extra]), rng.choice(["==", ">=", "<"]), rng.randint(0, 2)]
    elif r < 0.85:
        ps = gen_ps(rng, free, 2)
    return {"verdict": {"cs": cs, "heralds": heralds, "dets": dets, "ps": ps, "m": m,
                        "kind": rng.choice(["leaf", "circ"]), "map": ms, "keep_port": rng.random() < 0.7}}


def verdict_expected(v):
    """the verdict the property statement and the documentation of Processor.add give, from the scenario alone:
    wrong size / repeated mode -> InvalidMappingException; a mode outside the processor, heralded or ending in a detector
    -> UnavailableModeException; a left post-selection with a condition that contains some but not all of the mapped modes
    -> AssertionError (the documented can_compose_with refusal); otherwise accepted"""
    cs, m, ms = v["cs"], v["m"], v["map"]
    keys = list(range(ms["v"], ms["v"] + m)) if ms["form"] == "int" else list(ms["v"])
    if len(keys) != m or len(set(keys)) != len(keys):
        return "InvalidMappingException", keys
    reserved = {h[0] for h in v["heralds"]} | set(v["dets"])
    if any(k < 0 or k >= cs or k in reserved for k in keys):
        return "UnavailableModeException", keys
    if v["ps"] is not None:
        for c in ps_conds(v["ps"]):
            n_in = sum(1 for k in keys if k in c)
            if 0 < n_in < len(keys):
                return "AssertionError", keys
    return "ok", keys


def verdict_build(v):
    import perceval as pcvl
    from perceval.utils import PostSelect
    p = pcvl.Processor("SLOS", v["cs"])
    for k, e in v["heralds"]:
        p.add_herald(k, e)
    for k in v["dets"]:
        p.add(k, pcvl.Detector.pnr())
    if v["ps"] is not None:
        p.set_postselection(PostSelect(ps_str(v["ps"])))
    return p


def run_verdict(scn, ask, on_event=None):
    """-> None or (kind, signature, text)"""
    v = scn["verdict"]
    ev = on_event or (lambda name: None)
    p = verdict_build(v)
    comp = verdict_component(v["m"], v["kind"])
    L = observe_proc(p)
    n_before = len(p.components)
    lps_before = None if v["ps"] is None else str(p.experiment.post_select_fn)
    try:
        p.add(py_mapping(v["map"]), comp, keep_port=v["keep_port"])
        real = "ok"
    except Exception as e:  # noqa: the class is the observation
        real = type(e).__name__
    exp, keys = verdict_expected(v)
    where = (f"Processor({v['cs']}) heralds {v['heralds']} detectors on {v['dets']} post-selection "
             f"{None if v['ps'] is None else ps_str(v['ps'])!r}; add({py_mapping(v['map'])!r}, {v['m']}-mode component)")
    ev("verdict-" + v["map"]["form"].replace("tuple", "list"))
    ev("verdict-expected-" + exp)
    if v["ps"] is None:
        ev("verdict-no-ps")
    elif exp == "ok" and len(keys) >= 2 and any(all(k in c for k in keys) for c in ps_conds(v["ps"])):
        ev("verdict-ps-contains-all")
    elif exp in ("InvalidMappingException", "UnavailableModeException") and \
            any(0 < sum(1 for k in keys if k in c) < len(keys) for c in ps_conds(v["ps"])):
        ev("verdict-mapping-error-before-assertion")
    # judged directly on the real code
    if exp in ("InvalidMappingException", "UnavailableModeException") and real == "ok":
        return ("violation", "illegal-mapping-accepted", f"{where}: the mapping is illegal ({exp}) but the add is accepted")
    if exp == "ok" and real != "ok":
        return ("violation", "legal-mapping-refused", f"{where}: a legal mapping onto available modes, no condition of the "
                                                      f"post-selection straddling it, is refused with {real}")
    if real != "ok":
        o2 = observe_proc(p)
        if len(p.components) != n_before or o2["heralds"] != L["heralds"] or o2["dets"] != L["dets"] or \
                (lps_before is not None and str(p.experiment.post_select_fn) != lps_before):
            return ("violation", "refused-add-changed-processor", f"{where}: refused with {real} but the processor changed")
    side_l = {"comp": False, "m": L["m"], "cs": L["cs"], "conn": L["avail"], "heralds": L["heralds"], "dets": L["dets"],
              "outp": L["outp"], "inp": L["inp"], "out_names": L["raw_out_names"] or [],
              "in_names": L["raw_in_names"] or [], "ps": v["ps"]}
    side_r = {"comp": True, "m": comp.m, "cs": comp.m, "conn": [], "heralds": [], "dets": [], "outp": [], "inp": [],
              "out_names": [], "in_names": [], "ps": None}
    rep = ask({"op": "verdict", "left": side_l, "right": side_r, "map": v["map"], "keep_port": v["keep_port"]})
    if "err" in rep:
        return ("broken", "verdict-driver", f"{where}: driver says {rep}")
    if rep["closed"] != rep["chain"]:
        return ("broken", "verdict-closed-vs-chain", f"{where}: closed form {rep['closed']} but the modelled chain gives "
                                                     f"{rep['chain']} (contradicts add_component_closed)")
    if L["conn"] != L["avail"]:
        return ("broken", "verdict-availability-flag", f"{where}: is_mode_connectible {L['conn']} disagrees with the "
                                                       f"heralds/detectors lists {L['avail']}")
    if rep["closed"] != real or exp != real:
        return ("broken", "verdict-class", f"{where}: the real add ends in {real}, the model's closed form says "
                                           f"{rep['closed']}, the documented reading says {exp}")
    return None


def shrink_verdict(scn, fails):
    cur = copy.deepcopy(scn)
    changed = True
    while changed:
        changed = False
        v = cur["verdict"]
        cands = []
        for i in range(len(v["heralds"])):
            c = copy.deepcopy(cur); del c["verdict"]["heralds"][i]; cands.append(c)
        for i in range(len(v["dets"])):
            c = copy.deepcopy(cur); del c["verdict"]["dets"][i]; cands.append(c)
        if v["ps"] is not None:
            c = copy.deepcopy(cur); c["verdict"]["ps"] = None; cands.append(c)
            if v["ps"][0] != "c":
                for sub in v["ps"][1:]:
                    c = copy.deepcopy(cur); c["verdict"]["ps"] = sub; cands.append(c)
        if v["kind"] != "leaf":
            c = copy.deepcopy(cur); c["verdict"]["kind"] = "leaf"; cands.append(c)
        for c in cands:
            try:
                if fails(c):
                    cur, changed = c, True
                    break
            except Exception:  # noqa: a candidate that cannot be built is not a smaller case
                continue
    return cur


def handle_verdict(chk, runner, scn, record=True):
    def ev(name):
        if record:
            chk.branch(name)
    res = run_verdict(scn, runner.ask, ev)
    v = scn["verdict"]
    if record:
        keys = verdict_expected(v)[1]
        chk.case(f"verdict|{v['cs']}|{len(v['heralds'])}|{len(v['dets'])}|{v['ps'] is not None}|{v['map']['form']}|{keys}",
                 nontrivial=v["ps"] is not None and len(keys) >= 2, sample={"verdict": verdict_expected(v)[0]})
    if res is not None:
        kind, sig, what = res
        if [kind, sig] in runner.shrunk:
            chk.fail(kind, sig, what, {"scenario": scn})
            return res
        runner.shrunk.append([kind, sig])

        def fails(c):
            r = run_verdict(c, runner.ask)
            return r is not None and r[1] == sig
        small = shrink_verdict(scn, fails)
        r2 = run_verdict(small, runner.ask)
        chk.fail(kind, sig, (r2[2] if r2 is not None and r2[1] == sig else what), {"scenario": small})
    return res


def load_corpus():
    out = []
    for path in sorted(glob.glob(os.path.join(core.VERIF, "corpus", "C10", "*.json"))):
        d = json.load(open(path))
        out.append((os.path.basename(path), d["scenario"], d.get("expect")))
    return out


def run(chk: core.Check):
    chk.rule = ("one case = a left processor (<= 6 modes; components, heralds, ports, detectors, post-selection) and "
                "1-3 successive Processor.add(mapping, obj) with obj a component / circuit / processor (whole or "
                "piecewise, heralds anywhere, internal PERMs, post-selection), mapping as int / list / tuple / dict / "
                "port names, 12% malformed; plus EVERY injective mapping onto <= 4 left modes for a circuit, a "
                "herald-free and two heralded processors, and (>= 2 modes) a processor built component by component "
                "from numeric phase shifters, PERMs that are not self-inverse and blocking components; plus scenarios "
                "whose right-hand processors engage every rewriting rule of the automatic simplification of the "
                "inserted segment (phase shifters on one light path through 3-cycles, wrong-way decoys, exact "
                "cancellation, adjacent non-commuting PERMs, a left processor ending with a PERM, processors that are "
                "themselves results of compositions); plus long-lived processors: 1-2 legal adds importing heralded modes, "
                "then adds (any object, any mapping syntax) whose only fault is to reach a mode reserved by that history "
                "(imported herald, declared herald, detector), each to be refused leaving the processor untouched, the "
                "scenario continuing after a clean refusal; after every accepted add is_mode_connectible must agree with "
                "heralds/detectors (a disagreement is probed with a real add on that mode); plus dictionary mappings written "
                "through every key form ('port': int, 'port': [modes], 'port': 'port', int: [mode], int: 'port', int: int) "
                "between left processors and right-hand processors carrying one- and two-mode ports, ~45% with exactly one "
                "fault (unknown port on either side, imbalanced sizes, an int for a multi-mode port, a port name on a bare "
                "component, a left mode named twice, one int-keyed item too many); for every dictionary the pairs the "
                "documentation gives to its items are compared with the closed form of the model (allPairs); after every "
                "accepted add the ports of the result (both sides: start, size, name, herald, expected) are compared with the "
                "model's and judged directly (no overlap; a new port sits on the modes wired to a port of that name), the "
                "mode the carried-over post-selection reads for each right-hand mode is compared with the wiring, and the "
                "model of in_port_names / out_port_names is compared on the real port lists; plus processor LIVES: Processor('SLOS', m) "
                "or Processor('SLOS'), then 1-8 calls among add_herald / add_port / remove_port / add(mode, Detector) / add(int or "
                "list mapping, component or processor), ~15% with arbitrary arguments, ~30% declaring every mode a herald first; "
                "after every call m, circuit_size, is_mode_connectible, heralds, detectors, ports and port names (or the exception "
                "class) are compared with the state machine of Model/C10Hist.lean, and reserved modes / circuit_size / observability "
                "are judged directly; plus (extension 5) processors built by a LIFE used as the added object: lives whose adds bring "
                "a nested life (heralds declared, imported, ports added and removed, herald ports taken off the input or the "
                "output side) — the model is told the nested life, runs it itself and reads the added processor through "
                "Exp.side; the nested life's state and RightWF are compared, the add is compared call by call when the nested "
                "life kept its herald ports on the output side (otherwise the added processor is malformed: only counted) — and "
                "ordinary scenarios whose right-hand side is a well-formed life, judged like every other scenario (wiring, "
                "unitary, heralds, detectors, ports; every mapping syntax, ~12% malformed); distinct = distinct (sizes, right shape, mapping) "
                "signatures; non-trivial = a non-consecutive or non-monotone mapping of >= 2 modes")
    chk.assumptions = [
        "matrices of the left processor and of the added object are taken from their own compute_unitary() "
        "(component matrices are C14, circuit products C01); the model predicts the composed matrix exactly from them",
        "PostSelect parsing/evaluation is exqalibur's; conditions are generated as ASTs and rendered fully parenthesised",
        "which non-herald ports of the added processor are re-attached is compared with the model only (the property "
        "does not say it); that a re-attached port sits on the modes wired to it and overlaps no other port is judged directly",
        "a dictionary that gives two values to one left mode (a port name and one of its modes) is not judged by the direct "
        "oracle — the documentation is silent, the code keeps the last value — model and code are compared with each other",
        "an int key with a list / port-name value is read as that one left mode (the documented 'keys and values can be "
        "integers or strings'); the code as found ignores such an item (fixes/C10-intkey-skipped.diff)",
        "processor lives: modes given to add_herald / add_port / remove_port / detectors are non-negative, every add_port "
        "brings a fresh Port object; a life ends at the first exception (the state a failing call leaves behind is judged "
        "only when every mode is a herald: a refused add must then leave the processor unchanged)",
        "a processor that lost a herald port on its OUTPUT side (remove_port leaves _n_heralds, _n_moi and the mode type "
        "alone: m != circuit_size - #heralds) is outside the property: what adding it does is counted, not compared nor judged; "
        "nested lives keep their ports inside their circuit (a port past the last mode of the added processor makes the port "
        "loop of _compose_experiment die with ValueError — not modelled)",
        "the simp-* branch counters classify the inserted segment from the public component list by tracing light "
        "paths; they only show that the generator reaches the shapes, the verdict never depends on them",
    ]
    chk.required_branches = ["form-int", "form-list", "form-dict", "port-names", "rejected", "perm-needed",
                             "perm-at-offset", "no-perm", "right-heralds", "right-heralds-unsorted", "left-heralds",
                             "bare-component", "processor", "right-postselect", "second-composition",
                             "same-object-twice", "herald-detectors",
                             "continued-after-rejection", "probe-imported-herald", "probe-declared-herald",
                             "probe-detector-mode", "probe-imported-herald-only-fault",
                             "probe-declared-herald-only-fault",
                             "nested-right", "left-trailing-perm-merged", "simp-perm-asym",
                             "simp-perm-successive-noncommuting", "simp-perm-nonsuccessive", "simp-ps-merge",
                             "simp-ps-merge-across-perm", "simp-ps-merge-across-asym-perm",
                             "simp-ps-direction-sensitive", "simp-ps-decoy", "simp-ps-cancel", "simp-ps-null",
                             "simp-ps-blocked-behind-perm",
                             "dict-int-int", "dict-name-int", "dict-name-list", "dict-name-name", "dict-int-list",
                             "dict-int-name", "dict-left-mode-twice"] + ["dictfault-" + f for f in DICT_FAULTS] + \
                            ["port-inp-reattached", "port-outp-reattached", "port-inp-dropped-crossed",
                             "port-outp-dropped-crossed", "port-inp-dropped-occupied", "port-outp-dropped-occupied",
                             "herald-input-port", "ps-merged", "ps-runtime-refused"] + \
                            ["op-herald", "op-port", "op-rmport", "op-det", "op-add", "add-comp", "add-proc",
                             "add-comp-m0", "add-comp-unset", "hist-all-heralded", "hist-completed",
                             "hist-error-UnavailableModeException", "hist-error-IndexError"] + \
                            ["add-hist", "add-hist-keeps", "add-hist-herald-out-removed", "add-hist-accepted",
                             "add-hist-heralds", "rightwf-true", "rightwf-false",
                             "right-life", "right-life-heralds", "right-life-heralds-accepted"] + \
                            ["verdict-int", "verdict-list", "verdict-no-ps", "verdict-ps-contains-all",
                             "verdict-mapping-error-before-assertion"] + \
                            ["verdict-expected-" + c for c in VERDICT_CLASSES]
    chk.lean = core.LeanDriver("C10")
    runner = Runner(chk)
    rng = chk.rng
    for name, scn, expect in load_corpus():
        res = handle_verdict(chk, runner, scn) if "verdict" in scn else handle(chk, runner, scn)
        chk.count("corpus", name)
    n_ex = 0
    for scn in exhaustive_scenarios(rng, 4):
        handle(chk, runner, scn)
        n_ex += 1
    chk.extra["exhaustive_mappings_cases"] = n_ex
    chk.exhaustive = False   # the mapping space for <= 4 modes is complete, the right-hand sides are sampled
    n = chk.pick(700, 12000)
    max_cs = 6
    for i in range(n):
        scn = prepare(gen_scenario(rng, max_cs, malformed=(rng.random() < 0.12)), rng)
        try:
            handle(chk, runner, scn)
        except core.LeanError:
            raise
        except GenInvalid:
            chk.count("generator", "invalid-construction")
    # long-lived processors: adds that reach a mode reserved by what was plugged before
    n_r = chk.pick(250, 3000)
    for i in range(n_r):
        scn = prepare(gen_scenario_reserved(rng, max_cs), rng)
        try:
            handle(chk, runner, scn)
            chk.count("generator", "reserved-mode-family")
        except core.LeanError:
            raise
        except GenInvalid:
            chk.count("generator", "invalid-construction")
    # dictionary mappings written through every key form (port names on either side, lists, int keys with list /
    # port-name values), ~45% with one fault; left and right objects carry one- and two-mode ports
    n_d = chk.pick(450, 3500)
    for i in range(n_d):
        try:
            scn = prepare(gen_scenario_dict(rng, max_cs), rng)
            handle(chk, runner, scn)
            chk.count("generator", "dict-forms-family")
        except core.LeanError:
            raise
        except GenInvalid:
            chk.count("generator", "invalid-construction")
    # right-hand processors whose content the automatic simplification of the inserted segment rewrites
    # (phase shifters around PERMs that are not self-inverse, adjacent PERMs, nested compositions)
    n_s = chk.pick(500, 4000)
    for i in range(n_s):
        scn = prepare(gen_scenario_simpl(rng, max_cs), rng)
        try:
            for st in scn["steps"]:
                if st["right"]["kind"] == "scn":   # the inner composition is a case of its own
                    handle(chk, runner, st["right"]["scn"])
            handle(chk, runner, scn)
            chk.count("generator", "simplifier-family")
        except core.LeanError:
            raise
        except GenInvalid:
            chk.count("generator", "invalid-construction")
    # the life of a processor: construction, add_herald / add_port / remove_port / detectors / adds in any order,
    # compared call by call with the state machine of Model/C10Hist.lean
    n_h = chk.pick(500, 3000)
    for i in range(n_h):
        try:
            handle(chk, runner, gen_history(rng))
            chk.count("generator", "history-family")
        except core.LeanError:
            raise
        except GenInvalid:
            chk.count("generator", "invalid-construction")


    # extension 5: lives whose adds bring processors that are themselves lives (heralds declared, imported, their ports
    # removed on either side): the model is told the nested LIFE, not the observed object (addHist / Exp.side)
    n_w = chk.pick(70, 800)
    for i in range(n_w):
        try:
            scn = prepare(gen_scenario_histright(rng, max_cs), rng)
            handle(chk, runner, scn)
            chk.count("generator", "life-as-right-hand-side-family")
        except core.LeanError:
            raise
        except GenInvalid:
            chk.count("generator", "invalid-construction")
    n_n = chk.pick(170, 1500)
    for i in range(n_n):
        try:
            handle_history(chk, runner, gen_history(rng, nest=0.75, lead=True))
            chk.count("generator", "nested-life-family")
        except core.LeanError:
            raise
        except GenInvalid:
            chk.count("generator", "invalid-construction")


    # wave 9: the verdict of the add of a bare component on processors with heralds, detectors and a post-selection,
    # against the closed form compVerdict (add_component_closed) and the documented reading
    n_v = chk.pick(400, 4000)
    for i in range(n_v):
        handle_verdict(chk, runner, gen_verdict(rng))
        chk.count("generator", "verdict-family")


class GenInvalid(Exception):
    pass


def replay(chk, data):
    chk.lean = core.LeanDriver("C10")
    chk.rule = "replay of one stored scenario"
    runner = Runner(chk)
    if "verdict" in data["replay"]["scenario"]:
        handle_verdict(chk, runner, data["replay"]["scenario"])
        return
    handle(chk, runner, data["replay"]["scenario"])
