"""C18 — a local job runs once and ends in exactly one truthful final state.

Correspondence: a *history* (constructor configuration + word over caller events execSync/execAsync/
statusQuery/cancel/getResults and task events start/progress/return/raise/propagate) is executed
against the real `perceval.runtime.LocalJob` with a controllable task function and controllable
progress callbacks, and by the Lean model (`Model/C18.lean`, main = repaired behaviour).  Compared per
step: status name, stop_message, progress, the five `is_*` predicates, exception class/kind, results
(with the one-shot conversion), arguments delivered to the task, which callback saw which progress
value, the cancel relay; at the end: number of task entries, callback log.

Forcing the interleaving.  The task function blocks on a command queue and performs exactly the
commanded step; the user callback, when the job invokes it, also serves commands (caller actions
performed *inside* the callback, or "propagate" = leave the callback with the exception the last action
raised).  Asynchronous mode: the harness thread and the worker run in lock-step (one command, one
acknowledgement); the worker thread is joined before anything is read after return/raise.  Synchronous
mode: no second thread at all — the whole in-flight part of the word is queued before `execute_sync`
is called and the acknowledgements are collected afterwards.  Nothing sleeps: every hand-over is a blocking
queue operation or a `Thread.join`.  Time-outs (WAIT = 120 s per acknowledgement) exist only as hang detectors;
a time-out raises `HarnessTimeout`, which ends the run with exit 2 (harness problem) — it is never turned
into a VIOLATION and never waited out as a pass.

The property is also evaluated DIRECTLY on every observed history (`direct_oracle`, written without the Lean
model), whether or not model and code agree: exactly-once, RUNNING until the end, truthful final status/message,
no results while running, repeated results equal and equal to the once-converted task value (computed from the
arguments passed when the accepted call is the first one), callback invoked with the task's progress, and
"unknown arguments are rejected before the task starts" for BOTH ways of passing an unknown argument — an
undeclared keyword, or positional arguments beyond the declared names + the one trailing `max_samples` — where
a refused call must raise, must not enter the task and must leave the job WAITING; the arguments the task
receives must be those passed (positional / keyword / preset).

Two extreme schedules of the `execute_async` call itself are forced: lock-step (the worker does nothing before the
call has returned: the task blocks on its first command) and "instant" (`run_prefilled`: every task step is queued
beforehand and the interpreter's switch interval is raised during the call, so the freshly started worker runs the
task to its end before `Thread.start()` returns to `execute_async`; possible for every history whose in-flight caller
actions all happen inside the user's callback).  A final state written by the worker must survive whatever
`execute_async` still does after starting the thread.

Several jobs per process.  Job histories are also executed in GROUPS (`handle_group`): 2..4 jobs created one after the
other in the same process, or the later ones created and executed completely while the first is in flight / between two
of its events; most of these jobs are constructed the short way (`delta_parameters` omitted or None, names / mapping
function omitted when empty) with different declared names and different numbers of arguments.  Each job is compared
with ITS OWN single-job model history and judged by the direct oracle (which also refuses any task parameter that this
job neither declares nor was passed): a job must behave as if it were alone (Lean: `job_independent_of_other_jobs`,
`fresh_job_unaffected_by_process_history`).  A failure seen in this process is re-run in FRESH interpreters
(`fresh_run`): alone -> ordinary report; only after/while other jobs -> signature `…-after-other-jobs` with the
minimised group as replay; not reproducible -> `depends-on-process-history` (no-failing-input-found).

Extension (Model/C18Ext.lean).  The alphabet of the histories also has `job(...)` (Job.__call__, "via": "call"), `job.name`
read / assigned (a string, the empty string, not a string) at any point — also from the callback and while the task runs —,
and progress reports whose USER callback returns a chosen object ("u": None, a dict with / without 'cancel_requested', an
object without `.get`); the controlled task applies the real `perceval.runtime.cancel_requested` to what it gets back and the
verdict is compared with the model's (`check_cancel_spec`); `str(job.status)` is compared with `job.status()` on every status
query.  COOPERATIVE tasks (`Runner.task_coop`): the task is not commanded but decides its steps itself, the way the simulators
do — report, test `cancel_requested(progress_callback(...))`, then raise RuntimeError("Cancel requested") / return the partial
result / go on; the closed-loop model (`cstep`) predicts every step (coop_cancel_takes_effect, coop_no_spurious_stop).  SAMPLER
jobs (`run_sampler`): real `Sampler(...).probs/.samples/.sample_count` jobs on local SLOS and CliffordClifford2017 processors,
recorded through a subclass (task keyword arguments, every conversion call), compared with the model on the preset
configuration `Preset.cfg` and judged directly (task receives the max_samples passed, conversion once per result and with the
iteration's overrides, result types and sample counts, truthful final status, cancel before the run stops a strong simulation).

Exception types and argument values (round 3).  The task's exception is drawn from a table of 35 classes (`EXC_CLASSES`: the
builtin `Exception` types a task body plausibly raises — TypeError, LookupError, StopIteration, OSError, Warning … — and
harness-defined subclasses): the model treats the class as an opaque number, so a wrapper that handles ONE type specially
(a retry on TypeError enters the task a second time: the controlled task's second entry returns at once with a recognisable
value and is counted) shows as ran-twice / final-status-wrong / sync-returns-after-raise / results-after-raise;
`exception_scenarios` raises every class in sync / async / instant mode.  Argument VALUES are `None`, integers (0 included)
and coded non-integer objects (`VALUE_OBJECTS`: 0.0, False, '', [], (), {}, b'' — falsy but not None — and True, '0', [0]),
used for presets, positional and keyword arguments, the trailing max_samples and the iterations' overrides: the routing must
look at `None` only (Lean: handle_params_blind_to_values).  The direct oracle refuses an accepted FIRST call whose keyword
names a parameter FIXED by a preset or by a positional argument of the same call (`unusable_keywords`; Lean:
fixed_preset_keyword_is_rejected); `fixed_preset_scenarios` runs every falsy value x task preset / conversion preset /
positional max_samples x sync/async.

Named residue: the atomic steps are whole API calls and whole task steps.  Races *inside* one Python API
call other than the two forced schedules above (bytecode interleavings on the shared JobStatus, e.g. a status query
between `start_run()` and `Thread.start()` in `execute_async`, a worker that ends between two statements of
`execute_async`) cannot be exhibited by this harness or by the model.
"""
from __future__ import annotations

import collections
import copy
import glob
import json
import os
import queue
import subprocess
import sys
import threading

from . import core

WAIT = 120.0         # hang detector for one acknowledgement / one join (seconds); generous: the machine may be
                     # heavily loaded.  A time-out is a HARNESS problem (HarnessTimeout -> exit 2), never a verdict.


INSTANT_SWITCH = 2.0  # interpreter switch interval (seconds) in force only DURING an "instant" execute_async call
                      # (see Runner.run_prefilled): the freshly started worker keeps the interpreter until it
                      # blocks or ends, i.e. the schedule "the task is over before Thread.start() returns"


class HarnessTimeout(Exception):
    """An acknowledgement or a join did not arrive within WAIT seconds: the lock-step protocol lost the worker.
    Raised out of `run`/`replay` (harness/main.py turns it into exit 2); never reported as a VIOLATION."""

# ------------------------------------------------------------------------------------------------
# tables (the Lean model only sees the numbers)
# ------------------------------------------------------------------------------------------------
def key_name(k: int) -> str:
    return "max_samples" if k == 0 else f"k{k}"


def key_id(name: str):
    """the model's number of a parameter name; a name the harness never used (it can only come from elsewhere, e.g.
    from another job) stays as it is, so that it is reported and not crashed upon"""
    if name == "max_samples":
        return 0
    if isinstance(name, str) and name[:1] == "k" and name[1:].isdigit():
        return int(name[1:])
    return f"?{name!r}"


class TaskFailure(Exception):
    pass


class TaskTypeError(TypeError):
    pass


class TaskLookupFailure(LookupError):
    pass


# The exception the task leaves with.  The model treats the class as an opaque number (`tRaise cls text`): the job must
# behave the same whatever the type is — entered once, ERROR, '<type>: <message>' — so the table holds the builtin
# `Exception` types a task body plausibly raises (a wrapper that treats ONE of them specially — retries on TypeError,
# reads LookupError/StopIteration as "no result", swallows a Warning — is seen), and harness-defined subclasses.
# Index = the model's number: append only (corpus entries and Model/C18Ext refer to the indices 0..6).
EXC_CLASSES = [ValueError, RuntimeError, KeyError, ZeroDivisionError, TaskFailure, AssertionError, AttributeError,
               TypeError, IndexError, LookupError, StopIteration, OSError, NotImplementedError, ArithmeticError,
               OverflowError, TimeoutError, UnicodeError, EOFError, ImportError, MemoryError, RecursionError,
               NameError, BufferError, ConnectionError, FileNotFoundError, PermissionError, StopAsyncIteration,
               FloatingPointError, ReferenceError, SyntaxError, UserWarning, DeprecationWarning, Exception,
               TaskTypeError, TaskLookupFailure]
EXC_TEXTS = ["", "boom", "bad value: 3", "User has canceled the job", "None", "Cancel requested",
             "'bool' object has no attribute 'get'", "unsupported operand type(s) for //: 'int' and 'NoneType'",
             "task() got an unexpected keyword argument 'progress_callback'"]
# (Model/C18Ext: clsRuntime/txtCancelRequested = 1/5, clsAttribute/txtNoGet = 6/6 are what the cooperative task raises;
# for the plain machine they are numbers like the others, random histories draw from the whole tables)


def rand_raise(rng):
    """a task exception: half of the time one of the first six classes (the most ordinary ones), else any of the table"""
    cls = rng.randrange(6) if rng.random() < 0.5 else rng.randrange(len(EXC_CLASSES))
    return {"e": "raise", "cls": cls, "msg": rng.randrange(len(EXC_TEXTS))}


# ARGUMENT VALUES.  The model's value is `Option Nat`; the numbers below stand for Python objects that are FALSY but not
# None (and a few truthy non-integers for contrast); every other number is the integer itself (0 is the integer 0).
# `_handle_params` / `_get_results` must treat them like any other value: only `None` marks an open slot
# (Lean: handle_params_blind_to_values, fixed_preset_keyword_is_rejected, override_spec).
VALUE_OBJECTS = {90: 0.0, 91: False, 92: "", 93: [], 94: (), 95: {}, 96: b"", 97: True, 98: "0", 99: [0]}
FALSY_VALUES = [0, 90, 91, 92, 93, 94, 95, 96]


def enc_val(v):
    """model value -> Python object (a fresh one each time: some are mutable)"""
    if v is None or v not in VALUE_OBJECTS:
        return v
    return copy.deepcopy(VALUE_OBJECTS[v])


def dec_val(obj):
    """Python object -> model value (strict about the type: False is not 0, 0.0 is not 0); anything else is shown"""
    if obj is None:
        return None
    for code, o in VALUE_OBJECTS.items():
        if type(obj) is type(o) and obj == o:
            return code
    if type(obj) is int and obj not in VALUE_OBJECTS:
        return obj
    return {"other": repr(obj)[:60]}


def is_falsy(v):
    return v in FALSY_VALUES


def rand_value(rng, pfalsy=0.25):
    r = rng.random()
    if r < pfalsy:
        return rng.choice(FALSY_VALUES)
    if r < pfalsy + 0.05:
        return rng.choice([97, 98, 99])
    return rng.randint(1, 9)

# what a user progress callback returns (model: `Reply`), several Python objects per class
REPLY_OBJECTS = {
    "none": [None],
    "other": [True],              # not None, no `.get`: cancel_requested raises AttributeError ('bool' object ...)
    "dict-null": [{}, {"phase": "x"}],
    "dict-true": [{"cancel_requested": True}, {"cancel_requested": 1}, {"cancel_requested": "yes", "x": 0}],
    "dict-false": [{"cancel_requested": False}, {"cancel_requested": 0}, {"cancel_requested": None}],
}


def reply_key(u):
    if isinstance(u, str):
        return u
    d = u["dict"]
    return "dict-null" if d is None else ("dict-true" if d else "dict-false")


def reply_obj(u, variant=0):
    objs = REPLY_OBJECTS[reply_key(u)]
    return copy.deepcopy(objs[variant % len(objs)])


def canon_reply(ret):
    if ret is None:
        return "none"
    if isinstance(ret, dict):
        return {"dict": (bool(ret["cancel_requested"]) if "cancel_requested" in ret else None)}
    return "other"


def task_verdict(ret):
    """the REAL `perceval.runtime.cancel_requested` applied to what the progress callback returned, as the model's
    verdict: True / False / "crash" (AttributeError: the object has no `.get`)"""
    from perceval.runtime import cancel_requested
    try:
        return bool(cancel_requested(ret))
    except AttributeError:
        return "crash"

RUNTIME_KINDS = {"twice", "unused", "stillRunning", "failed", "notAvailable"}
PREDICATES = {  # JobStatus predicates of the five statuses a local job can take
    "WAITING": (False, False, False, False, True),
    "RUNNING": (True, False, False, False, False),
    "SUCCESS": (False, True, True, False, False),
    "ERROR": (False, True, False, True, False),
    "CANCELED": (False, True, False, True, False),
}


NOT_A_STRING = [None, 7, b"bytes", ["n"], 1.5]      # what a `setname` event with v = null assigns


class Abort(BaseException):
    """Harness-internal: not an `Exception`, so `_call_fn_safe` does not turn it into a job status."""


def py_dict(d):
    return {key_name(k): enc_val(v) for k, v in d}


def canon_dict(d: dict):
    return sorted([[key_id(k), dec_val(v)] for k, v in d.items()], key=lambda e: (isinstance(e[0], str), e[0]))


def norm_dict(d):
    return sorted(d, key=lambda e: e[0])


def norm_val(v):
    """model VAL with every keyword dictionary sorted by key (Python's **kwargs order is irrelevant)"""
    if isinstance(v, int):
        return v
    return {"m": norm_val(v["m"]), "kw": norm_dict(v["kw"])}


def norm_ret(r):
    t = r["t"]
    if t == "dict":
        return {"t": "dict", "v": norm_val(r["v"])}
    if t == "dlist":
        return {"t": "dlist", "l": [[norm_dict(it), norm_val(v)] for it, v in r["l"]]}
    return r


# ------------------------------------------------------------------------------------------------
# Python values <-> model values
# ------------------------------------------------------------------------------------------------
def mapping_function(res, **kw):
    return {"__mapped__": res, "kw": dict(kw)}


def py_val(v):
    if isinstance(v, int):
        return v
    return {"__mapped__": py_val(v["m"]), "kw": py_dict(v["kw"])}


def py_ret(r):
    t = r["t"]
    if t == "none":
        return None
    if t == "plain":
        return [r["n"]] if r["n"] else []      # plain 0 = the empty list: a FALSY result that is not None
    if t == "dict":
        return {"results": py_val(r["v"]), "physical_perf": 1}
    return {"results_list": [{"iteration": py_dict(it), "results": py_val(v)} for it, v in r["l"]]}


def canon_val(v):
    if isinstance(v, bool):
        return {"other": repr(v)}
    if isinstance(v, int):
        return v
    if isinstance(v, dict) and set(v) == {"__mapped__", "kw"}:
        return {"m": canon_val(v["__mapped__"]), "kw": canon_dict(v["kw"])}
    return {"other": repr(v)[:80]}


def canon_ret(r):
    if r is None:
        return {"t": "none"}
    if isinstance(r, list) and len(r) == 0:
        return {"t": "plain", "n": 0}
    if isinstance(r, list) and len(r) == 1 and isinstance(r[0], int) and r[0] != 0:
        return {"t": "plain", "n": r[0]}
    if isinstance(r, dict) and "results" in r:
        return {"t": "dict", "v": canon_val(r["results"])}
    if isinstance(r, dict) and "results_list" in r:
        return {"t": "dlist", "l": [[canon_dict(e["iteration"]), canon_val(e["results"])] for e in r["results_list"]]}
    return {"t": "other", "repr": repr(r)[:80]}


def canon_exc(e: BaseException) -> str:
    name, text = type(e).__name__, str(e)
    if name == "AssertionError":
        return "assertion"
    if name == "IndexError":
        return "index"
    if name == "AttributeError":
        return "attribute"
    if name == "RuntimeError":
        for needle, kind in (("job failed", "failed"), ("twice", "twice"), ("nused", "unused"),
                             ("still running", "stillRunning"), ("not available", "notAvailable")):
            if needle in text:
                return kind
        return "runtime?"
    return "other:" + name


# ------------------------------------------------------------------------------------------------
# running one history against the real code
# ------------------------------------------------------------------------------------------------
def instant_segment(word, mouts, i):
    """For an execute_async at index i that the model accepts: the indices of its in-flight events if the task can
    run through WITHOUT the caller thread — the task ends within the word and every caller action before that is
    performed inside an open user callback (on the worker thread) — else None."""
    if mouts[i]["o"] != "accepted":
        return None
    seg = []
    cb_open = False
    for x in range(i + 1, len(word)):
        o = mouts[x]
        if o["o"] == "disabled":
            continue
        seg.append(x)
        if word[x]["e"] in TASK_KINDS:
            cb_open = o["o"] == "progressed" and o["cb"] is not None
            if o["o"] == "finished":
                return seg
        elif not cb_open:
            return None
    return None


class Runner:
    def __init__(self, cfg, ctor=None, instant=False, hook=None, coop=None):
        """`ctor`: HOW the constructor arguments are passed (None = everything explicitly): {"delta": "explicit" |
        "omit" | "none", "names": "explicit" | "omit", "mapfn": "explicit" | "omit"} — an argument can only be omitted
        (or passed as None) when its value is the documented default (no preset parameters / no positional names / no
        conversion).  `instant`: an execute_async whose task can run through on its own is executed with all task steps
        queued beforehand (the task never waits).  `hook` = (index, fn): fn() is called once, on the caller thread,
        before event `index` of the word is performed (used to create and run OTHER jobs meanwhile)."""
        from perceval.runtime import LocalJob
        self.cfg = cfg
        self.coop = coop              # program of a COOPERATIVE task (it decides its steps itself), or None
        self.instant = instant
        self.hook = hook
        self.entered = threading.Event()
        self.cmds: queue.Queue = queue.Queue()
        self.acks: queue.Queue = queue.Queue()
        self.pushback = None
        self.prefilled = False
        self.calls = 0
        self.extra_entries = 0
        self.cb_log = []
        self.cb_open = False
        self.cur_reply = None         # what the user's callback returns when the open call ends
        self.pending_exc = None       # last exception raised by a caller action while a callback was open
        self.propagated = None        # the exception that left the callback
        self.task_exc = None
        self.thread = None
        self.hung = False
        self.async_accepted = False
        ctor = ctor or {}
        bare = not cfg["cmd"] and not cfg["mapping"]
        kwargs = {}
        if cfg["map"] or ctor.get("mapfn", "explicit") != "omit":
            kwargs["result_mapping_function"] = mapping_function if cfg["map"] else None
        how = ctor.get("delta", "explicit")
        if how == "explicit" or not bare:
            kwargs["delta_parameters"] = {"command": py_dict(cfg["cmd"]), "mapping": py_dict(cfg["mapping"])}
        elif how == "none":
            kwargs["delta_parameters"] = None
        if cfg["names"] or ctor.get("names", "explicit") != "omit":
            kwargs["command_param_names"] = [key_name(k) for k in cfg["names"]]
        self.job = LocalJob(self.task_coop if coop else self.task, **kwargs)
        self.cb1 = self.make_cb(1)
        self.cb2 = self.make_cb(2)
        if cfg["cb"]:
            self.job.set_progress_callback(self.cb1)

    # ---- worker side -------------------------------------------------------------------------
    def next_cmd(self):
        if self.pushback is not None:
            cmd, self.pushback = self.pushback, None
            return cmd
        try:
            if self.prefilled:
                return self.cmds.get_nowait()
            return self.cmds.get(timeout=2 * WAIT)
        except queue.Empty:
            raise Abort()

    def task(self, progress_callback=None, **kw):
        self.calls += 1
        if self.calls > 1:            # never block a second entry: it is recorded and reported
            self.extra_entries += 1
            return {"results": 424242}
        self.thread = threading.current_thread()
        self.entered.set()
        self.acks.put(("started", dict(kw), callable(progress_callback)))
        while True:
            cmd = self.next_cmd()
            kind = cmd[0]
            if kind == "prog":
                self.cur_reply = cmd[2] if len(cmd) > 2 else None
                ret = progress_callback(cmd[1] / 8, "phase")
                self.acks.put(("progressed", ret, task_verdict(ret)))
            elif kind == "ret":
                return cmd[1]
            elif kind == "raise":
                self.task_exc = cmd[1]
                raise cmd[1]
            elif kind == "abort":
                raise Abort()
            else:                      # a callback command although no callback is open
                self.acks.put(("skipped", kind))

    def task_coop(self, progress_callback=None, **kw):
        """A COOPERATIVE task, written the way the simulators are: it reports its progress values one after the other
        and then returns its result; after every report it applies the real `perceval.runtime.cancel_requested` to what
        the progress callback returned and, when that is true, raises RuntimeError("Cancel requested") (policy raise:
        Simulator.probs_svd, simulate_detectors) or returns what it has (policy stop: the sampling loops).  The commands
        it receives only let it take ITS next step — what that step is, it decides itself."""
        from perceval.runtime import cancel_requested
        self.calls += 1
        if self.calls > 1:
            self.extra_entries += 1
            return {"results": 424242}
        self.thread = threading.current_thread()
        self.entered.set()
        self.acks.put(("started", dict(kw), callable(progress_callback)))
        prog = self.coop
        todo = list(prog["reports"])
        have, exec_request = False, None
        while True:
            cmd = self.next_cmd()
            kind = cmd[0]
            if kind == "abort":
                raise Abort()
            if kind in ("act", "propagate"):
                self.acks.put(("skipped", kind))
                continue
            if have and prog["policy"] != "ignore":
                have = False
                try:
                    stop = cancel_requested(exec_request)
                except AttributeError as e:
                    self.task_exc = e
                    self.acks.put(("ended", "raise"))
                    raise
                if stop:
                    if prog["policy"] == "raise":
                        self.task_exc = RuntimeError("Cancel requested")
                        self.acks.put(("ended", "raise"))
                        raise self.task_exc
                    self.acks.put(("ended", "ret"))
                    return py_ret(prog["partial"])
            if todo:
                p = todo.pop(0)
                self.cur_reply = cmd[2] if (kind == "prog" and len(cmd) > 2) else None
                exec_request = progress_callback(p / 8, "phase")
                have = True
                self.acks.put(("progressed", exec_request, task_verdict(exec_request), p))
            else:
                self.acks.put(("ended", "ret"))
                return py_ret(prog["result"])

    def make_cb(self, cid):
        def cb(p, phase=None):
            self.cb_log.append([cid, p * 8])
            self.cb_open = True
            self.acks.put(("cb", cid, p * 8))
            try:
                while True:
                    cmd = self.next_cmd()
                    if cmd[0] == "act":
                        self.acks.put(("acted", self.perform(cmd[1])))
                    elif cmd[0] == "propagate":
                        if self.pending_exc is None:
                            self.acks.put(("skipped", "propagate"))
                            continue
                        self.propagated = self.pending_exc
                        raise self.pending_exc
                    elif cmd[0] == "abort":
                        raise Abort()
                    else:              # the next task step: the callback returns
                        self.pushback = cmd
                        return self.cur_reply
            finally:
                self.cb_open = False
        return cb

    # ---- caller actions (either thread) ------------------------------------------------------
    def call_args(self, ev):
        args = [enc_val(a) for a in ev["args"]]
        kw = py_dict(ev["kw"])
        if ev["cbkw"]:
            kw["progress_callback"] = self.cb2
        return args, kw

    def perform(self, ev):
        job = self.job
        kind = ev["e"]
        try:
            if kind == "status":
                st = job.status
                flags = [bool(job.is_running), bool(job.is_complete), bool(job.is_success), bool(job.is_failed),
                         bool(job.is_waiting)]
                return {"o": "status", "s": st(), "str": str(st), "msg": self.canon_msg(st(), st.stop_message),
                        "p": st.progress * 8, "flags": flags}
            if kind == "getname":
                return {"o": "name", "s": job.name}
            if kind == "setname":
                try:
                    job.name = NOT_A_STRING[len(ev.get("w", "")) % len(NOT_A_STRING)] if ev["v"] is None else ev["v"]
                except TypeError as e:     # caught here (= by the user's code): never left to the callback
                    return {"o": "exc", "e": "type", "cls": "TypeError", "text": str(e)[:200]}
                return {"o": "nameset"}
            if kind == "cancel":
                r = job.cancel()
                return {"o": "done"} if r is None else {"o": "done", "returned": repr(r)[:40]}
            if kind == "get":
                return {"o": "results", "r": canon_ret(job.get_results())}
            if kind == "async":
                args, kw = self.call_args(ev)
                r = job.execute_async(*args, **kw)
                return {"o": "accepted"} if r is job else {"o": "accepted", "returned": repr(r)[:40]}
            if kind == "sync":          # only reached for a nested call (inside a callback / while in flight)
                args, kw = self.call_args(ev)
                r = job(*args, **kw) if ev.get("via") == "call" else job.execute_sync(*args, **kw)
                return {"o": "nested-sync-returned", "r": canon_ret(r)}
            return {"o": "bad-action", "e": kind}
        except Exception as e:
            if self.cb_open:
                self.pending_exc = e
            return {"o": "exc", "e": canon_exc(e), "cls": type(e).__name__, "text": str(e)[:200]}

    def canon_msg(self, status, msg):
        if msg is None:
            return None
        if self.task_exc is not None and msg == f"{type(self.task_exc).__name__}: {self.task_exc}":
            return {"task": [EXC_CLASSES.index(type(self.task_exc)), EXC_TEXTS.index(self.task_exc.args[0])]}
        if self.propagated is not None and msg == f"{type(self.propagated).__name__}: {self.propagated}":
            return {"caller": canon_exc(self.propagated)}
        if status == "CANCELED" and isinstance(msg, str) and msg:
            return "canceled"
        return {"other": str(msg)[:200]}

    # ---- harness side ------------------------------------------------------------------------
    def wait(self):
        try:
            if self.prefilled:
                return self.acks.get_nowait()
            return self.acks.get(timeout=WAIT)
        except queue.Empty:
            if not self.prefilled:
                self.hung = True
            return ("nothing",)

    def send(self, cmd):
        if not self.prefilled:
            self.cmds.put(cmd)

    @staticmethod
    def cmd_of(ev):
        k = ev["e"]
        if k == "prog":
            return ("prog", ev["p"], reply_obj(ev["u"], ev.get("uv", 0))) if "u" in ev else ("prog", ev["p"])
        if k == "ret":
            return ("ret", py_ret(ev["r"]))
        if k == "raise":
            return ("raise", EXC_CLASSES[ev["cls"]](EXC_TEXTS[ev["msg"]]))
        if k == "propagate":
            return ("propagate",)
        if k == "start":
            return None
        return ("act", ev)

    def close_cb(self, st):
        """The previous progress call had an open callback: its return value arrives first."""
        if st["cb_open"]:
            a = self.wait()
            st["cb_open"] = False
            if a[0] != "progressed":
                return {"o": "desync", "got": repr(a)[:120]}
            if st.get("prog_out") is not None:     # what the task got back from that progress call, and made of it
                st["prog_out"]["reply"] = canon_reply(a[1])
                st["prog_out"]["verdict"] = a[2]
                if len(a) > 3:
                    st["prog_out"]["task_p"] = a[3]
                st["prog_out"] = None
        return None

    def flight_step(self, ev, st, finish):
        """One in-flight event after its command was issued.  `finish()` -> outcome of the task's end."""
        k = ev["e"]
        if k == "start":
            a = self.wait()
            if a[0] != "started":
                return {"o": "desync", "got": repr(a)[:120]}
            out = {"o": "started", "args": canon_dict(a[1])}
            if not a[2]:
                out["no_progress_callback"] = True
            return out
        if k == "prog":
            bad = self.close_cb(st)
            if bad:
                return bad
            a = self.wait()
            if a[0] == "cb":
                st["cb_open"] = True
                st["prog_out"] = {"o": "progressed", "cb": a[1], "p": a[2], "relay": False}
                return st["prog_out"]      # "reply" / "verdict" are filled in when the callback has returned
            if a[0] == "progressed":
                relay = isinstance(a[1], dict) and a[1].get("cancel_requested", False) is True
                out = {"o": "progressed", "cb": None, "p": (a[3] if len(a) > 3 else ev["p"]), "relay": relay,
                       "reply": canon_reply(a[1]), "verdict": a[2]}
                if a[1] is not None and not relay:
                    out["returned"] = repr(a[1])[:60]
                return out
            if a[0] == "ended":
                return {"o": "task-ended", "how": a[1]}
            return {"o": "desync", "got": repr(a)[:120]}
        if k in ("ret", "raise"):
            bad = self.close_cb(st)
            if bad:
                return bad
            if self.coop:              # the cooperative task says so itself when it ends; anything else: it went on
                a = self.wait()
                if a[0] != "ended":
                    return {"o": "task-went-on", "got": repr(a)[:120]}
                if a[1] != k:
                    return {"o": "finished-otherwise", "how": a[1]}
            return finish()
        if k == "propagate":
            st["cb_open"] = False
            st["prog_out"] = None
            return finish()
        # caller action performed inside the callback
        a = self.wait()
        if a[0] == "acted":
            return a[1]
        return {"o": "not-performed", "got": repr(a)[:120]}

    def run_prefilled(self, word, mouts, outs, st, i, seg, is_async):
        """The execute call at index i together with its whole in-flight segment `seg`: every command of the segment
        is queued BEFORE the call, so the task (and the callbacks) never wait for the harness.  Synchronous call: there
        is no second thread at all.  Asynchronous call ("instant"): the worker thread runs the task through on its own;
        the interpreter's switch interval is raised for the duration of the execute_async call so that the worker keeps
        the interpreter from the moment it is started until it ends — the legal schedule in which the task is over
        before `Thread.start()` returns to `execute_async` (the opposite extreme, a worker that does nothing until the
        call has returned, is what the lock-step mode forces).  Returns the index to continue with, or None when the
        code left the model's path."""
        ev = word[i]
        for x in seg:
            c = self.cmd_of(word[x])
            if c is not None:
                self.cmds.put(c)
        self.prefilled = True
        calls_before = self.calls
        args, kw = self.call_args(ev)
        accepted_async = None
        try:
            if is_async:
                old = sys.getswitchinterval()
                sys.setswitchinterval(INSTANT_SWITCH)
                try:
                    r = self.job.execute_async(*args, **kw)
                finally:
                    sys.setswitchinterval(old)
                accepted_async = {"o": "accepted"} if r is self.job else {"o": "accepted", "returned": repr(r)[:40]}
                self.async_accepted = True
                res = None
                if not self.entered.wait(WAIT):
                    self.hung = True
                else:
                    self.thread.join(WAIT)
                    if self.thread.is_alive():
                        self.hung = True
            else:
                if ev.get("via") == "call":
                    res = {"val": canon_ret(self.job(*args, **kw))}
                else:
                    res = {"val": canon_ret(self.job.execute_sync(*args, **kw))}
        except Abort:
            res = {"aborted": True}
        except Exception as e:
            res = {"err": canon_exc(e), "cls": type(e).__name__, "text": str(e)[:200]}
        if self.hung:
            self.prefilled = False
            return None
        started = self.calls > calls_before
        if is_async and accepted_async is None:
            started = False
        if not started:
            outs[i] = {"o": "exc", "e": res["err"], "cls": res["cls"], "text": res["text"]} \
                if (res is not None and "err" in res) else {"o": "returned-without-running", "res": res}
            for x in seg:
                outs[x] = {"o": "not-executed"}
        else:
            outs[i] = accepted_async if is_async else {"o": "accepted"}
            for x in seg:
                outs[x] = self.flight_step(word[x], st, lambda: {"o": "finished", "sync": res})
        self.prefilled = False
        while not self.cmds.empty():
            self.cmds.get_nowait()
        while not self.acks.empty():
            self.acks.get_nowait()
        self.pushback = None
        st["cb_open"] = False
        st["prog_out"] = None
        if any(outs[x] is not None and outs[x]["o"] != mouts[x]["o"] for x in [i] + seg):
            return None                # the code left the model's path: what follows cannot be driven
        return (seg[-1] + 1) if seg else i + 1

    def run(self, word, mouts):
        """Execute `word`; `mouts` = the model's outputs (used only to skip events the model calls disabled
        and to find the end of a synchronous run).  Returns (outs, final)."""
        outs = [None] * len(word)
        phase = "top"                  # top | async
        st = {"cb_open": False}
        i = 0
        n = len(word)
        hook_done = self.hook is None
        left_path = False
        while i < n and not self.hung:
            if not hook_done and i >= self.hook[0]:
                hook_done = True
                self.hook[1]()
            ev = word[i]
            if mouts[i]["o"] == "disabled":
                outs[i] = {"o": "disabled"}
                i += 1
                continue
            k = ev["e"]
            if phase == "top":
                seg = None
                if k == "sync":
                    j = i + 1          # in-flight segment: up to the model's `finished`
                    while j < n and mouts[j]["o"] != "finished":
                        j += 1
                    seg = [x for x in range(i + 1, min(j + 1, n)) if mouts[x]["o"] != "disabled"]
                    if mouts[i]["o"] != "accepted":
                        seg = []
                elif k == "async" and self.instant:
                    seg = instant_segment(word, mouts, i)
                if seg is not None:
                    nxt = self.run_prefilled(word, mouts, outs, st, i, seg, k == "async")
                    if nxt is None:
                        left_path = True
                        break
                    i = nxt
                    continue
                outs[i] = self.perform(ev) if k in CALLER_TOP else {"o": "not-executable"}
                if k == "async" and outs[i]["o"] == "accepted":
                    phase = "async"
                    self.async_accepted = True
                if outs[i]["o"] != mouts[i]["o"]:
                    left_path = True
                    break
                i += 1
                continue
            # asynchronous flight, lock-step
            if k in CALLER_KINDS:
                if st["cb_open"] and ev.get("where") == "cb":
                    self.send(("act", ev))
                    outs[i] = self.flight_step(ev, st, None)
                else:
                    outs[i] = self.perform(ev)
                if outs[i]["o"] != mouts[i]["o"]:
                    left_path = True
                    break                  # e.g. a second execute accepted: stop, abort the worker, report
                i += 1
                continue
            c = self.cmd_of(ev)
            if c is not None:
                self.send(c)

            def finish():
                th = self.thread
                if th is None:
                    return {"o": "desync", "got": "no worker thread seen"}
                th.join(WAIT)
                if th.is_alive():
                    self.hung = True
                    return {"o": "hang", "at": "join"}
                return {"o": "finished", "sync": None}
            outs[i] = self.flight_step(ev, st, finish)
            if outs[i]["o"] in ("finished", "hang"):
                phase = "top"
            if outs[i]["o"] != mouts[i]["o"]:
                left_path = True
                break
            i += 1
        if not hook_done and not self.hung and not left_path:
            self.hook[1]()
        for x in range(n):
            if outs[x] is None:
                outs[x] = {"o": "not-executed"}
        self.cleanup()
        final = {"fnCalls": self.calls, "cbLog": self.cb_log}
        try:
            final["name"] = self.job.name
        except Exception as e:
            final["name"] = {"raised": f"{type(e).__name__}: {e}"[:120]}
        return outs, final

    def cleanup(self):
        """Never leave a worker blocked: abort whatever still waits, join it."""
        for _ in range(4):
            self.cmds.put(("abort",))
        if self.async_accepted and self.thread is None and not self.hung:
            # an accepted asynchronous run whose entry was never awaited: wait for the entry
            try:
                while True:
                    if self.acks.get(timeout=WAIT)[0] == "started":
                        break
            except queue.Empty:
                self.hung = True
        th = self.thread
        if th is not None and th is not threading.current_thread():
            th.join(WAIT)
            if th.is_alive():
                self.hung = True


# ------------------------------------------------------------------------------------------------
# comparison
# ------------------------------------------------------------------------------------------------
def out_matches(obs, mod):
    """Observed step vs. model step.  Returns None or a short reason."""
    o = mod["o"]
    if obs["o"] != o:
        return f"model {o}, code {obs['o']}" + (f" ({obs.get('cls')}: {obs.get('text')})" if obs["o"] == "exc" else "")
    if o == "exc":
        if obs["e"] == mod["e"] or (obs["e"] == "runtime?" and mod["e"] in RUNTIME_KINDS):
            return None
        return f"model raises {mod['e']}, code raises {obs['e']} ({obs.get('cls')}: {obs.get('text')})"
    if o == "status":
        if obs["s"] != mod["s"]:
            return f"status: model {mod['s']}, code {obs['s']}"
        if obs["msg"] != mod["msg"]:
            return f"stop_message: model {mod['msg']}, code {obs['msg']}"
        if obs["p"] != mod["p"]:
            return f"progress: model {mod['p']}/8, code {obs['p']}/8"
        if tuple(obs["flags"]) != PREDICATES[mod["s"]]:
            return f"is_running/is_complete/is_success/is_failed/is_waiting = {obs['flags']} in status {mod['s']}"
        if obs.get("str", mod["s"]) != mod["s"]:
            return f"str(job.status) = {obs['str']!r}, model {mod['s']!r}"
        return None
    if o == "name":
        return None if obs["s"] == mod["s"] else f"job.name: model {mod['s']!r}, code {obs['s']!r}"
    if o == "nameset":
        return None
    if o == "done":
        return None if "returned" not in obs else "cancel() returned a value"
    if o == "accepted":
        return None if "returned" not in obs else "execute_async did not return the job"
    if o == "results":
        return None if obs["r"] == norm_ret(mod["r"]) else f"results: model {norm_ret(mod['r'])}, code {obs['r']}"
    if o == "started":
        if obs.get("no_progress_callback"):
            return "the task did not receive a callable progress_callback"
        return None if obs["args"] == norm_dict(mod["args"]) else f"task arguments: model {norm_dict(mod['args'])}, code {obs['args']}"
    if o == "progressed":
        for f in ("cb", "p", "relay"):
            if obs[f] != mod[f]:
                return f"progress call {f}: model {mod[f]}, code {obs[f]}"
        if "reply" in mod and "reply" in obs:     # no "reply": the user's callback never returned (it let an exception escape)
            if obs.get("reply") != mod["reply"]:
                return f"the progress call returned {obs.get('reply')} to the task, model {mod['reply']}"
            if obs.get("verdict") != mod["verdict"]:
                return (f"cancel_requested(<what the progress call returned: {obs.get('reply')}>) = {obs.get('verdict')}, "
                        f"model {mod['verdict']}")
            return None
        return None if "returned" not in obs else "progress callback returned an unexpected value"
    if o == "finished":
        m, c = mod["sync"], obs["sync"]
        if m is None or c is None:
            return None if m is None and c is None else f"execute_sync outcome: model {m}, code {c}"
        if "val" in m:
            return None if c.get("val") == norm_ret(m["val"]) else f"execute_sync: model returns {norm_ret(m['val'])}, code {c}"
        if "err" in c and (c["err"] == m["err"] or (c["err"] == "runtime?" and m["err"] in RUNTIME_KINDS)):
            return None
        return f"execute_sync: model raises {m['err']}, code {c}"
    return None


def compare(word, outs, final, rep):
    """-> None or (index, reason)."""
    for i, (obs, mod) in enumerate(zip(outs, rep["outs"])):
        if mod["o"] == "disabled":
            continue
        r = out_matches(obs, mod)
        if r:
            return i, r
    mf = rep["final"]
    if final["fnCalls"] != mf["fnCalls"]:
        return len(word), f"task function entered {final['fnCalls']} times, model {mf['fnCalls']}"
    if [list(e) for e in final["cbLog"]] != mf["cbLog"]:
        return len(word), f"callback log {final['cbLog']}, model {mf['cbLog']}"
    if "name" in mf and "name" in final and final["name"] != mf["name"]:
        return len(word), f"job.name at the end {final['name']!r}, model {mf['name']!r}"
    return None


# ------------------------------------------------------------------------------------------------
# the property evaluated directly on what the real code did (independent of the Lean model)
# ------------------------------------------------------------------------------------------------
def direct_oracle(cfg, word, outs, final, hung):
    """Returns (signature, what) for the first clause of the property that the observed history breaks."""
    if hung:          # not reachable through `judge` (which raises HarnessTimeout first); kept as a safety net
        raise HarnessTimeout("hang detector fired")
    if outs and outs[0]["o"] == "ctor-exc":
        return "constructor-raises", (f"LocalJob(...) raised {outs[0]['cls']}: {outs[0]['text']} for the legal constructor "
                                      f"arguments {cfg}")
    accepted = None          # 'sync' | 'async'
    ended = None             # 'ret' | 'raise' | 'propagate'
    cancel_before_end = False
    cancel_seen = False
    ret_value = None
    exc_text = None
    expect_log = []
    cb = 1 if cfg["cb"] else None
    last_get = None
    final_seen = None
    passed_kw = set()
    known = {k for k, _ in cfg["cmd"]} | {k for k, _ in cfg["mapping"]} | {0} | set(cfg["names"])
    n_exec = 0               # execute calls performed so far
    n_rejected = 0           # ... of which refused
    route = None             # (task kwargs, mapping kwargs) the accepted call must produce, when it is decidable
    for ev, o in zip(word, outs):
        k = ev["e"]
        if o["o"] in ("disabled", "not-executed"):
            continue
        in_flight = accepted is not None and ended is None
        if k in ("sync", "async"):
            if ev["cbkw"] and accepted is None:
                cb = 2
            n_exec += 1
            passed_kw |= {kk for kk, _ in ev["kw"]}
            # "unknown arguments": a keyword nobody declared, or positional arguments beyond the declared
            # names + the ONE trailing max_samples a job takes
            unknown = [key_name(kk) for kk, _ in ev["kw"] if kk not in known]
            surplus = len(ev["args"]) - len(cfg["names"]) - 1
            if accepted is None and o["o"] != "exc":
                if unknown:
                    return "unknown-args-accepted", f"execute accepted the unknown keyword argument(s) {unknown}"
                if surplus > 0:
                    return "unknown-args-accepted", (
                        f"execute_{k} was given {len(ev['args'])} positional arguments {ev['args']} but the job declares "
                        f"{len(cfg['names'])} positional parameter(s) {[key_name(x) for x in cfg['names']]} (+ one trailing "
                        f"max_samples): the {surplus} surplus argument(s) were not rejected, the call was accepted"
                        + (" and the task was started" if final["fnCalls"] else ""))
                if n_exec == 1:
                    # a keyword argument can only fill a slot left OPEN (None); one that names a parameter whose value
                    # is FIXED — by a preset, whatever the fixed value is, or by a positional argument of this call —
                    # is an argument the job cannot use: the call must be refused
                    fixed_kw = unusable_keywords(cfg, ev)
                    if fixed_kw:
                        return "fixed-parameter-overridden", (
                            f"execute_{k}(positional {ev['args']}, keyword {ev['kw']}) was accepted although "
                            + "; ".join(f"{key_name(kk)!r} is fixed to {show_val(vv)} by {by}" for kk, vv, by in fixed_kw)
                            + " — only a parameter preset to None can be filled by keyword; the call must be refused with "
                            "'Unused parameters' / 'passed twice', the task not started and the job left WAITING"
                            + (" (the task was started)" if final["fnCalls"] else ""))
            if accepted is not None and o["o"] != "exc":
                return "executed-twice", "a second execute call was accepted"
            if o["o"] == "accepted":
                accepted = k
                if n_exec == 1:
                    route = spec_route(cfg, ev)
            elif accepted is None:
                n_rejected += 1
        elif k == "status":
            if o["o"] == "status" and o.get("str", o["s"]) != o["s"]:
                return "status-forms-differ", (f"job.status() says {o['s']!r} but str(job.status) says {o['str']!r}: the "
                                               "reported state is not one state")
            if in_flight:
                if o["o"] == "exc":
                    sig = "status-in-sync-callback" if (accepted == "sync" and o.get("cls") == "AttributeError") \
                        else "status-raises-while-running"
                    return sig, (f"job.status queried while the task runs ({'execute_sync, from the progress callback' if accepted == 'sync' else 'execute_async'}) "
                                 f"raised {o.get('cls')}: {o.get('text')} instead of reporting RUNNING")
                if o["o"] == "status" and o["s"] != "RUNNING":
                    return "status-not-running", f"status {o['s']} reported while the task has not returned"
            elif ended is not None and o["o"] == "status":
                # the truthful final state: the task RAISED -> ERROR with the exception's type and message, whether or
                # not a cancel had been requested ("failed ... if the task raised"; a task that raises never *returns*,
                # so "cancelled if cancellation was requested before it returned" does not apply); the task RETURNED ->
                # CANCELED when cancellation was requested before, else SUCCESS
                want = "ERROR" if ended in ("raise", "propagate") else ("CANCELED" if cancel_before_end else "SUCCESS")
                if o["s"] != want:
                    return "final-status-wrong", f"final status {o['s']}, expected {want} (task ended by {ended}, cancel before end: {cancel_before_end})"
                if ended == "raise" and o["msg"] != {"task": exc_text}:
                    return "final-message-wrong", f"stop_message {o['msg']} is not '<type>: <message>' of the task's exception"
                if ended == "ret" and o["msg"] != ("canceled" if cancel_before_end else None):
                    return "final-message-wrong", (f"stop_message {o['msg']} after a normal return "
                                                   f"({'cancel requested before it' if cancel_before_end else 'no cancel before it'})")
                if final_seen is not None and final_seen != (o["s"], json.dumps(o["msg"], sort_keys=True)):
                    return "final-state-changes", (f"the job reported the final state {final_seen} and later "
                                                   f"{(o['s'], o['msg'])}: more than one final state")
                final_seen = (o["s"], json.dumps(o["msg"], sort_keys=True))
            elif accepted is None and o["o"] == "status" and o["s"] != "WAITING":
                return "status-before-run", (f"status {o['s']} although no execute call has been accepted"
                                             + (f" ({n_rejected} call(s) were refused with an exception: a refused call must "
                                                "leave the job WAITING)" if n_rejected else ""))
        elif k == "cancel":
            cancel_seen = True
        elif k == "get":
            if in_flight and o["o"] == "exc" and o.get("cls") == "AttributeError" and accepted == "sync":
                return "status-in-sync-callback", ("get_results() called from the progress callback during execute_sync raised "
                                                   f"AttributeError: {o.get('text')} (it reads job.status) instead of refusing "
                                                   "with RuntimeError 'still running'")
            if ended is None and o["o"] == "results":
                return "results-while-running", "get_results() returned a value although the task has not returned"
            if o["o"] == "results" and ended in ("raise", "propagate") and o["r"] != {"t": "none"}:
                return "results-after-raise", (f"the task raised, yet get_results() returned the value {o['r']}"
                                               + (f" (the task function was entered {final['fnCalls']} times)"
                                                  if final["fnCalls"] != 1 else ""))
            if o["o"] == "results":
                if last_get is not None and last_get != o["r"]:
                    return "results-not-idempotent", f"get_results() returned {last_get} then {o['r']}"
                last_get = o["r"]
                if ended == "ret" and not cancel_before_end:
                    want = expected_results(cfg, ret_value, route)
                    if want is not None and o["r"] not in want:
                        return "results-wrong", f"get_results() returned {o['r']}, expected one of {want}"
        elif k == "start":
            if o["o"] == "started":
                foreign = [a for a, _ in o["args"] if a not in known and a not in passed_kw]
                if foreign:
                    return "args-misrouted", (f"the task was called with {o['args']}: the parameter(s) "
                                              f"{[key_name(a) if isinstance(a, int) else a for a in foreign]} are neither "
                                              f"declared by this job (names {cfg['names']}, preset {cfg['cmd']}) nor passed in "
                                              "any of its execute calls — arguments nobody passed to this job")
            if o["o"] == "started" and route is not None and o["args"] != sorted(([a, b] for a, b in route[0].items()),
                                                                                 key=lambda e: e[0]):
                return "args-misrouted", (f"the task was called with {o['args']}, the arguments passed "
                                          f"(positional {word_call(word)['args']}, keyword {word_call(word)['kw']}, preset "
                                          f"{cfg['cmd']}) amount to {sorted([a, b] for a, b in route[0].items())}")
        elif k == "prog":
            if o["o"] == "progressed" and not cancel_seen and cb is not None:
                expect_log.append([cb, ev["p"]])
                if o["cb"] != cb:
                    return "callback-not-invoked", f"progress {ev['p']}/8 was not passed to the user's callback"
                if o["p"] != ev["p"]:
                    return "callback-progress-wrong", f"the task reported progress {ev['p']}/8, the user's callback received {o['p']}/8"
        elif k in ("ret", "raise", "propagate"):
            if o["o"] in ("finished",):
                ended = k
                cancel_before_end = cancel_seen
                if k == "ret":
                    ret_value = ev["r"]
                if k == "raise":
                    exc_text = [ev["cls"], ev["msg"]]
                # (without a conversion function execute_sync hands out the untouched `_results`, None, after a raise:
                # no value of the task — modelled as it is, not judged)
                if accepted == "sync" and k == "raise" and o["sync"] is not None and \
                        o["sync"].get("val", {"t": "none"}) != {"t": "none"}:
                    return "sync-returns-after-raise", (
                        f"the task raised {EXC_CLASSES[ev['cls']].__name__}({EXC_TEXTS[ev['msg']]!r}) but execute_sync "
                        f"returned {o['sync']['val']} instead of failing"
                        + (f" (the task function was entered {final['fnCalls']} times)" if final["fnCalls"] != 1 else ""))
                if accepted == "sync" and k == "ret" and not cancel_before_end:
                    want = expected_results(cfg, ret_value, route)
                    got = o["sync"]
                    if want is not None and "val" in got and got["val"] not in want:
                        return "results-wrong", f"execute_sync returned {got['val']}, expected one of {want}"
    if final["fnCalls"] > 1:
        return "ran-twice", f"the task function was entered {final['fnCalls']} times"
    if accepted is None and final["fnCalls"] > 0:
        return "rejected-but-started", (f"every execute call was refused ({n_rejected} call(s) raised) but the task function "
                                        f"was entered {final['fnCalls']} time(s)")
    if accepted is not None and ended is not None and final["fnCalls"] != 1:
        return "ran-not-once", f"the task function was entered {final['fnCalls']} times"
    log = [list(e) for e in final["cbLog"]]
    if log[:len(expect_log)] != expect_log:
        return "callback-log", f"the user's callback saw {log}, the task reported {expect_log} before any cancel"
    return None


def expected_results(cfg, ret, route=None):
    """Admissible get_results() values after a successful run: the task's value, converted exactly once."""
    raw = norm_ret(ret)
    if not cfg["map"] or ret["t"] in ("none", "plain"):
        return [raw]
    if route is None:
        return None  # the mapping dictionary depends on earlier refused calls: left to the model comparison
    mp = route[1]
    if ret["t"] == "dict":
        return [{"t": "dict", "v": {"m": norm_val(ret["v"]), "kw": norm_dict([[a, b] for a, b in mp.items()])}}]
    out = []
    for it, v in ret["l"]:
        itd = {a: b for a, b in it}
        out.append([norm_dict(it), {"m": norm_val(v), "kw": norm_dict([[a, itd.get(a, b)] for a, b in mp.items()])}])
    return [{"t": "dlist", "l": out}]


def show_val(v):
    return repr(enc_val(v))


def unusable_keywords(cfg, ev):
    """For the FIRST execute call on a fresh job: the keyword arguments that name a parameter whose value is already
    fixed when the keywords are looked at — [(key, fixed value, fixed by what)] — read off the documented contract
    (positional arguments go to the declared names, one further positional is max_samples, a keyword fills a parameter
    preset to None: task first, then conversion), independently of the Lean model.  A keyword naming nothing the job
    has a slot for is not listed here (that is the `unknown` clause)."""
    names = cfg["names"]
    args = list(ev["args"])
    if len(args) > len(names) + 1:
        return []
    cmd = {a: (b, "the preset") for a, b in cfg["cmd"]}
    mp = {a: (b, "the preset") for a, b in cfg["mapping"]}
    if len(args) > len(names):
        mp[0] = (args.pop(), "the trailing positional argument of the call")
    for n_, a in zip(names, args):
        cmd[n_] = (a, "a positional argument of the call")
    out = []
    for kk, _ in ev["kw"]:
        slots = [d[kk] for d in (cmd, mp) if kk in d]
        if slots and all(v is not None for v, _ in slots):
            out.append((kk, slots[0][0], slots[0][1]))
    return out


def word_call(word):
    return next(e for e in word if e["e"] in ("sync", "async"))


def spec_route(cfg, ev):
    """What the FIRST execute call on a fresh job has to deliver, read off the documented contract of
    `LocalJob(fn, result_mapping_function, delta_parameters, command_param_names)`, written independently of the
    Lean model: positional arguments go to the declared names in order, one further positional argument is
    `max_samples` of the conversion, keyword arguments fill the parameters preset to None (task first, then
    conversion).  -> (task kwargs, conversion kwargs), or None when the call is not a plain legal one (then
    nothing is judged from it)."""
    names = cfg["names"]
    args = list(ev["args"])
    kw = {a: b for a, b in ev["kw"]}
    cmd = {a: b for a, b in cfg["cmd"]}
    mp = {a: b for a, b in cfg["mapping"]}
    if ev["cbkw"] or len(args) > len(names) + 1:
        return None
    if len(args) > len(names):
        mp[0] = args.pop()
    for n_, a in zip(names, args):
        if n_ in kw:
            return None
        cmd[n_] = a
    for d in (cmd, mp):
        for a in d:
            if d[a] is None and a in kw:
                d[a] = kw.pop(a)
    if kw:
        return None
    return cmd, mp


# ------------------------------------------------------------------------------------------------
# judging one history
# ------------------------------------------------------------------------------------------------
def trace(chk, scn, fixed=True):
    if "plain" in scn:
        return None              # an ordinary-use scenario: judged directly, no model history
    rep = chk.lean.ask({"op": "trace", "fixed": fixed, "cfg": scn["cfg"], "word": scn["word"]})
    if "err" in rep:
        raise core.LeanError(f"model rejected the history: {rep['err']}")
    return rep


def execute(scn, rep, hook=None):
    """Run one job history against the real code -> (outs, final)."""
    if "plain" in scn:
        if hook is not None:
            hook[1]()
        ok, what = plain_one(scn["plain"], scn["mode"])
        return [{"o": "plain", "ok": ok, "what": what}], {}
    try:
        runner = Runner(scn["cfg"], ctor=scn.get("ctor"), instant=bool(scn.get("instant")), hook=hook,
                        coop=scn.get("coop"))
    except Exception as e:      # the constructor of the real class refused legal arguments
        if hook is not None:
            hook[1]()
        return ([{"o": "ctor-exc", "cls": type(e).__name__, "text": str(e)[:200]}]
                + [{"o": "not-executed"}] * (len(scn["word"]) - 1), {"fnCalls": 0, "cbLog": []})
    outs, final = runner.run(scn["word"], rep["outs"])
    if runner.hung:
        raise HarnessTimeout(f"no acknowledgement from the controlled task within {WAIT} s while executing "
                             f"{[e['e'] for e in scn['word']]} (cfg {scn['cfg']}); outputs so far {outs}")
    return outs, final


def verdict(chk, scn, rep, outs, final):
    """-> None or (kind, signature, what, index) for one executed job history."""
    if "plain" in scn:
        if outs[0]["ok"]:
            return None
        sig = "status-in-sync-callback" if (scn["mode"] == "sync" and scn["plain"] != "none"
                                            and "AttributeError" in outs[0]["what"]) else "plain-callback-outcome"
        return ("violation", sig, outs[0]["what"], 0)
    diff = compare(scn["word"], outs, final, rep)
    bad = direct_oracle(scn["cfg"], scn["word"], outs, final, False)
    if diff is None:
        if bad is None:
            return None
        # code = model, yet the property evaluated directly on the observed history fails
        return ("violation", bad[0], bad[1] + " [the Lean model agrees with the code on this history: the model "
                "shares the behaviour, or the direct oracle reads the property differently — check both]",
                len(scn["word"]))
    idx, why = diff
    if bad is not None:
        sig, what = bad
        # does the model of the unrepaired code explain the observation?
        try:
            cur = trace(chk, scn, fixed=False)
            if compare(scn["word"], outs, final, cur) is None:
                what += " [the observed history is exactly that of the model of the unrepaired code, `step false`]"
        except core.LeanError:
            pass
        return ("violation", sig, what, idx)
    return ("broken", "model-vs-code", f"step {idx}: {why}; the direct evaluation of the property on this history holds", idx)


def judge(chk, scn, rep=None):
    """-> None or (kind, signature, what, index)."""
    if rep is None:
        rep = trace(chk, scn)
    outs, final = execute(scn, rep)
    return verdict(chk, scn, rep, outs, final)


def strip(scn):
    if "plain" in scn:
        return {"plain": scn["plain"], "mode": scn["mode"]}
    out = {"cfg": scn["cfg"], "word": scn["word"]}
    for f in ("ctor", "instant", "coop"):
        if scn.get(f):
            out[f] = scn[f]
    return out


# ------------------------------------------------------------------------------------------------
# several jobs in one process
# ------------------------------------------------------------------------------------------------
def run_group(jobs, reps, nest):
    """Create and execute the jobs in order in THIS process.  nest = None: one after the other.  nest = [a, idx]:
    jobs[:a] one after the other, then job a; before event idx of job a's word is performed (job a possibly in flight in
    its worker thread) the jobs a+1.. are created and executed completely on the caller thread, then job a goes on.
    -> [(outs, final)] per job."""
    results = [None] * len(jobs)
    if nest is None:
        for j, (scn, rep) in enumerate(zip(jobs, reps)):
            results[j] = execute(scn, rep)
        return results
    a, idx = nest
    for j in range(a):
        results[j] = execute(jobs[j], reps[j])

    def rest():
        for j in range(a + 1, len(jobs)):
            results[j] = execute(jobs[j], reps[j])
    results[a] = execute(jobs[a], reps[a], hook=(idx, rest))
    for j in range(a + 1, len(jobs)):
        if results[j] is None:      # job a left the model's path before the hook point: run the others anyway
            results[j] = execute(jobs[j], reps[j])
    return results


CHILD_MARK = "C18-CHILD-RESULT "


def child_main():
    """Entry point of a FRESH interpreter (`fresh_run`): execute a group, print what was observed."""
    data = json.loads(sys.stdin.read())
    silence_logger()
    threading.excepthook = quiet_abort
    try:
        res = run_group(data["jobs"], data["reps"], data["nest"])
        out = {"results": [[o, f] for o, f in res]}
    except HarnessTimeout as e:
        out = {"timeout": str(e)}
    sys.stdout.write("\n" + CHILD_MARK + json.dumps(out) + "\n")
    sys.stdout.flush()


def fresh_run(chk, jobs, nest):
    """The verdicts of the jobs of a group executed in a fresh Python process (nothing any earlier job of THIS
    process may have left behind — class attributes, default arguments, module globals — is there)."""
    reps = [trace(chk, j) for j in jobs]
    p = subprocess.run([sys.executable, "-W", "ignore", "-c", "from harness import c18; c18.child_main()"],
                       input=json.dumps({"jobs": jobs, "reps": reps, "nest": nest}), capture_output=True, text=True,
                       cwd=core.VERIF, timeout=6 * WAIT)
    line = next((ln for ln in p.stdout.splitlines() if ln.startswith(CHILD_MARK)), None)
    if line is None:
        raise HarnessTimeout(f"fresh-process run gave no result (exit {p.returncode}): {p.stderr[-400:]}")
    out = json.loads(line[len(CHILD_MARK):])
    if "timeout" in out:
        raise HarnessTimeout("fresh-process run: " + out["timeout"])
    return [verdict(chk, j, rep, o, f) for j, rep, (o, f) in zip(jobs, reps, out["results"])]


def drop_job(jobs, nest, x):
    """the group without job x (the outer job of a nesting removed -> plain sequence)"""
    jobs2 = jobs[:x] + jobs[x + 1:]
    if nest is None:
        return jobs2, None
    a, idx = nest
    if x == a:
        return jobs2, None
    return jobs2, [a - 1 if x < a else a, idx]


def confirm(chk, seen, jobs, nest, t, v):
    """A job history (jobs[t]) failed in this process with verdict v.  Decide in FRESH processes what the failing input
    is: the history alone, or the history after/while other jobs of the same process — and report accordingly."""
    kind, sig, what, _ = v
    go = seen.wanted(kind, sig)
    seen.sigs[("seen", kind, sig)] = seen.sigs.get(("seen", kind, sig), 0) + 1
    chk.count("failures", f"{kind}:{sig}")
    if not go:
        return
    if seen.replaying:
        chk.fail(kind, sig, what, strip(jobs[t]) if len(jobs) == 1 else {"jobs": jobs, "nest": nest, "failing_job": t})
        return

    def fails(js, ns, tt):
        r = fresh_run(chk, js, ns)[tt]
        return r if (r is not None and r[1] == sig) else None

    alone = fails([jobs[t]], None, 0)
    if alone is not None:
        chk.fail(alone[0], sig, alone[2], strip(jobs[t]))
        return
    cands = []
    if len(jobs) > 1:
        cands.append((jobs, nest, t))
    # the unshrunk original (a history minimised in a process whose earlier jobs matter is not trustworthy)
    orig = seen.original if seen.original is not None else jobs[t]
    recent = list(seen.history)[-10:]
    short = [j for j in seen.short if not any(j is r for r in recent)][-8:]
    for prefix in ([recent] if not short else [recent, short + recent]):
        if nest is None:
            cands.append((prefix + jobs[:t] + [orig], None, len(prefix) + t))
        else:
            cands.append((prefix + jobs, [nest[0] + len(prefix), nest[1]], len(prefix) + t))
    for js, ns, tt in cands:
        r = fails(js, ns, tt)
        if r is None:
            continue
        budget = 24
        x = len(js) - 1
        while x >= 0 and budget > 0:       # drop every job that is not needed
            if x != tt and len(js) > 2:
                js2, ns2 = drop_job(js, ns, x)
                tt2 = tt - 1 if x < tt else tt
                budget -= 1
                r2 = fails(js2, ns2, tt2)
                if r2 is not None:
                    js, ns, tt, r = js2, ns2, tt2, r2
            x -= 1
        others = len(js) - 1
        chk.fail(r[0], sig + "-after-other-jobs",
                 r[2] + f" [job {tt} of the replay: {others} other LocalJob(s) are created/executed in the same process "
                 f"{'while it is in flight / before it' if ns is not None else 'before it'}; the same history on a job "
                 "that is alone in a fresh process is handled correctly — state leaks from one job to another]",
                 {"jobs": [strip(j) for j in js], "nest": ns, "failing_job": tt})
        return
    seen.sigs[("unreproduced", kind, sig)] = seen.sigs.get(("unreproduced", kind, sig), 0) + 1
    chk.fail("broken", "depends-on-process-history",
             f"{kind} {sig}: {what} — observed in the check's process but reproduced neither alone nor after the preceding "
             "jobs in a fresh process: the outcome of a job depends on what ran earlier in the process (or is not "
             "deterministic)", {"jobs": [strip(j) for j in seen.history][-10:] + [strip(jobs[t])], "nest": None,
                                "failing_job": min(len(seen.history), 10)})


def group_sig(jobs, nest):
    return json.dumps([[word_sig(j) for j in jobs], nest])


def handle_group(chk, jobs, nest, seen):
    jobs = [strip(j) for j in jobs]
    reps = [trace(chk, j) for j in jobs]
    for j, rep in zip(jobs, reps):
        if rep is not None:
            note_branches(chk, j, rep)
    note_group(chk, jobs, reps, nest)
    results = run_group(jobs, reps, nest)
    chk.case(group_sig(jobs, nest), nontrivial=True,
             sample={"jobs": [j if "plain" in j else {"cfg": j["cfg"], "ctor": j.get("ctor"), "word": [e["e"] for e in j["word"]]}
                              for j in jobs], "nest": nest})
    for t, (j, rep, (outs, final)) in enumerate(zip(jobs, reps, results)):
        v = verdict(chk, j, rep, outs, final)
        if v is not None:
            seen.original = None
            confirm(chk, seen, jobs, nest, t, v)
            break
    for j in jobs:
        seen.record(j)


def shrink(chk, scn, sig):
    cur = copy.deepcopy(strip(scn))
    budget = 60

    def same(cand):
        try:
            rep = trace(chk, cand)
            if not is_closed(rep["final"]) or any(o["o"] == "disabled" for o in rep["outs"]):
                return False        # keep the history executable as written
            r = judge(chk, cand, rep)
        except HarnessTimeout:
            raise
        except Exception:
            return False
        return r is not None and r[1] == sig

    for i in range(1, len(cur["word"])):          # shortest prefix that still shows the same defect
        budget -= 1
        cand = {"cfg": cur["cfg"], "word": cur["word"][:i]}
        if same(cand):
            cur = strip(cand)
            break
        if budget <= 30:
            break
    changed = True
    while changed and budget > 0:
        changed = False
        for i in range(len(cur["word"]) - 1, -1, -1):
            cand = {"cfg": cur["cfg"], "word": cur["word"][:i] + cur["word"][i + 1:]}
            budget -= 1
            try:
                rep = trace(chk, cand)
                if not is_closed(rep["final"]) or any(o["o"] == "disabled" for o in rep["outs"]):
                    continue        # keep the history executable as written
                r = judge(chk, cand, rep)
            except HarnessTimeout:
                raise
            except Exception:
                r = None
            if r is not None and r[1] == sig:
                cur = strip(cand)
                changed = True
                break
            if budget <= 0:
                break
    return cur


# ------------------------------------------------------------------------------------------------
# histories
# ------------------------------------------------------------------------------------------------
RET0 = {"t": "dict", "v": 7}


def call(args=(), kw=(), cbkw=False, e="sync"):
    return {"e": e, "args": list(args), "kw": [list(x) for x in kw], "cbkw": cbkw}


def base_cfgs():
    """mode-independent constructor configurations for the three ways of passing the argument"""
    return {
        "positional": ({"names": [1], "cmd": [], "mapping": [[2, 3]], "map": True, "cb": True}, dict(args=[5])),
        "keyword": ({"names": [1], "cmd": [[1, None]], "mapping": [[2, 3]], "map": True, "cb": True}, dict(kw=[[1, 5]])),
        "preset": ({"names": [1], "cmd": [[1, 5]], "mapping": [[2, 3]], "map": True, "cb": True}, dict()),
    }


def letters_for(mode, callkw):
    ex = call(e=mode, **callkw)
    return [ex, {"e": "status"}, {"e": "cancel"}, {"e": "get"},
            {"e": "start"}, {"e": "prog", "p": 3, "u": "none"}, {"e": "ret", "r": RET0}, {"e": "raise", "cls": 0, "msg": 1},
            {"e": "propagate"}]


TASK_KINDS = ("start", "prog", "ret", "raise", "propagate")
CALLER_KINDS = ("status", "cancel", "get", "sync", "async", "setname", "getname")
CALLER_TOP = ("status", "cancel", "get", "async", "setname", "getname")     # executable outside a run as they are


def enumerate_words(chk, cfg, letters, max_task, max_caller, max_exec):
    """All model-enabled words within the bounds whose task, if accepted, has ended (closed words),
    found by breadth-first extension with the model's `ext` answers."""
    closed = []
    n_all = 0
    frontier = [([], 0, 0, 0)]
    while frontier:
        reqs = [{"op": "ext", "fixed": True, "cfg": cfg, "word": w, "letters": letters} for w, _, _, _ in frontier]
        reps = chk.lean.ask_many(reqs)
        nxt = []
        for (w, nt, nc, ne), rep in zip(frontier, reps):
            if "err" in rep:
                raise core.LeanError(rep["err"])
            n_all += 1
            if w and rep["phase"] in ("idle", "done"):
                closed.append(w)
            for a, en in zip(letters, rep["en"]):
                if not en:
                    continue
                k = a["e"]
                t, c, x = nt, nc, ne
                if k in TASK_KINDS:
                    t += 1
                elif k in ("sync", "async"):
                    x += 1
                else:
                    c += 1
                if t > max_task or c > max_caller or x > max_exec:
                    continue
                nxt.append((w + [a], t, c, x))
        frontier = nxt
    return closed, n_all


def is_closed(final):
    return final["phase"] in ("idle", "done")


def rand_dict(rng, keys_, pnone=0.4):
    ks = [k for k in keys_ if rng.random() < 0.5]
    rng.shuffle(ks)
    return [[k, (None if rng.random() < pnone else rand_value(rng))] for k in ks]


def rand_cfg(rng):
    names = rng.sample([1, 2, 3, 0], rng.randint(0, 3))
    return {"names": names, "cmd": rand_dict(rng, [1, 2, 3, 4, 0]), "mapping": rand_dict(rng, [0, 2, 4, 5]),
            "map": rng.random() < 0.6, "cb": rng.random() < 0.7}


def rand_call(rng, cfg, mode, malformed):
    """`malformed`: False | True (flavour drawn here) | "kw" (undeclared/duplicate keywords) | "surplus" (2..4
    positional arguments beyond the declared names, otherwise a legal call) | "both" | "fixed" (a keyword naming a
    parameter whose value a preset FIXES — preferably one that fixes a falsy value —, otherwise a legal call)."""
    names = cfg["names"]
    fixed = [k for k, v in cfg["cmd"] + cfg["mapping"] if v is not None
             and not any(k2 == k and v2 is None for k2, v2 in cfg["cmd"] + cfg["mapping"])]
    if malformed is True:
        malformed = rng.choice(["kw", "kw", "surplus", "surplus", "both"] + (["fixed"] * 3 if fixed else []))
    elif not malformed and fixed and rng.random() < 0.06:
        malformed = "fixed"
    if malformed == "fixed" and not fixed:
        malformed = "kw"
    if malformed in ("surplus", "both"):
        nargs = len(names) + rng.randint(2, 4)
    else:
        nargs = rng.randint(0, len(names) + (2 if malformed else 1))
    if not malformed and rng.random() < 0.7:
        nargs = min(nargs, len(names))
    if malformed == "fixed":
        nargs = min(nargs, len(names))
    args = [(None if rng.random() < 0.15 else rand_value(rng)) for _ in range(nargs)]
    fillable = [k for k, v in cfg["cmd"] if v is None] + [k for k, v in cfg["mapping"] if v is None]
    kw_keys = [k for k in dict.fromkeys(fillable) if rng.random() < 0.6]
    if malformed == "surplus":
        kw_keys = [k for k in kw_keys if k not in names]      # nothing but the surplus is wrong with the call
    elif malformed == "fixed":
        kw_keys = [k for k in kw_keys if k not in names[:nargs]]   # nothing but the fixed parameter is wrong
        falsy = [k for k in fixed if any(k2 == k and is_falsy(v2) for k2, v2 in cfg["cmd"] + cfg["mapping"])]
        kw_keys.append(rng.choice(falsy if (falsy and rng.random() < 0.7) else fixed))
    elif malformed:
        kw_keys += rng.sample([1, 2, 3, 4, 5, 6, 7, 0], rng.randint(1, 2))
    elif rng.random() < 0.1:
        kw_keys += [rng.choice([6, 7])]
    kw_keys = list(dict.fromkeys(kw_keys))
    rng.shuffle(kw_keys)
    kw = [[k, (None if rng.random() < 0.1 else rand_value(rng))] for k in kw_keys]
    pcb = 0.04 if malformed in (False, "surplus", "fixed") else 0.3
    return call(args=args, kw=kw, cbkw=(rng.random() < pcb), e=mode)


def rand_ret(rng):
    r = rng.random()
    if r < 0.5:
        return {"t": "dict", "v": rng.randint(0, 9)}
    if r < 0.7:
        return {"t": "dlist", "l": [[rand_dict(rng, [0, 2, 4, 5, 6]), rng.randint(0, 9)] for _ in range(rng.randint(0, 3))]}
    if r < 0.85:
        return {"t": "plain", "n": rng.randint(0, 9)}
    return {"t": "none"}


def rand_word(chk, rng, cfg, max_len, malformed, mode=None):
    """Random model-enabled closed word: at each position a random letter is proposed and the model says
    whether it is enabled."""
    mode = mode or rng.choice(["sync", "async"])
    word = []
    steps = rng.randint(3, max_len)
    closing = False
    for pos in range(4 * max_len):
        if len(word) >= steps:
            closing = True
        props = []
        for _ in range(6):
            r = rng.random()
            if closing:
                a = rng.choice([{"e": "start"}, {"e": "ret", "r": rand_ret(rng)},
                                rand_raise(rng)])
            elif r < 0.16:
                a = rand_call(rng, cfg, mode if rng.random() < 0.85 else rng.choice(["sync", "async"]),
                              malformed and rng.random() < 0.7)
                if a["e"] == "sync" and rng.random() < 0.3:
                    a["via"] = "call"            # job(...) instead of job.execute_sync(...)
            elif r < 0.27:
                a = {"e": "status"}
            elif r < 0.32:
                a = rand_name_event(rng)
            elif r < 0.42:
                a = {"e": "cancel"}
            elif r < 0.54:
                a = {"e": "get"}
            elif r < 0.62:
                a = {"e": "start"}
            elif r < 0.82:
                a = {"e": "prog", "p": rng.randint(0, 8), "u": rand_reply(rng), "uv": rng.randrange(3)}
            elif r < 0.90:
                a = {"e": "ret", "r": rand_ret(rng)}
            elif r < 0.95:
                a = rand_raise(rng)
            else:
                a = {"e": "propagate"}
            if a["e"] in CALLER_KINDS:
                a["where"] = rng.choice(["cb", "main"])
            props.append(a)
        rep = chk.lean.ask({"op": "ext", "fixed": True, "cfg": cfg, "word": word, "letters": props})
        if "err" in rep:
            raise core.LeanError(rep["err"])
        en = [a for a, e in zip(props, rep["en"]) if e]
        if en:
            word.append(en[0])
        if closing and phase_after(chk, cfg, word) in ("idle", "done"):
            break
    # post-completion actions (a late execute may be accepted if none was before: close again)
    for _ in range(rng.randint(1, 4)):
        word.append(rng.choice([{"e": "status"}, {"e": "get"}, {"e": "get"}, {"e": "cancel"},
                                rand_call(rng, cfg, mode, False)]))
    for a in ({"e": "start"}, {"e": "ret", "r": rand_ret(rng)}):
        if phase_after(chk, cfg, word) in ("idle", "done"):
            break
        word.append(a)
    word.extend([{"e": "status"}, {"e": "get"}, {"e": "get"}, {"e": "getname"}])
    return word


NAMES = ["run 1", "", "Job", "unnamed", "x", "sampling / n=3", "\u00e9t\u00e9"]


def rand_name_event(rng):
    r = rng.random()
    if r < 0.4:
        return {"e": "getname"}
    if r < 0.55:
        return {"e": "setname", "v": None, "w": "x" * rng.randrange(5)}     # not a string (which one: NOT_A_STRING)
    return {"e": "setname", "v": rng.choice(NAMES)}


def rand_reply(rng):
    """what the user's progress callback returns: mostly None"""
    r = rng.random()
    if r < 0.7:
        return "none"
    return rng.choice(["other", {"dict": None}, {"dict": True}, {"dict": False}, {"dict": False}])


def make_instant(chk, cfg, word):
    """Turn a word into one whose asynchronous run needs no caller thread while the task is in flight: in-flight
    caller actions that are not inside an open user callback are dropped (the others are marked "in the callback").
    -> the scenario with instant=True, or None if the task of the word is not an accepted execute_async that ends."""
    word = copy.deepcopy(word)
    for _ in range(len(word) + 1):
        rep = trace(chk, {"cfg": cfg, "word": word})
        mouts = rep["outs"]
        idx = next((x for x, (e, o) in enumerate(zip(word, mouts)) if e["e"] in ("sync", "async") and o["o"] == "accepted"),
                   None)
        if idx is None or word[idx]["e"] != "async":
            return None
        cb_open = False
        drop = None
        for x in range(idx + 1, len(word)):
            o = mouts[x]
            if o["o"] == "disabled":
                continue
            if word[x]["e"] in TASK_KINDS:
                cb_open = o["o"] == "progressed" and o["cb"] is not None
                if o["o"] == "finished":
                    break
            elif not cb_open:
                drop = x
                break
            else:
                word[x]["where"] = "cb"
        else:
            return None
        if drop is None:
            return {"cfg": cfg, "word": word, "instant": True} if is_closed(rep["final"]) else None
        del word[drop]
    return None


BARE_CTORS = [{"delta": "omit", "names": "omit", "mapfn": "omit"}, {"delta": "omit", "names": "explicit", "mapfn": "explicit"},
              {"delta": "omit", "names": "omit", "mapfn": "explicit"}, {"delta": "none", "names": "omit", "mapfn": "omit"},
              {"delta": "explicit", "names": "explicit", "mapfn": "explicit"}]


def rand_bare_job(chk, rng, max_len, mode=None):
    """a job constructed the short way — LocalJob(fn[, mapping function][, command_param_names=...]) without
    delta_parameters (3 times out of 5 omitted, else None or the explicit empty dictionaries) — with a random history"""
    cfg = {"names": rng.sample([1, 2, 3], rng.randint(0, 3)), "cmd": [], "mapping": [],
           "map": rng.random() < 0.5, "cb": rng.random() < 0.6}
    ctor = dict(rng.choice(BARE_CTORS[:3] if rng.random() < 0.6 else BARE_CTORS))
    word = rand_word(chk, rng, cfg, rng.randint(3, max_len), rng.random() < 0.12, mode=mode)
    return {"cfg": cfg, "word": word, "ctor": ctor}


def rand_group(chk, rng, max_len):
    """2..4 jobs of one process: mostly jobs constructed without delta_parameters, with different declared names and
    different numbers of arguments passed; with probability 0.4 the later jobs are created and executed while the
    first one is in flight (execute_async) or between two of its events"""
    k = rng.choice([2, 2, 2, 3, 3, 4])
    nested = rng.random() < 0.4
    jobs = []
    for j in range(k):
        mode = "async" if (nested and j == 0) else None
        if rng.random() < 0.8:
            jobs.append(rand_bare_job(chk, rng, max_len, mode))
        else:
            cfg = rand_cfg(rng)
            jobs.append({"cfg": cfg, "word": rand_word(chk, rng, cfg, rng.randint(3, max_len), False, mode=mode)})
    nest = [0, rng.randint(1, len(jobs[0]["word"]))] if nested else None
    return jobs, nest


def group_scenarios(chk, seen):
    """Deterministic multi-job histories: for sync/async x the three short constructor forms, a first job that is given
    all its positional arguments (+ the trailing max_samples) and ends by return / raise / cancel+return, then — or
    meanwhile — a second and a third job that declare other names and are given fewer arguments; and a job refused for
    an unknown argument followed by a job called legally.  Every job must behave as if it were alone."""
    n = 0
    ends = [[{"e": "ret", "r": RET0}], [{"e": "raise", "cls": 1, "msg": 1}], [{"e": "cancel", "where": "cb"}, {"e": "ret", "r": RET0}]]
    tail = [{"e": "status"}, {"e": "get"}, {"e": "status"}]
    for mi, mode in enumerate(("sync", "async")):
        for ci, ctor in enumerate(BARE_CTORS[:3]):
            for ei, end in enumerate(ends):
                a = {"cfg": {"names": [1, 2], "cmd": [], "mapping": [], "map": True, "cb": True}, "ctor": ctor,
                     "word": [call(args=[5, 6, 9], e=mode), {"e": "start"}, {"e": "prog", "p": 2}] + end + tail}
                b = {"cfg": {"names": [1], "cmd": [], "mapping": [], "map": True, "cb": True}, "ctor": ctor,
                     "word": [call(args=[7], e=("async" if (mi + ei) % 2 else "sync")), {"e": "start"}, {"e": "prog", "p": 5},
                              {"e": "status", "where": "cb"}, {"e": "ret", "r": {"t": "dlist", "l": [[[[0, 4]], 1], [[], 2]]}}] + tail}
                c = {"cfg": {"names": [3], "cmd": [], "mapping": [], "map": False, "cb": False}, "ctor": BARE_CTORS[(ci + 1) % 3],
                     "word": [{"e": "status"}, call(args=[], e=mode), {"e": "start"}, {"e": "prog", "p": 1},
                              {"e": "ret", "r": RET0}] + tail}
                nest = [0, 3] if (mode == "async" and ei != 1) or (ci == 0 and mode == "async") else None
                chk.branch("group-scenario")
                handle_group(chk, copy.deepcopy([a, b, c]), nest, seen)
                n += 1
            r = {"cfg": {"names": [1, 2], "cmd": [], "mapping": [], "map": False, "cb": False}, "ctor": ctor,
                 "word": [call(args=[5, 6], kw=[[6, 1]], e=mode), {"e": "status"}]}
            b = {"cfg": {"names": [2], "cmd": [], "mapping": [], "map": False, "cb": True}, "ctor": ctor,
                 "word": [call(args=[], e=mode), {"e": "start"}, {"e": "ret", "r": RET0}] + tail}
            chk.branch("group-scenario")
            handle_group(chk, copy.deepcopy([r, b]), None, seen)
            n += 1
    chk.extra["group_scenarios"] = n


def instant_scenarios(chk, seen):
    """Deterministic "instant" asynchronous histories (the task is over before execute_async's Thread.start() returns):
    raise at once / return at once / cancel requested beforehand / progress with the caller acting inside the callback."""
    cfg = {"names": [1], "cmd": [], "mapping": [[2, 3]], "map": True, "cb": True}
    ex = call(args=[5], e="async")
    tail = [{"e": "status"}, {"e": "get"}, {"e": "status"}, {"e": "get"}]
    words = [
        [ex, {"e": "start"}, {"e": "raise", "cls": 0, "msg": 1}],
        [ex, {"e": "start"}, {"e": "ret", "r": RET0}],
        [{"e": "cancel"}, ex, {"e": "start"}, {"e": "ret", "r": RET0}],
        [{"e": "cancel"}, ex, {"e": "start"}, {"e": "prog", "p": 2}, {"e": "raise", "cls": 2, "msg": 2}],
        [ex, {"e": "start"}, {"e": "prog", "p": 3}, {"e": "status", "where": "cb"}, {"e": "cancel", "where": "cb"},
         {"e": "prog", "p": 4}, {"e": "ret", "r": RET0}],
        [ex, {"e": "start"}, {"e": "prog", "p": 3}, {"e": "get", "where": "cb"}, {"e": "cancel", "where": "cb"},
         {"e": "raise", "cls": 4, "msg": 0}],
        [ex, {"e": "start"}, {"e": "prog", "p": 3}, {"e": "get", "where": "cb"}, {"e": "propagate"}],
    ]
    for w in words:
        chk.branch("instant-scenario")
        handle(chk, {"cfg": cfg, "word": copy.deepcopy(w + tail), "instant": True}, seen)


def note_group(chk, jobs, reps, nest):
    chk.branch("multi-job-group")
    chk.count("group-size", len(jobs))
    if nest is not None:
        chk.branch("multi-job-nested")
        o = reps[nest[0]]["outs"] if reps[nest[0]] is not None else []
        acc = next((x for x, oo in enumerate(o) if oo["o"] == "accepted"), None)
        fin = next((x for x, oo in enumerate(o) if oo["o"] == "finished"), len(o))
        if acc is not None and jobs[nest[0]]["word"][acc]["e"] == "async" and acc < nest[1] <= fin:
            chk.branch("other-job-while-in-flight")
    routed = set()          # keys some earlier job created without delta_parameters was given
    for j, rep in zip(jobs, reps):
        if rep is None:
            continue
        omitted = j.get("ctor", {}).get("delta") == "omit" and not j["cfg"]["cmd"] and not j["cfg"]["mapping"]
        if omitted:
            chk.branch("ctor-delta-omitted")
        if j.get("ctor", {}).get("names") == "omit" and not j["cfg"]["names"]:
            chk.branch("ctor-names-omitted")
        started = next((oo for oo in rep["outs"] if oo["o"] == "started"), None)
        if omitted and started is not None and routed - {k for k, _ in started["args"]} - {"ms"}:
            chk.branch("later-job-omits-argument")
        if omitted and started is not None and "ms" in routed and j["cfg"]["map"] and \
                not any(len(e.get("args", ())) > len(j["cfg"]["names"]) for e in j["word"] if e["e"] in ("sync", "async")):
            chk.branch("later-job-omits-max-samples")
        if omitted:
            for e in j["word"]:
                if e["e"] in ("sync", "async"):
                    names = j["cfg"]["names"]
                    routed |= set(names[:len(e["args"])])
                    if len(e["args"]) > len(names):
                        routed.add("ms")


def phase_after(chk, cfg, word):
    rep = chk.lean.ask({"op": "ext", "fixed": True, "cfg": cfg, "word": word, "letters": []})
    if "err" in rep:
        raise core.LeanError(rep["err"])
    return rep["phase"]


# ------------------------------------------------------------------------------------------------
# bookkeeping
# ------------------------------------------------------------------------------------------------
def note_branches(chk, scn, rep):
    word, mouts = scn["word"], rep["outs"]
    mode = None
    flight = False
    cancel = False
    rejected = 0             # execute calls refused so far on the still WAITING job
    cfg = scn["cfg"]
    known = {k for k, _ in cfg["cmd"]} | {k for k, _ in cfg["mapping"]} | {0} | set(cfg["names"])
    instant_end = None       # index of the last event of an "instant" asynchronous segment
    n_exec = 0               # execute calls made on the still WAITING job
    for pos, (ev, o) in enumerate(zip(word, mouts)):
        k, oo = ev["e"], o["o"]
        if oo == "disabled":
            chk.branch("disabled-skipped")
            continue
        chk.count("event", k)
        if k == "async" and oo == "accepted" and scn.get("instant") and not flight:
            seg = instant_segment(word, mouts, pos)
            if seg is not None:
                instant_end = seg[-1]
                chk.branch("async-instant")
                if any(word[x]["e"] not in TASK_KINDS for x in seg):
                    chk.branch("async-instant-cb-action")
        if instant_end == pos:
            if k == "raise":
                chk.branch("async-instant-raise")
            if k == "ret" and cancel:
                chk.branch("async-instant-cancel-return")
        if k in ("raise", "propagate") and cancel and flight:
            chk.branch(f"cancel-then-{k}-{mode}")
        if k in ("sync", "async") and mode is None:
            surplus = len(ev["args"]) - len(cfg["names"]) - 1
            unknown_kw = any(kk not in known for kk, _ in ev["kw"])
            n_exec += 1
            if n_exec == 1:
                for kk, vv, by in unusable_keywords(cfg, ev):
                    if by == "the preset":
                        chk.branch("fixed-preset-keyword")
                        chk.count("fixed-preset-keyword", show_val(vv))
                        if is_falsy(vv):
                            chk.branch("fixed-falsy-preset-keyword")
                            chk.branch(f"fixed-falsy-preset-keyword-{k}")
                            chk.branch("fixed-falsy-task-preset-keyword" if any(a == kk for a, _ in cfg["cmd"])
                                       else "fixed-falsy-conversion-preset-keyword")
                    elif kk == 0 and by.startswith("the trailing"):
                        chk.branch("max-samples-positional-and-keyword")
            if surplus > 0:
                chk.branch("surplus-positional")
                chk.branch(f"surplus-positional-{k}")
                chk.count("surplus-positional", min(surplus, 3))
                if not unknown_kw and not ev["cbkw"]:
                    chk.branch("surplus-positional-only")
            if unknown_kw:
                chk.branch("unknown-keyword")
            if oo == "accepted" and rejected:
                chk.branch("accepted-after-rejection")
            if oo == "exc":
                rejected += 1
        if k == "status" and mode is None and rejected:
            chk.branch("status-after-rejection")
        if k == "setname":
            chk.branch("name-type-error" if oo == "exc" else ("name-unnamed" if ev["v"] == "" else "name-set"))
        if k in ("setname", "getname") and flight:
            chk.branch("name-in-flight")
        if k == "prog" and "verdict" in o:
            if o["verdict"] is True and not o["relay"]:
                chk.branch("user-reply-cancel")
            if o["verdict"] == "crash":
                chk.branch("user-reply-crash")
            if o["relay"]:
                chk.branch("relay-understood")
        if k in ("sync", "async"):
            if oo == "accepted" and ev.get("via") == "call":
                chk.branch("job-call")
            if oo == "accepted":
                mode, flight = k, True
                chk.branch(k)
                if ev["args"]:
                    chk.branch("positional")
                if ev["kw"]:
                    chk.branch("keyword")
                if any(v is not None for _, v in scn["cfg"]["cmd"]):
                    chk.branch("preset")
                if any(is_falsy(v) for _, v in scn["cfg"]["cmd"] + scn["cfg"]["mapping"]):
                    chk.branch("falsy-preset-used")
                if any(is_falsy(v) for v in ev["args"][:len(scn["cfg"]["names"])]):
                    chk.branch("falsy-positional")
                if len(ev["args"]) > len(scn["cfg"]["names"]) and is_falsy(ev["args"][-1]):
                    chk.branch("falsy-max-samples")
                if any(is_falsy(v) for _, v in ev["kw"]):
                    chk.branch("falsy-keyword")
                if len(ev["args"]) > len(scn["cfg"]["names"]):
                    chk.branch("max-samples-pop")
            elif o["e"] == "assertion":
                chk.branch("exec-twice-rejected")
            else:
                chk.branch("rejected-args")
                chk.count("rejection", o["e"])
        elif k in ("status", "cancel", "get"):
            if flight:
                chk.branch(f"in-flight-{mode}")
                if mode == "async" and ev.get("where") == "cb":
                    chk.branch("cb-action-async")
                if k == "get":
                    chk.branch("results-while-running")
                if k == "cancel" and not cancel:
                    chk.branch("cancel-before-return")
            elif mode is not None and k == "cancel":
                chk.branch("cancel-after-return")
            if k == "cancel":
                cancel = True
        elif k == "prog":
            if o["relay"]:
                chk.branch("cancel-relayed")
            if o["cb"] is not None:
                chk.branch("callback-invoked")
        elif k == "ret":
            flight = False
            chk.count("final", "CANCELED" if cancel else "SUCCESS")
        elif k == "raise":
            flight = False
            chk.branch("raise")
            chk.branch(f"raise-{EXC_CLASSES[ev['cls']].__name__}")
            chk.count("raise-class", EXC_CLASSES[ev["cls"]].__name__)
            chk.count("final", "ERROR")
        elif k == "propagate":
            flight = False
            chk.branch("propagate")
            chk.count("final", "ERROR")
        if oo == "results" and isinstance(o["r"].get("v"), dict):
            chk.branch("mapping-conversion")
        if oo == "results" and o["r"] == {"t": "plain", "n": 0}:
            chk.branch("falsy-result")
        if oo == "finished" and o["sync"] is not None and o["sync"].get("val") == {"t": "plain", "n": 0}:
            chk.branch("falsy-result-sync")
        if oo == "results" and o["r"]["t"] == "dlist":
            chk.branch("results-list")
            if any(isinstance(v, dict) and any(is_falsy(b) for a, b in it if any(a == mk for mk, _ in v["kw"]))
                   for it, v in o["r"]["l"]):
                chk.branch("falsy-iteration-override")
    chk.count("length", len(word))


def word_sig(scn):
    if "plain" in scn:
        return json.dumps(["plain", scn["plain"], scn["mode"]])
    c = scn["cfg"]
    return json.dumps([c["names"], c["cmd"], c["mapping"], c["map"], c["cb"], scn.get("ctor"), bool(scn.get("instant")),
                       [[e.get(f) for f in ("e", "p", "r", "cls", "msg", "args", "kw", "cbkw", "where", "u", "v", "via")]
                        for e in scn["word"]], scn.get("coop")],
                      sort_keys=True)


def nontrivial(rep):
    """at least one caller action performed while the task is in flight"""
    flight = False
    for o in rep["outs"]:
        if o["o"] == "accepted":
            flight = True
        elif o["o"] == "finished":
            flight = False
        elif flight and o["o"] in ("status", "done", "results", "exc"):
            return True
    return False


class Seen:
    def __init__(self):
        self.sigs = {}
        self.history = collections.deque(maxlen=12)   # the job histories executed last in this process
        self.short = collections.deque(maxlen=12)     # ... those of jobs constructed without delta_parameters
        self.original = None
        self.replaying = False

    def record(self, scn):
        self.history.append(scn)
        if "plain" in scn or scn.get("ctor", {}).get("delta") in ("omit", "none"):
            self.short.append(scn)

    def wanted(self, kind, sig):
        """work on a (further) witness of this failure?  One witness per defect — but up to three attempts as long as
        none of the earlier ones could be reproduced in a fresh process"""
        n = self.sigs.get(("seen", kind, sig), 0)
        return n == 0 or (self.sigs.get(("unreproduced", kind, sig), 0) == n and n < 3)


def handle(chk, scn, seen, rep=None):
    if rep is None:
        rep = trace(chk, scn)
    note_branches(chk, scn, rep)
    res = judge(chk, scn, rep)
    chk.case(word_sig(scn), nontrivial=nontrivial(rep),
             sample={"cfg": scn["cfg"], "word": [e["e"] for e in scn["word"]]})
    if res is not None:
        kind, sig, what, idx = res
        if not seen.wanted(kind, sig):      # one minimised witness per defect; the rest is counted
            seen.sigs[("seen", kind, sig)] += 1
            chk.count("failures", f"{kind}:{sig}")
        else:
            # (the steps of a cooperative task are its own: its history cannot be edited event by event)
            small = strip(scn) if (os.environ.get("C18_NOSHRINK") or scn.get("coop")) else shrink(chk, scn, sig)
            r2 = judge(chk, small)
            if r2 is None or r2[1] != sig:
                small, r2 = strip(scn), res
            seen.original = strip(scn)
            confirm(chk, seen, [small], None, 0, (r2[0], sig, r2[2], r2[3]))
            seen.original = None
    seen.record(strip(scn))


PLAIN_PEEKS = {"status": lambda j: j.status(), "is_running": lambda j: j.is_running,
               "is_complete": lambda j: j.is_complete, "none": lambda j: None}


def plain_one(name, mode):
    """One ordinary use of a job — LocalJob(task, command_param_names=["n"]), a user callback that reads job.<name>
    and does not catch anything, execute_<mode>(3) — evaluated directly.  -> (ok, description of the outcome)."""
    from perceval.runtime import LocalJob

    entered = threading.Event()
    worker = []

    def task(n=None, progress_callback=None):
        worker.append(threading.current_thread())
        entered.set()
        out = []
        for i in range(n):
            progress_callback((i + 1) / n, "count")
            out.append(i * i)
        return {"results": out}

    peek = PLAIN_PEEKS[name]
    seen_log = []
    job = LocalJob(task, command_param_names=["n"])
    job.set_progress_callback(lambda p, ph: seen_log.append((p, peek(job))) and None)
    try:
        if mode == "sync":
            res = job.execute_sync(3)
        else:
            job.execute_async(3)
            waited = 0.0
            while not entered.wait(0.05):       # hang detector only; a task that is never entered (the call itself
                waited += 0.05                  # failed in the worker) shows as a completed job
                if job.is_complete:
                    break
                if waited > WAIT:
                    raise HarnessTimeout("plain scenario: the worker thread did not enter the task")
            if worker:
                worker[0].join(WAIT)
                if worker[0].is_alive():
                    raise HarnessTimeout("plain scenario: the worker thread did not finish")
            res = job.get_results() if job.is_complete else "not complete"
    except HarnessTimeout:
        raise
    except Exception as e:
        res = f"{type(e).__name__}: {e}"
    st = job.status
    ok = st() == "SUCCESS" and res == {"results": [0, 1, 4]} and [p for p, _ in seen_log] == [1 / 3, 2 / 3, 1.0]
    return ok, (f"a job LocalJob(task, command_param_names=['n']) whose progress callback reads job.{name}, run with "
                f"execute_{mode}(3): final status {st()} ({st.stop_message}), result {res!r}, callback saw {len(seen_log)} of "
                f"3 progress values; expected SUCCESS with [0, 1, 4] and 3 progress values (the outcome without any read)")


def plain_scenarios(chk, seen):
    """`callback_transparent` evaluated directly with ordinary (non-catching) user callbacks: a user who
    prints the job's state from the progress callback must get the same outcome as one who does not."""
    for name in PLAIN_PEEKS:
        for mode in ("sync", "async"):
            scn = {"plain": name, "mode": mode}
            outs, final = execute(scn, None)
            chk.case(("plain", name, mode), nontrivial=True)
            chk.branch("plain-callback")
            v = verdict(chk, scn, None, outs, final)
            if v is not None:
                seen.original = None
                confirm(chk, seen, [scn], None, 0, v)
            seen.record(scn)


def coop_scenario(chk, cfg, prog, cword, instant=False):
    """The closed loop of Model/C18Ext (`cstep`): the model says which step the cooperative task takes at every tick;
    the result is an ordinary history (Lean: coop_histories_are_histories) whose task events are then NOT commanded
    but left to the real cooperative task (`Runner.task_coop`, which uses the real cancel_requested)."""
    rep = chk.lean.ask({"op": "coop", "fixed": True, "cfg": cfg, "prog": prog, "word": cword})
    if "err" in rep:
        raise core.LeanError(f"model rejected the closed-loop history: {rep['err']}")
    word = []
    for e, t in zip(cword, rep["evs"]):
        if e["e"] != "tick":
            word.append(e)
        elif t is None:
            word.append({"e": "start"})                   # nothing to do for the task: disabled in the model, skipped
        elif t["e"] == "prog":
            word.append({"e": "prog", "p": t["p"], "u": e["u"], "uv": e.get("uv", 0)})
        else:
            word.append(t)
    scn = {"cfg": cfg, "word": word, "coop": prog}
    if instant:
        t = trace(chk, scn)
        acc = next((x for x, o in enumerate(t["outs"]) if o["o"] == "accepted"), None)
        if acc is not None and word[acc]["e"] == "async" and instant_segment(word, t["outs"], acc) is not None:
            scn["instant"] = True
    return scn, rep


def note_coop(chk, prog, rep):
    chk.branch("coop")
    chk.branch(f"coop-{prog['policy']}")
    st = rep["final"]["status"]
    msg = rep["final"]["msg"]
    if rep["final"]["cancelReq"] and rep["final"]["todo"] and prog["policy"] != "ignore" and rep["final"]["phase"] == "done":
        chk.branch("coop-cancel-cuts-task-short")
    if msg == {"task": [1, 5]}:
        chk.branch("coop-raise-cancel-requested")
    if msg == {"task": [6, 6]}:
        chk.branch("coop-attribute-error")
    if st == "SUCCESS" and rep["final"]["todo"] and prog["policy"] == "stop":
        chk.branch("coop-stopped-by-callback-success")
    if st == "CANCELED" and prog["policy"] == "stop" and rep["final"]["todo"]:
        chk.branch("coop-stop-canceled-partial")
    chk.count("coop-final", f"{prog['policy']}:{st}")


def rand_coop(chk, rng):
    cfg = rand_cfg(rng)
    mode = rng.choice(["sync", "async"])
    prog = {"reports": [rng.randint(0, 8) for _ in range(rng.randint(0, 5))], "result": rand_ret(rng),
            "partial": rng.choice([{"t": "dict", "v": 0}, {"t": "dlist", "l": []}, {"t": "none"},
                                   {"t": "dlist", "l": [[[], 1]]}]),
            "policy": rng.choice(["raise", "raise", "stop", "stop", "ignore"])}
    in_cb = rng.random() < 0.4          # all in-flight caller actions inside the callback (then "instant" is possible)
    cword = []
    if rng.random() < 0.15:
        cword.append({"e": "cancel"})
    cword.append(rand_call(rng, cfg, mode, False))
    if mode == "sync" and rng.random() < 0.3:
        cword[-1]["via"] = "call"
    n_ticks = len(prog["reports"]) + 3
    for _ in range(n_ticks):
        cword.append({"e": "tick", "u": rand_reply(rng) if rng.random() < 0.5 else "none", "uv": rng.randrange(3)})
        for _ in range(rng.choice([0, 0, 1, 1, 2])):
            a = rng.choice([{"e": "status"}, {"e": "cancel"}, {"e": "cancel"}, {"e": "get"}, {"e": "status"}])
            a = dict(a, where=("cb" if in_cb else rng.choice(["cb", "main"])))
            cword.append(a)
    cword += [{"e": "status"}, {"e": "get"}, {"e": "cancel"}, {"e": "status"}, {"e": "get"}]
    return cfg, prog, cword, (mode == "async" and in_cb and rng.random() < 0.7)


def coop_scenarios(chk, seen):
    """Deterministic closed-loop histories: policy raise / stop / ignore x sync / async / instant x the cancel requested
    before the run, from the callback after the first report, from the caller thread, never, or only by the user's
    callback returning {'cancel_requested': True} / an object without .get."""
    cfg = {"names": [1], "cmd": [], "mapping": [[2, 3]], "map": True, "cb": True}
    tail = [{"e": "status"}, {"e": "get"}, {"e": "status"}, {"e": "get"}]
    n = 0
    for policy in ("raise", "stop", "ignore"):
        prog = {"reports": [1, 2, 3, 4], "result": RET0, "partial": {"t": "dlist", "l": [[[[2, 8]], 1]]}, "policy": policy}
        for mode in ("sync", "async", "instant"):
            m = "async" if mode == "instant" else mode
            T = {"e": "tick", "u": "none"}
            variants = {
                "cancel-before": [{"e": "cancel"}, call(args=[5], e=m), T, T, T, T, T, T],
                "cancel-in-cb": [call(args=[5], e=m), T, T, {"e": "cancel", "where": "cb"}, T, T, T, T, T],
                "no-cancel": [call(args=[5], e=m), T, T, T, T, T, T, T],
                "callback-asks": [call(args=[5], e=m), T, T, {"e": "tick", "u": {"dict": True}}, T, T, T, T],
                "callback-no-get": [call(args=[5], e=m), T, T, {"e": "tick", "u": "other"}, T, T, T, T],
                "cancel-after-last-report": [call(args=[5], e=m), T, T, T, T, T, {"e": "cancel", "where": "cb"}, T, T],
            }
            if mode == "async":
                variants["cancel-main"] = [call(args=[5], e=m), T, T, {"e": "cancel", "where": "main"},
                                           {"e": "status", "where": "main"}, T, T, T, T, T]
            for name, cw in variants.items():
                scn, rep = coop_scenario(chk, cfg, prog, copy.deepcopy(cw + tail), instant=(mode == "instant"))
                note_coop(chk, prog, rep)
                chk.branch("coop-scenario")
                if scn.get("instant"):
                    chk.branch("coop-instant")
                handle(chk, scn, seen)
                n += 1
    chk.extra["coop_scenarios"] = n


# ------------------------------------------------------------------------------------------------
# the jobs Sampler creates (presets of delta_parameters / command_param_names), on local processors
# ------------------------------------------------------------------------------------------------
SAMPLER_KEYS = {0: "max_samples", 9: "max_shots", 7: "input_state", 6: "min_detected_photons"}
SAMPLER_IDS = {v: k for k, v in SAMPLER_KEYS.items()}
SAMPLER_INPUTS = [[1, 1], [1, 0], [0, 1], [2, 0]]


def sampler_preset(spec, probs_count):
    """which of the four presets of Model/C18Ext a (backend, method) pair gets (written from the contract: the
    backend's native command is used when it is the method asked for, else a conversion)"""
    native_probs = spec["backend"] == "SLOS"
    if native_probs:
        return {"k": "probsNative"} if spec["method"] == "probs" else {"k": "sampleViaProbs", "shots": spec["shots"]}
    if spec["method"] == "probs":
        return {"k": "probsViaSamples", "count": probs_count}
    return {"k": "samplesNative", "conv": spec["method"] == "sample_count"}


def sampler_call(how, mode):
    """the model's Call of a way of passing max_samples (Model/C18Ext `How.call`) + one unknown keyword form"""
    kind = how[0]
    args, kw = [], []
    if kind in ("pos", "posKw"):
        args = [how[1]]
    if kind == "pos2":
        args = [how[1], how[2]]
    if kind == "kw":
        kw = [[0, how[1]]]
    if kind == "posKw":
        kw = [[0, how[2]]]
    if kind == "kwx":
        kw = [[how[1], how[2]]]
    c = call(args=args, kw=kw, e=("async" if mode == "async" else "sync"))
    if mode == "call":
        c["via"] = "call"
    return c


def run_sampler(spec):
    """One real Sampler job on a local processor.  The Sampler is subclassed only to RECORD: the keyword arguments the
    task function receives (+ what it returned / raised, + the thread it ran in) and every call of the result conversion
    (input object, keyword arguments, output object).  -> observations, in the vocabulary of the job model."""
    import functools
    import perceval as pcvl
    from perceval.algorithm import Sampler

    rec = {"task": [], "conv": [], "thread": None, "raised": None, "returned": None, "cb": 0}

    def wrap_task(name):
        def task(self, *a, **kw):
            rec["thread"] = threading.current_thread()
            rec["task"].append({k: v for k, v in kw.items() if k != "progress_callback"})
            if a:
                rec["task"][-1]["*args"] = len(a)
            try:
                r = getattr(Sampler, name)(self, *a, **kw)
            except Exception as e:
                rec["raised"] = e
                raise
            rec["returned"] = r
            if isinstance(r, dict) and "results_list" in r:
                rec["raw"] = [id(e["results"]) for e in r["results_list"]]
            elif isinstance(r, dict) and "results" in r:
                rec["raw"] = [id(r["results"])]
            return r
        task.__name__ = name
        return task

    def wrap_conv(f):
        @functools.wraps(f)
        def conv(x, *a, **kw):
            out = f(x, *a, **kw)
            rec["conv"].append({"in": x, "kw": dict(kw), "out": out, "extra": len(a)})
            return out
        return conv

    ns = {n: wrap_task(n) for n in ("_probs_wrapper", "_samples_wrapper", "_probs_iterate_locally",
                                    "_samples_iterate_locally")}
    ns["_METHOD_MAPPING"] = {m: {k: wrap_conv(f) for k, f in d.items()} for m, d in Sampler._METHOD_MAPPING.items()}
    RecSampler = type("RecSampler", (Sampler,), ns)

    proc = pcvl.Processor(spec["backend"], pcvl.BS())
    proc.with_input(pcvl.BasicState(SAMPLER_INPUTS[0]))
    proc.min_detected_photons_filter(0)
    sampler = RecSampler(proc, max_shots_per_call=spec["shots"]) if spec["shots"] is not None else RecSampler(proc)
    its = []
    for it in spec["iters"]:
        d = {}
        for k, v in it:
            d[SAMPLER_KEYS[k]] = pcvl.BasicState(SAMPLER_INPUTS[v]) if k == 7 else v
        its.append(d)
    if its:
        sampler.add_iteration_list(its)
    job = getattr(sampler, spec["method"])
    obs = {"probs_count": Sampler.PROBS_SIMU_SAMPLE_COUNT, "outs": {}}
    if spec.get("name") is not None:
        job.name = spec["name"]

    def user_cb(p, phase=None):
        rec["cb"] += 1
        if spec.get("cancel") == "cb":
            job.cancel()

    if spec.get("cb") or spec.get("cancel") == "cb":
        job.set_progress_callback(user_cb)
    if spec.get("cancel") == "before":
        job.cancel()
    c = sampler_call(spec["how"], spec["mode"])
    args = list(c["args"])
    kw = {SAMPLER_KEYS.get(k, f"k{k}"): v for k, v in c["kw"]}
    ret = None
    try:
        if spec["mode"] == "async":
            r = job.execute_async(*args, **kw)
            obs["outs"]["exec"] = {"o": "accepted"} if r is job else {"o": "accepted", "returned": repr(r)[:40]}
            waited = 0.0
            while rec["thread"] is None and not job.is_complete:      # hang detector only
                threading.Event().wait(0.002)
                waited += 0.002
                if waited > WAIT:
                    raise HarnessTimeout("Sampler job: the worker thread did not enter the task")
            if rec["thread"] is not None:
                rec["thread"].join(WAIT)
                if rec["thread"].is_alive():
                    raise HarnessTimeout("Sampler job: the worker thread did not finish")
        else:
            ret = job(*args, **kw) if spec["mode"] == "call" else job.execute_sync(*args, **kw)
            obs["outs"]["exec"] = {"o": "accepted"}
            obs["sync_val"] = ret
    except HarnessTimeout:
        raise
    except Exception as e:
        if rec["task"]:
            obs["outs"]["exec"] = {"o": "accepted"}
            obs["sync_exc"] = e
        else:
            obs["outs"]["exec"] = {"o": "exc", "e": canon_exc(e), "cls": type(e).__name__, "text": str(e)[:200]}
    st = job.status
    obs["status"] = [st(), str(st), st.stop_message, [bool(job.is_running), bool(job.is_complete), bool(job.is_success),
                                                     bool(job.is_failed), bool(job.is_waiting)]]
    gets = []
    for _ in range(spec.get("gets", 2)):
        try:
            gets.append(("val", job.get_results()))
        except Exception as e:
            gets.append(("exc", e))
    obs["gets"] = gets
    st = job.status
    obs["status2"] = [st(), str(st), st.stop_message]
    obs["name"] = job.name
    obs["rec"] = rec
    return obs


def sampler_canon(obs, value):
    """a result value of a real Sampler job in the model's vocabulary: payload i of the task's raw result is `i`,
    a recorded conversion output is {"m": <its input>, "kw": <its keyword arguments>} — an object that is neither is
    reported as it is"""
    rec = obs["rec"]
    raw = rec.get("raw", [])

    def val(o, depth=0):
        if id(o) in raw:
            return raw.index(id(o))
        for c in rec["conv"]:
            if c["out"] is o and depth < 4:
                kw = sorted([[SAMPLER_IDS.get(k, f"?{k}"), v] for k, v in c["kw"].items()], key=lambda e: str(e[0]))
                out = {"m": val(c["in"], depth + 1), "kw": kw}
                if c["extra"]:
                    out["positional"] = c["extra"]
                return out
        return {"other": type(o).__name__}

    def itd(d):
        out = []
        for k, v in d.items():
            kid = SAMPLER_IDS.get(k, f"?{k}")
            out.append([kid, (SAMPLER_INPUTS.index(list(v)) if kid == 7 else v)])
        return sorted(out, key=lambda e: str(e[0]))

    if value is None:
        return {"t": "none"}
    if isinstance(value, dict) and "results" in value:
        return {"t": "dict", "v": val(value["results"])}
    if isinstance(value, dict) and "results_list" in value:
        return {"t": "dlist", "l": [[itd(e.get("iteration", {})), val(e["results"])] for e in value["results_list"]]}
    return {"t": "other", "repr": repr(value)[:80]}


def sampler_expected_type(spec):
    return {"probs": ("BSDistribution",), "sample_count": ("BSCount",), "samples": ("BSSamples", "list")}[spec["method"]]


def sampler_check(chk, spec):
    """-> None or (kind, signature, what)"""
    obs = run_sampler(spec)
    rec = obs["rec"]
    preset = sampler_preset(spec, obs["probs_count"])
    cfg = chk.lean.ask({"op": "preset", "preset": preset, "cb": bool(spec.get("cb") or spec.get("cancel") == "cb")})
    if "err" in cfg:
        raise core.LeanError(cfg["err"])
    cfg = cfg["cfg"]
    c = sampler_call(spec["how"], spec["mode"])
    # the task is the ENVIRONMENT of the job: how it ended (what it returned / raised) is read off the real run
    word = [{"e": "cancel"}] if spec.get("cancel") == "before" else []
    word += [c, {"e": "start"}]
    entered = bool(rec["task"])
    if entered and spec.get("cancel") == "cb" and rec["cb"] > 0:
        word += [{"e": "prog", "p": 0}, {"e": "cancel"}]      # the user's callback was invoked and called cancel()
    if rec["raised"] is not None:
        word.append({"e": "raise", "cls": 1, "msg": 1})
    elif entered:
        r = rec["returned"]
        if isinstance(r, dict) and "results_list" in r:
            retm = {"t": "dlist", "l": [[sampler_canon(obs, {"results_list": [e]})["l"][0][0], i]
                                         for i, e in enumerate(r["results_list"])]}
        elif isinstance(r, dict) and "results" in r:
            retm = {"t": "dict", "v": 0}
        else:
            retm = {"t": "none"}
        word.append({"e": "ret", "r": retm})
    n_exec = len(word)
    word += [{"e": "status"}] + [{"e": "get"}] * len(obs["gets"]) + [{"e": "status"}, {"e": "getname"}]
    if spec.get("name") is not None:
        word.insert(0, {"e": "setname", "v": spec["name"]})
        n_exec += 1
    rep = chk.lean.ask({"op": "trace", "fixed": True, "cfg": cfg, "word": word})
    if "err" in rep:
        raise core.LeanError(f"model rejected the Sampler history: {rep['err']}")
    mouts = rep["outs"]
    where = f"Sampler({spec['backend']}{', max_shots_per_call=%s' % spec['shots'] if spec['shots'] is not None else ''})" \
            f".{spec['method']} with {len(spec['iters'])} iteration(s), called {spec['mode']} {spec['how']}"

    def msg_of(m):
        if m is None:
            return None
        if rec["raised"] is not None and m == f"{type(rec['raised']).__name__}: {rec['raised']}":
            return {"task": [1, 1]}
        if m == "User has canceled the job":
            return "canceled"
        return {"other": str(m)[:200]}

    def status_out(s4):
        return {"o": "status", "s": s4[0], "str": s4[1], "msg": msg_of(s4[2]), "p": None,
                "flags": s4[3] if len(s4) > 3 else list(PREDICATES.get(s4[0], ()))}

    def get_out(g):
        if g[0] == "val":
            return {"o": "results", "r": sampler_canon(obs, g[1])}
        return {"o": "exc", "e": canon_exc(g[1]), "cls": type(g[1]).__name__, "text": str(g[1])[:200]}

    observed = []
    for ev, mo in zip(word, mouts):
        k = ev["e"]
        if k == "setname":
            observed.append({"o": "nameset"})
        elif k == "cancel":
            observed.append({"o": "done"})
        elif k in ("sync", "async"):
            observed.append(obs["outs"]["exec"])
        elif k == "start":
            if entered:
                t = rec["task"][0]
                observed.append({"o": "started", "args": sorted([[SAMPLER_IDS.get(a, f"?{a}"), b] for a, b in t.items()],
                                                                 key=lambda e: str(e[0]))})
            else:
                observed.append({"o": "disabled"})
        elif k in ("ret", "raise"):
            if c["e"] == "async":
                sync = None
            elif "sync_exc" in obs:
                e = obs["sync_exc"]
                sync = {"err": canon_exc(e), "cls": type(e).__name__, "text": str(e)[:200]}
            else:
                sync = {"val": sampler_canon(obs, obs.get("sync_val"))}
            observed.append({"o": "finished", "sync": sync})
        elif k == "prog":
            observed.append({"o": "progressed", "cb": 1, "p": 0, "relay": False})
        elif k == "status":
            first = not any(x["e"] == "status" for x in word[:len(observed)])
            observed.append(status_out(obs["status"] if first else obs["status2"]))
        elif k == "get":
            observed.append(get_out(obs["gets"][sum(1 for x in word[:len(observed)] if x["e"] == "get")]))
        elif k == "getname":
            observed.append({"o": "name", "s": obs["name"]})
    # ---- the property, directly ----------------------------------------------------------------
    vals = [g[1] for g in obs["gets"] if g[0] == "val"]
    if obs["outs"]["exec"]["o"] == "accepted" and not entered:
        return "violation", "accepted-not-run", f"{where}: the call was accepted but the task function was not entered"
    if len(rec["task"]) > 1:
        return "violation", "ran-twice", f"{where}: the task function was entered {len(rec['task'])} times"
    if spec["how"][0] == "kwx" and obs["outs"]["exec"]["o"] != "exc":
        return "violation", "unknown-args-accepted", f"{where}: the unknown keyword argument was accepted"
    if spec["how"][0] == "kwx" and entered:
        return "violation", "rejected-but-started", f"{where}: refused, but the task function was entered"
    if any(v is not vals[0] for v in vals[1:]) and any(sampler_canon(obs, v) != sampler_canon(obs, vals[0]) for v in vals[1:]):
        return "violation", "results-not-idempotent", (f"{where}: get_results() returned {sampler_canon(obs, vals[0])} and then "
                                                       f"{[sampler_canon(obs, v) for v in vals[1:]]}")
    if entered and rec["raised"] is None and vals:
        ended_ok = spec.get("cancel") is None
        want_status = "SUCCESS" if ended_ok else "CANCELED"
        if obs["status2"][0] != want_status and not (spec.get("cancel") == "cb" and rec["cb"] == 0):
            return "violation", "final-status-wrong", (f"{where}: the task returned, cancel {spec.get('cancel')}: final status "
                                                       f"{obs['status2'][0]}, expected {want_status}")
        r = rec["returned"]
        entries = r["results_list"] if (isinstance(r, dict) and "results_list" in r) else ([r] if isinstance(r, dict) and "results" in r else [])
        n_conv = len(rec["conv"])
        if cfg["map"] and entries and n_conv != len(entries):
            return "violation", "results-wrong", (f"{where}: {len(entries)} result(s) to convert, get_results() called "
                                                  f"{len(obs['gets'])} time(s) (+ execute_sync's own): the conversion ran "
                                                  f"{n_conv} time(s) — it must run exactly once per result")
        for i, e in enumerate(vals[0]["results_list"] if "results_list" in vals[0] else [vals[0]]):
            tn = type(e["results"]).__name__
            if tn not in sampler_expected_type(spec):
                return "violation", "results-wrong", (f"{where}: result {i} is a {tn}, expected {sampler_expected_type(spec)} "
                                                      "(not converted, or converted more than once)")
        # the arguments: what the user passed must be what the task / the conversion worked with
        how = spec["how"]
        passed = how[1] if how[0] in ("pos", "kw") else None
        if preset["k"] in ("samplesNative", "probsViaSamples") and how[0] == "pos" and rec["task"][0].get("max_samples") != passed:
            return "violation", "args-misrouted", (f"{where}: the task received max_samples={rec['task'][0].get('max_samples')}, "
                                                   f"the user passed {passed}")
        if preset["k"] == "samplesNative" and how[0] == "kw" and rec["task"][0].get("max_samples") != passed:
            return "violation", "args-misrouted", (f"{where}: the task received max_samples={rec['task'][0].get('max_samples')}, "
                                                   f"the user passed max_samples={passed}")
        if preset["k"] == "probsViaSamples" and how[0] == "nothing" and rec["task"][0].get("max_samples") != obs["probs_count"]:
            return "violation", "args-misrouted", (f"{where}: the task received max_samples={rec['task'][0].get('max_samples')}, "
                                                   f"the Sampler preset is {obs['probs_count']}")
        if preset["k"] == "sampleViaProbs" and how[0] in ("pos", "kw", "nothing"):
            its = [dict((SAMPLER_KEYS[k], v) for k, v in it) for it in spec["iters"]] or [{}]
            for i, (cv, it) in enumerate(zip(rec["conv"], its)):
                want = {"max_samples": it.get("max_samples", passed), "max_shots": it.get("max_shots", spec["shots"])}
                if cv["kw"] != want:
                    return "violation", "results-wrong", (f"{where}: result {i} was converted with {cv['kw']}, the job's "
                                                          f"conversion arguments for it are {want}")
                if spec["method"] == "samples" or spec["method"] == "sample_count":
                    ms, sh = want["max_samples"], want["max_shots"]
                    count = min(ms, sh) if (ms is not None and sh is not None) else (sh or ms)
                    got = len(cv["out"]) if spec["method"] == "samples" else sum(cv["out"].values())
                    if got != count:
                        return "violation", "results-wrong", (f"{where}: result {i} holds {got} samples, its conversion "
                                                              f"arguments {want} ask for {count}")
    if entered and rec["raised"] is not None:
        e = rec["raised"]
        if obs["status2"][0] != "ERROR" or obs["status2"][2] != f"{type(e).__name__}: {e}":
            return "violation", "final-status-wrong", (f"{where}: the task raised {type(e).__name__}: {e}; final status "
                                                       f"{obs['status2'][0]} ({obs['status2'][2]})")
    if obs["status"][0] != obs["status"][1]:
        return "violation", "status-forms-differ", f"{where}: job.status() = {obs['status'][0]!r}, str(job.status) = {obs['status'][1]!r}"
    # ---- model vs. code ------------------------------------------------------------------------
    for i, (o, m) in enumerate(zip(observed, mouts)):
        if m["o"] == "disabled" and o["o"] == "disabled":
            continue
        if o["o"] == "status":
            o = dict(o, p=m.get("p"))           # the progress value belongs to the simulator, not to the job
        why = out_matches(o, m)
        if why:
            return "broken", "model-vs-code", f"{where}: step {i} ({word[i]['e']}): {why}; the direct evaluation of the property holds"
    # the task side of the relay: a strong simulation reports its progress at least once and tests cancel_requested
    if spec.get("cancel") == "before" and spec["backend"] == "SLOS" and not spec["iters"] and entered:
        e = rec["raised"]
        if not (isinstance(e, RuntimeError) and str(e) == "Cancel requested"):
            return "broken", "cancel-not-seen-by-simulator", (
                f"{where}: cancel() was called before the run; the strong simulation tests cancel_requested(progress_callback(...)) "
                f"after its first progress report and raises RuntimeError('Cancel requested') (policy `raise` of the model: "
                f"coop_cancel_takes_effect) — it {'raised ' + repr(e) if e is not None else 'returned normally'}")
    # bookkeeping
    chk.branch("sampler")
    chk.branch(f"sampler-{preset['k']}")
    chk.branch(f"sampler-{spec['mode']}")
    chk.branch(f"sampler-how-{spec['how'][0]}")
    if spec["iters"]:
        chk.branch("sampler-iterated")
        if cfg["map"] and entered and rec["raised"] is None:
            chk.branch("sampler-iterated-conversion")
            if any(k in (0, 9) for it in spec["iters"] for k, _ in it) and preset["k"] == "sampleViaProbs":
                chk.branch("sampler-iteration-overrides-mapping")
    if obs["outs"]["exec"]["o"] == "exc":
        chk.branch("sampler-rejected")
        chk.count("sampler-rejection", obs["outs"]["exec"]["e"])
    if spec.get("cancel") and entered:
        chk.branch("sampler-cancel-raise" if rec["raised"] is not None else "sampler-cancel-return")
    chk.count("sampler-final", f"{spec['backend']}/{spec['method']}:{obs['status2'][0]}")
    return None


def rand_sampler_spec(rng):
    backend = rng.choice(["SLOS", "SLOS", "SLOS", "CliffordClifford2017"])
    method = rng.choice(["probs", "samples", "sample_count"])
    if backend != "SLOS" and method == "probs" and rng.random() < 0.7:
        method = rng.choice(["samples", "sample_count"])        # (10000 samples per probs call: keep them few)
    shots = rng.choice([None, None, 40, 300])
    iters = []
    if rng.random() < 0.5:
        for _ in range(rng.randint(1, 3)):
            it = []
            if rng.random() < 0.5:
                it.append([0, rng.randint(5, 60)])
            if rng.random() < 0.3:
                it.append([9, rng.randint(5, 60)])
            if rng.random() < 0.4:
                it.append([7, rng.randrange(1, 3)])
            if not it:
                it.append([7, rng.randrange(3)])
            iters.append(it)
    n = rng.randint(5, 80)
    r = rng.random()
    if r < 0.4:
        how = ["pos", n]
    elif r < 0.65:
        how = ["kw", n]
    elif r < 0.75:
        how = ["nothing"]
    elif r < 0.82:
        how = ["posKw", rng.choice([n, None]), rng.randint(5, 80)]
    elif r < 0.9:
        how = ["pos2", n, rng.randint(5, 80)]
    else:
        how = ["kwx", rng.choice([9, 7, 5]), rng.randint(1, 9)]
    native_probs = backend == "SLOS"
    if how[0] == "pos2" and not native_probs and method != "samples":
        # outside the model's assumption "the mapping function is total": the second positional is stored as the
        # conversion's max_samples, and samples_to_sample_count / samples_to_probs take no keyword at all — the
        # conversion raises TypeError and get_results() says "Results are not available" (observed, not judged)
        how = ["pos", n]
    # stay inside the model's assumptions: the conversion is total (it needs a sample count) and the sampling task is
    # given one (otherwise it raises — allowed, but then nothing is converted)
    needs_count = method != "probs"
    has_count = shots is not None or (how[0] in ("pos", "kw", "pos2") and how[1] is not None) or \
        (how[0] == "posKw" and how[1] is not None)
    if needs_count and not has_count and native_probs:
        shots = 50
    spec = {"backend": backend, "method": method, "shots": shots, "iters": iters, "how": how,
            "mode": rng.choice(["sync", "sync", "call", "async"]), "gets": rng.choice([1, 2, 2, 3]),
            "cb": rng.random() < 0.4, "cancel": rng.choice([None, None, None, None, "before", "cb"]),
            "name": rng.choice([None, None, "", "my sampling"])}
    if how[0] == "kwx" and how[1] == 9 and method != "probs" and native_probs and shots is None:
        spec["how"] = ["kwx", 7, 1]      # max_shots=… IS a legal keyword when the mapping entry is None
    return spec


def sampler_specs_fixed():
    """every (backend, method) x way of passing max_samples x sync/call/async, without and with iterations that override
    the conversion arguments, + cancel before the run"""
    out = []
    for backend in ("SLOS", "CliffordClifford2017"):
        for method in ("probs", "samples", "sample_count"):
            if backend != "SLOS" and method == "probs":
                hows = [["nothing"], ["pos", 40], ["kw", 40]]
            else:
                hows = [["pos", 30], ["kw", 30], ["nothing"], ["posKw", 30, 20], ["posKw", None, 20], ["pos2", 30, 20],
                        ["kwx", 7, 1]]
            if backend != "SLOS" and method == "sample_count":
                hows.remove(["pos2", 30, 20])     # (conversion without keywords: see rand_sampler_spec)
            for hi, how in enumerate(hows):
                for ii, iters in enumerate(([], [[[0, 7]], [[7, 1]], [[0, 9], [9, 8]]])):
                    shots = 50 if (method != "probs" and how[0] in ("nothing",)) or hi % 3 == 2 else None
                    out.append({"backend": backend, "method": method, "shots": shots, "iters": iters, "how": how,
                                "mode": ["sync", "call", "async"][(hi + ii) % 3], "gets": 2 + (hi % 2), "cb": bool(ii),
                                "cancel": None, "name": None})
            for iters in ([], [[[0, 7]], [[7, 1]]]):
                for cancel in ("before", "cb"):
                    out.append({"backend": backend, "method": method, "shots": 50, "iters": iters, "how": ["pos", 30]
                                if method != "probs" else ["nothing"], "mode": "sync", "gets": 2, "cb": True,
                                "cancel": cancel, "name": "cancelled run"})
    return out


def handle_sampler(chk, spec, seen):
    res = sampler_check(chk, spec)
    chk.case(("sampler", json.dumps(spec, sort_keys=True)), nontrivial=bool(spec["iters"]) or spec["mode"] == "async",
             sample=spec)
    if res is not None:
        kind, sig, what = res
        if seen.wanted(kind, sig):
            seen.sigs[("seen", kind, sig)] = seen.sigs.get(("seen", kind, sig), 0) + 1
            small = shrink_sampler(chk, spec, sig)
            r2 = sampler_check(chk, small)
            chk.fail(kind, sig, (r2 or res)[2], {"sampler": small if r2 else spec})
        else:
            seen.sigs[("seen", kind, sig)] += 1
        chk.count("failures", f"{kind}:{sig}")


def shrink_sampler(chk, spec, sig):
    cur = copy.deepcopy(spec)

    def same(cand):
        try:
            r = sampler_check(chk, cand)
        except HarnessTimeout:
            raise
        except Exception:
            return False
        return r is not None and r[1] == sig
    for f, v in (("name", None), ("cb", False), ("cancel", None), ("gets", 2), ("gets", 1), ("mode", "sync"), ("shots", None)):
        cand = dict(cur, **{f: v})
        if cand != cur and same(cand):
            cur = cand
    while cur["iters"]:
        for i in range(len(cur["iters"])):
            cand = dict(cur, iters=cur["iters"][:i] + cur["iters"][i + 1:])
            if same(cand):
                cur = cand
                break
        else:
            break
    return cur


def sampler_part(chk, seen):
    specs = sampler_specs_fixed()
    for spec in specs:
        chk.branch("sampler-scenario")
        handle_sampler(chk, spec, seen)
    n = chk.pick(150, 900)
    for _ in range(n):
        handle_sampler(chk, rand_sampler_spec(chk.rng), seen)
    chk.extra["sampler_jobs"] = {"fixed": len(specs), "random": n}


def extension_scenarios(chk, seen):
    """Deterministic histories for the extended machine (Model/C18Ext): the job's name read and set before, during
    (from the callback and from the caller thread) and after the run — non-empty, empty, not a string —, `job(...)`
    instead of `execute_sync(...)`, user callbacks that return None / a dict with and without 'cancel_requested' / an
    object without `.get`, the relay after a cancel, both result shapes."""
    cfg = {"names": [1], "cmd": [], "mapping": [[2, 3], [0, None]], "map": True, "cb": True}
    retl = {"t": "dlist", "l": [[[[0, 4]], 1], [[], 2], [[[2, None], [6, 1]], 3]]}
    n = 0
    for mode in ("sync", "async", "instant"):
        for ri, ret in enumerate((RET0, retl)):
            m = "async" if mode == "instant" else mode
            ex = call(args=[5], e=m)
            if mode == "sync":
                ex["via"] = "call"
            w = "cb"
            word = [{"e": "getname"}, {"e": "setname", "v": ""}, {"e": "getname"}, {"e": "setname", "v": None, "w": "x" * ri},
                    ex, {"e": "start"}, {"e": "prog", "p": 1, "u": "none"},
                    {"e": "setname", "v": "in flight", "where": w}, {"e": "getname", "where": w}, {"e": "status", "where": w},
                    {"e": "prog", "p": 2, "u": {"dict": True}, "uv": ri}, {"e": "setname", "v": None, "where": w},
                    {"e": "prog", "p": 3, "u": {"dict": None}, "uv": ri}, {"e": "prog", "p": 4, "u": "other"},
                    {"e": "prog", "p": 5, "u": {"dict": False}, "uv": ri}, {"e": "cancel", "where": w},
                    {"e": "prog", "p": 6, "u": "none"}, {"e": "prog", "p": 7, "u": {"dict": False}},
                    {"e": "ret", "r": ret}, {"e": "status"}, {"e": "get"}, {"e": "setname", "v": "done"}, {"e": "get"},
                    {"e": "getname"}]
            scn = {"cfg": cfg, "word": copy.deepcopy(word)}
            if mode == "instant":
                scn["instant"] = True
            chk.branch("extension-scenario")
            handle(chk, scn, seen)
            n += 1
            if mode == "async":        # the same with the in-flight name operations on the caller thread
                for e in word:
                    if e.get("where") == "cb" and e["e"] in ("setname", "getname"):
                        e["where"] = "main"
                handle(chk, {"cfg": cfg, "word": copy.deepcopy(word)}, seen)
                n += 1
    chk.extra["extension_scenarios"] = n


def argument_scenarios(chk, seen):
    """"Unknown arguments are rejected before the task starts", for all ways of passing them: for sync/async x
    0..2 declared positional names x every kind of illegal call (2/3/4 surplus positionals alone, with legal
    keywords, with an unknown keyword; unknown keyword alone; a parameter passed twice) the history
        execute(bad) ; status ; execute(good) ; start ; progress ; return ; status ; get_results ; get_results
    is run: the refused call must raise, leave the job WAITING with the task not entered, and the job must still
    run properly afterwards.  A legal control (exactly ONE extra positional = max_samples) runs the same way."""
    n = 0
    for mode in ("sync", "async"):
        for nn in (0, 1, 2):
            names = [1, 2][:nn]
            cfg = {"names": names, "cmd": [[3, None], [4, 7]], "mapping": [[0, None], [5, None], [2, 3]],
                   "map": True, "cb": True}
            legal = list(range(11, 11 + nn))
            bads = []
            for extra in (2, 3, 4):
                pos = legal + list(range(21, 21 + extra))
                bads.append(call(args=pos, e=mode))
                bads.append(call(args=pos, kw=[[3, 8]], e=mode))
                bads.append(call(args=pos, kw=[[6, 1]], e=mode))
            bads.append(call(args=legal, kw=[[6, 1]], e=mode))
            bads.append(call(args=legal, kw=[[7, None], [6, 2]], e=mode))
            if nn:
                bads.append(call(args=legal, kw=[[1, 9]], e=mode))
            goods = [call(args=legal, kw=[[3, 8], [5, 2]], e=mode), call(args=legal + [50], kw=[[5, 2]], e=mode)]
            for bi, bad in enumerate(bads):
                good = goods[bi % 2]
                ret = RET0 if bi % 3 else {"t": "dlist", "l": [[[[5, 4]], 1], [[], 2]]}
                where = "cb" if bi % 2 else "main"
                word = [bad, {"e": "status", "where": where}, good, {"e": "start"}, {"e": "prog", "p": 4},
                        {"e": "ret", "r": ret}, {"e": "status"}, {"e": "get"}, {"e": "get"}]
                chk.branch("argument-scenario")
                handle(chk, {"cfg": cfg, "word": copy.deepcopy(word)}, seen)
                n += 1
            for good in goods:               # controls: the legal calls alone
                word = [good, {"e": "start"}, {"e": "prog", "p": 4}, {"e": "ret", "r": RET0}, {"e": "status"}, {"e": "get"}]
                handle(chk, {"cfg": cfg, "word": copy.deepcopy(word)}, seen)
                n += 1
    chk.extra["argument_scenarios"] = n


def fixed_preset_scenarios(chk, seen):
    """A keyword argument naming a parameter whose value is FIXED must be refused whatever the fixed value is: for
    sync/async x where the value is fixed (task preset, conversion preset, `max_samples` given positionally in the same
    call) x the fixed value (an ordinary integer, every falsy non-None object of VALUE_OBJECTS, True) the history
        execute(bad) ; status ; execute(good) ; start ; progress ; return ; status ; get_results ; get_results
    is run; the good call passes FALSY values legally (positionally, by keyword into open slots, as max_samples) and the
    task returns iterations that override the conversion arguments with falsy values: all of them must arrive."""
    n = 0
    for mode in ("sync", "async"):
        for vi, val in enumerate([7] + FALSY_VALUES + [97]):
            for target in ("cmd", "mapping", "max-samples"):
                cfg = {"names": [1], "cmd": [[3, None], [4, val if target == "cmd" else 6]],
                       "mapping": [[0, None], [5, None], [2, val if target == "mapping" else 3]], "map": True, "cb": True}
                if target == "cmd":
                    bad = call(args=[11], kw=[[4, 9]], e=mode)
                elif target == "mapping":
                    bad = call(args=[11], kw=[[3, 8], [2, 9]], e=mode)
                else:
                    bad = call(args=[11, val], kw=[[0, 9]], e=mode)
                goods = [call(args=[FALSY_VALUES[vi % len(FALSY_VALUES)]], kw=[[3, FALSY_VALUES[(vi + 1) % len(FALSY_VALUES)]],
                                                                             [5, FALSY_VALUES[(vi + 2) % len(FALSY_VALUES)]]], e=mode),
                         call(args=[11, FALSY_VALUES[(vi + 3) % len(FALSY_VALUES)]], kw=[[5, 2]], e=mode)]
                good = goods[(vi + len(target)) % 2]
                ret = RET0 if (vi + len(target)) % 3 == 0 else \
                    {"t": "dlist", "l": [[[[5, FALSY_VALUES[vi % len(FALSY_VALUES)]]], 1], [[], 2], [[[2, 0], [0, 91]], 3]]}
                where = "cb" if vi % 2 else "main"
                word = [bad, {"e": "status", "where": where}, good, {"e": "start"}, {"e": "prog", "p": 4},
                        {"e": "ret", "r": ret}, {"e": "status"}, {"e": "get"}, {"e": "get"}]
                chk.branch("fixed-preset-scenario")
                handle(chk, {"cfg": cfg, "word": copy.deepcopy(word)}, seen)
                n += 1
    chk.extra["fixed_preset_scenarios"] = n


def exception_scenarios(chk, seen):
    """"Failed with the exception's type and message if the task raised", whatever the type: for every class of
    EXC_CLASSES x sync / async lock-step / async instant, the task raises it from its body — at once, or after a progress
    report the user's callback has seen —; the task must have been entered once, the callback must have seen the report
    once, the job must be ERROR with '<type>: <message>', get_results() and execute_sync must fail."""
    cfg = {"names": [1], "cmd": [], "mapping": [[2, 3]], "map": True, "cb": True}
    tail = [{"e": "status"}, {"e": "get"}, {"e": "status"}, {"e": "get"}]
    n = 0
    for ci in range(len(EXC_CLASSES)):
        for mi, mode in enumerate(("sync", "async", "instant")):
            ex = call(args=[5], e="sync" if mode == "sync" else "async")
            body = [{"e": "start"}] + ([] if (ci + mi) % 3 == 0 else [{"e": "prog", "p": 3}, {"e": "status", "where": "cb"}])
            word = [ex] + body + [{"e": "raise", "cls": ci, "msg": (ci + mi) % len(EXC_TEXTS)}] + tail
            scn = {"cfg": cfg, "word": copy.deepcopy(word)}
            if mode == "instant":
                scn["instant"] = True
            chk.branch("exception-scenario")
            handle(chk, scn, seen)
            n += 1
    chk.extra["exception_scenarios"] = n


# ------------------------------------------------------------------------------------------------
# RACE PART (Model/C18Race.lean): the asynchronous run under forced schedules of single shared-memory accesses
# ------------------------------------------------------------------------------------------------
# The real LocalJob is executed with ITS shared memory instrumented: the JobStatus object and the job are instances of
# subclasses whose attribute access announces every read/write of `_status`, `_stop_message`, `_running_progress`,
# `_cancel_requested`, every write of `_results`, every `_worker.is_alive()` and the end of the worker's target, and blocks
# until the scheduler (the harness thread) grants it.  Exactly one of the two threads (a caller actor thread, the job's
# own worker thread) runs at any time, so a schedule — the sequence of grants — determines the execution completely: no
# sleeps, no timing.  None of the job's code is replaced; the instrumentation only waits.
RACE_R = {"_status": "R_status", "_stop_message": "R_stop_message", "_running_progress": "R_running_progress"}
RACE_W = {"_status": "W_status", "_stop_message": "W_stop_message", "_running_progress": "W_running_progress"}


class RaceSched:
    def __init__(self):
        self.roles = {}                    # thread ident -> "C" | "W"
        self.armed = {"C": False, "W": False}
        self.posts: queue.Queue = queue.Queue()
        self.go = {"C": queue.Queue(), "W": queue.Queue()}

    def role(self):
        return self.roles.get(threading.get_ident())

    def point(self, label, out=None):
        r = self.role()
        if r is None or not self.armed[r]:
            return None
        self.posts.put((r, "point", label, out))
        try:
            tok = self.go[r].get(timeout=2 * WAIT)
        except queue.Empty:
            raise Abort()
        if tok == "abort":
            raise Abort()
        return tok


def race_classes(sched):
    from perceval.runtime import LocalJob
    from perceval.runtime.job_status import JobStatus

    class TracedStatus(JobStatus):
        def __getattribute__(self, name):
            if name in RACE_R:
                sched.point(RACE_R[name])
            return object.__getattribute__(self, name)

        def __setattr__(self, name, value):
            if name in RACE_W:
                sched.point(RACE_W[name])
            object.__setattr__(self, name, value)

    class WorkerProxy:
        def __init__(self, th):
            self._th = th

        def is_alive(self):
            sched.point("R_alive")
            return self._th.is_alive()

        def __getattr__(self, name):
            return getattr(self._th, name)

    class TracedJob(LocalJob):
        def __getattribute__(self, name):
            if name == "_cancel_requested":
                sched.point("R_cancel_requested")
            elif name == "_worker":
                th = object.__getattribute__(self, "_worker")
                return None if th is None else WorkerProxy(th)
            return object.__getattribute__(self, name)

        def __setattr__(self, name, value):
            if name == "_cancel_requested":
                sched.point("W_cancel_requested")
            elif name == "_results":
                sched.point("W_results")
            object.__setattr__(self, name, value)

        def _call_fn_safe(self, *a, **k):
            if sched.role() is None:              # the worker thread (in synchronous mode it is the caller: untouched)
                sched.roles[threading.get_ident()] = "W"
                sched.armed["W"] = True
                try:
                    return LocalJob._call_fn_safe(self, *a, **k)
                finally:
                    if sys.exc_info()[0] is None:
                        sched.point("exit")
                        sched.armed["W"] = False
                        sched.posts.put(("W", "end", None, {"o": "finished", "sync": None}))
            return LocalJob._call_fn_safe(self, *a, **k)

    return TracedStatus, TracedJob


class RaceRun:
    """one execution of a race scenario under one schedule.
    scn = {"cfg", "call", "caller": [actions raced], "task": [task steps], "tail": [actions after the worker's end]}"""

    def __init__(self, scn):
        self.scn = scn
        self.sched = RaceSched()
        TracedStatus, TracedJob = race_classes(self.sched)
        cfg = scn["cfg"]
        kwargs = {"delta_parameters": {"command": py_dict(cfg["cmd"]), "mapping": py_dict(cfg["mapping"])},
                  "command_param_names": [key_name(k) for k in cfg["names"]]}
        if cfg["map"]:
            kwargs["result_mapping_function"] = mapping_function
        self.calls = 0
        self.task_exc = None
        self.job = TracedJob(self.task, **kwargs)
        st = TracedStatus()
        object.__setattr__(self.job, "_status", st)
        self.pending = {"C": None, "W": None}     # label of the access each thread is blocked at
        self.steps = []
        self.decisions = []
        self.hung = False
        self.actor = threading.Thread(target=self.actor_main, daemon=True)
        self.actor.start()

    # ---- the task function (worker thread) ----
    def task(self, progress_callback=None, **kw):
        self.calls += 1
        if self.calls > 1:
            return {"results": 424242}
        out = {"o": "started", "args": canon_dict(kw)}
        if not callable(progress_callback):
            out["no_progress_callback"] = True
        while True:
            instr = self.sched.point("task", out)
            if instr is None:
                raise Abort()
            if instr["e"] == "prog":
                ret = progress_callback(instr["p"] / 8, "phase")
                out = {"o": "progressed", "cb": None, "p": instr["p"], "relay": ret == {"cancel_requested": True}}
                if ret is not None and ret != {"cancel_requested": True}:
                    out["returned"] = repr(ret)[:60]
            elif instr["e"] == "ret":
                return py_ret(instr["r"])
            else:
                self.task_exc = EXC_CLASSES[instr["cls"]](EXC_TEXTS[instr["msg"]])
                raise self.task_exc

    # ---- the caller actor thread ----
    def actor_main(self):
        sc = self.sched
        sc.roles[threading.get_ident()] = "C"
        while True:
            cmd = sc.go["C"].get()
            if cmd[0] == "quit":
                return
            try:
                if cmd[0] == "exec":
                    c = cmd[1]
                    kw = py_dict(c["kw"])
                    r = self.job.execute_async(*[enc_val(a) for a in c["args"]], **kw)
                    out = {"o": "accepted"}
                    if r is not self.job:
                        out["returned"] = repr(r)[:60]
                else:
                    sc.armed["C"] = True
                    out = self.action(cmd[1])
            except Abort:
                return
            except Exception as e:   # noqa: BLE001
                out = {"o": "exc", "e": canon_exc(e), "cls": type(e).__name__, "text": str(e)[:120]}
            sc.armed["C"] = False
            sc.posts.put(("C", "end", None, out))

    def canon_msg(self, status, msg):
        if msg is None:
            return None
        if self.task_exc is not None and msg == f"{type(self.task_exc).__name__}: {self.task_exc}":
            return {"task": [EXC_CLASSES.index(type(self.task_exc)), EXC_TEXTS.index(self.task_exc.args[0])]}
        if msg == "User has canceled the job":     # (the status read before may be older than this read)
            return "canceled"
        return {"other": str(msg)[:200]}

    def action(self, a):
        job = self.job
        if a == "status":
            st = job.status
            name = st.status.name
            msg = st.stop_message
            p = st.progress * 8
            return {"o": "status", "s": name, "msg": self.canon_msg(name, msg), "p": int(p) if p == int(p) else p,
                    "flags": PREDICATES.get(name, ()), "str": name}
        if a == "cancel":
            r = job.cancel()
            return {"o": "done"} if r is None else {"o": "done", "returned": repr(r)[:60]}
        r = job.get_results()
        return {"o": "results", "r": canon_ret(r)}

    # ---- the scheduler ----
    def await_post(self, role):
        try:
            r, kind, label, out = self.sched.posts.get(timeout=WAIT)
        except queue.Empty:
            self.hung = True
            raise HarnessTimeout(f"race scheduler: no announcement from {role} within {WAIT}s")
        if r != role:
            raise RuntimeError(f"race scheduler: announcement from {r} while only {role} may run")
        return kind, label, out

    def do_exec(self):
        self.sched.go["C"].put(("exec", self.scn["call"]))
        got = {}
        while True:
            try:
                r, kind, label, out = self.sched.posts.get(timeout=WAIT)
            except queue.Empty:
                self.hung = True
                raise HarnessTimeout("race scheduler: execute_async did not come back")
            got[r] = (kind, label, out)
            if "C" in got and (got["C"][2]["o"] != "accepted" or "W" in got):
                break
        if "W" in got:
            self.pending["W"] = got["W"][1]
        self.steps.append({"ev": dict(self.scn["call"], e="exec"), "acc": "none", "o": got["C"][2],
                           "pc": None, "pw": self.pw()})
        return got["C"][2]["o"] == "accepted"

    def pw(self):
        w = self.pending["W"]
        return None if w in (None, "task") else w

    def grant(self, role, token, ev):
        """let `role` perform the access it is blocked at (or start the action / take the task step `token` says)"""
        acc = self.pending[role] if token == "go" else "none"
        if acc == "task":
            acc = "none"
        self.sched.go[role].put(token)
        kind, label, out = self.await_post(role)
        if kind == "point":
            self.pending[role] = label
            o = out if label == "task" else None
        else:
            self.pending[role] = None
            o = out
            if role == "W":
                th = object.__getattribute__(self.job, "_worker")
                th.join(WAIT)
                if th.is_alive():
                    self.hung = True
                    raise HarnessTimeout("race scheduler: the worker thread did not end after its last step")
                self.worker_dead = True
        self.steps.append({"ev": ev, "acc": acc, "o": o, "pc": self.pending["C"], "pw": self.pw()})

    def run(self, choices, bound=None):
        scn = self.scn
        self.worker_dead = False
        try:
            accepted = self.do_exec()
            prog_c = list(scn["caller"]) + list(scn.get("tail", []))
            n_race = len(scn["caller"])
            prog_t = list(scn["task"])
            ic = it = 0
            last = None
            k = 0
            pre = 0
            while True:
                en = []
                if self.pending["C"] is not None or (ic < len(prog_c) and (ic < n_race or self.worker_dead or not accepted)):
                    en.append("C")
                if accepted and not self.worker_dead and (self.pending["W"] != "task" or it < len(prog_t)):
                    en.append("W")
                if not en:
                    break
                opts = ([last] if last in en else []) + [r for r in en if r != last]
                if k < len(choices) and choices[k] in en:
                    role = choices[k]
                else:           # beyond the given schedule (or a stored schedule replayed on code with other step counts)
                    role = opts[0]
                self.decisions.append((tuple(opts), role, pre))
                if last in en and role != last:
                    pre += 1
                k += 1
                if role == "C":
                    if self.pending["C"] is None:
                        a = prog_c[ic]
                        ic += 1
                        self.grant("C", ("act", a), {"e": "begin", "a": a})
                    else:
                        self.grant("C", "go", {"e": "c"})
                else:
                    if self.pending["W"] == "task":
                        t = prog_t[it]
                        it += 1
                        self.grant("W", t, {"e": "task", "t": t})
                    else:
                        self.grant("W", "go", {"e": "w"})
                last = role
        finally:
            self.close()
        return self

    def close(self):
        sc = self.sched
        sc.go["C"].put(("quit",))
        for r in ("C", "W"):
            sc.go[r].put("abort")
        th = object.__getattribute__(self.job, "_worker")
        if th is not None and th.is_alive():
            th.join(1.0)
        self.actor.join(1.0)


def race_word(run):
    return [s["ev"] for s in run.steps]


def race_compare(run, rep, strict=True):
    """observed schedule vs. model schedule (`rstep`), step by step: the answer of the action / task step that ends there
    (always); with `strict` also the access performed and the access each thread stands before afterwards.
    -> None or (index, reason)"""
    for i, (obs, mod) in enumerate(zip(run.steps, rep["outs"])):
        if mod.get("o") == "disabled":
            return i, f"step {obs['ev']} is not enabled in the model"
        if (obs["o"] is None) != (mod["o"] is None):
            return i, f"answer: model {mod['o']}, code {obs['o']}"
        if obs["o"] is not None:
            r = out_matches(obs["o"], mod["o"])
            if r:
                return i, r
        if (obs["pc"] is None) != (mod["pc"] is None):
            return i, f"caller idle/busy: model {mod['pc']}, code {obs['pc']}"
        if (obs["pw"] is None) != (mod["pw"] is None):
            return i, f"worker waiting for the task / ended: model {mod['pw']}, code {obs['pw']}"
        if strict:
            if obs["acc"] != mod["acc"]:
                return i, f"access performed: model {mod['acc']}, code {obs['acc']}"
            if obs["pc"] != mod["pc"]:
                return i, f"next access of the caller: model {mod['pc']}, code {obs['pc']}"
            if obs["pw"] != mod["pw"]:
                return i, f"next access of the worker: model {mod['pw']}, code {obs['pw']}"
    if run.calls != rep["final"]["fnCalls"]:
        return len(run.steps), f"task function entered {run.calls} times, model {rep['final']['fnCalls']}"
    return None


def race_oracle(scn, run):
    """The property evaluated directly on what the real job did under this schedule (no model involved)."""
    steps = run.steps
    if not steps or steps[0]["o"]["o"] != "accepted":
        return None
    if run.calls != 1:
        return "ran-twice" if run.calls > 1 else "never-ran", f"the task function was entered {run.calls} times"
    end = next((i for i, s in enumerate(steps) if s["ev"]["e"] == "task" and s["ev"]["t"]["e"] in ("ret", "raise")), None)
    exit_ = next((i for i, s in enumerate(steps) if s["acc"] == "exit"), None)
    if end is None or exit_ is None:
        return None
    t = steps[end]["ev"]["t"]
    # the worker's own write of the final status: its first W_status after the task's end
    wrote = next(i for i in range(end + 1, len(steps)) if steps[i]["ev"]["e"] == "w" and steps[i]["acc"] == "W_status")
    cancels = [(b, e) for b, e in race_actions(steps) if steps[b]["ev"]["a"] == "cancel"]
    if t["e"] == "raise":
        allowed = {"ERROR"}
        text = f"{EXC_CLASSES[t['cls']].__name__}: {EXC_CLASSES[t['cls']](EXC_TEXTS[t['msg']])}"
        want_msg = {"ERROR": {"task": [t["cls"], t["msg"]]}}
        what = f"the task raised {text!r}"
    else:
        want_msg = {"SUCCESS": None, "CANCELED": "canceled"}
        if not cancels:
            allowed = {"SUCCESS"}
            what = "the task returned and cancel() was never called"
        elif any(e < end for _, e in cancels):
            allowed = {"CANCELED"}
            what = "cancel() had returned before the task returned"
        elif all(b > wrote for b, _ in cancels):
            allowed = {"SUCCESS"}
            what = "cancel() was called only after the final status had been written"
        else:
            allowed = {"SUCCESS", "CANCELED"}
            what = "cancel() overlapped the end of the task"
    finals = []
    for b, e in race_actions(steps):
        o = steps[e]["o"]
        if o is None:
            continue
        if o["o"] == "status":
            if b > wrote and o["s"] in ("WAITING", "RUNNING"):
                return "final-status-not-reported", (f"{what}; the worker had written the final status before the query "
                                                    f"started, yet job.status says {o['s']}")
            if e < wrote and o["s"] != "RUNNING":
                return "not-running-in-flight", f"job.status says {o['s']} before the worker has written a final status"
            if o["s"] in ("SUCCESS", "ERROR", "CANCELED"):
                finals.append((e, o))
                if o["s"] not in allowed:
                    return "async-final-status-wrong", (f"{what}; a status query overlapping the worker's last steps reports "
                                                       f"{o['s']} (stop_message {o['msg']})" if e < exit_ + 1 or b < exit_ else
                                                       f"{what}; job.status reports {o['s']} (stop_message {o['msg']})")
                if b > exit_ and o["msg"] != want_msg[o["s"]]:
                    return "final-message-wrong", (f"{what}; after the worker's end job.status is {o['s']} with "
                                                   f"stop_message {o['msg']}")
                if b > exit_ and o["s"] == "SUCCESS" and o["p"] != 8:
                    return "success-progress-not-full", f"{what}; SUCCESS with progress {o['p']}/8"
        if o["o"] == "results" and e < wrote:
            return "results-while-running", "get_results() handed out a value before the worker had written a final status"
        if o["o"] == "exc" and o["e"] in ("notAvailable", "failed", "runtime?") and t["e"] == "ret" and t["r"]["t"] in ("dict", "dlist"):
            return "results-unavailable-after-final-status", (
                f"{what}; get_results() raised {o.get('cls')}: {o.get('text')} although a final status had been read "
                f"(the status must not be final before the task's value is stored)")
        if o["o"] == "exc" and o["e"] == "stillRunning" and b > wrote:
            return "final-status-not-reported", "get_results() says 'still running' although the final status had been written"
    if len({o["s"] for _, o in finals}) > 1:
        return "async-final-status-wrong", f"{what}; two final statuses were reported: {[o['s'] for _, o in finals]}"
    if t["e"] == "ret":
        exp = expected_results(scn["cfg"], t["r"], ({}, {k: v for k, v in scn["cfg"]["mapping"]}))
        vals = [steps[e]["o"]["r"] for b, e in race_actions(steps) if steps[e]["o"] and steps[e]["o"]["o"] == "results"]
        if exp is not None:
            for v in vals:
                if v not in exp:
                    return "results-value-wrong", f"get_results() returned {v}, the task returned {norm_ret(t['r'])}"
    return None


def race_cancel_overlaps(run):
    steps = run.steps
    end = next((i for i, s in enumerate(steps) if s["ev"]["e"] == "task" and s["ev"]["t"]["e"] == "ret"), None)
    if end is None:
        return False
    wrote = next((i for i in range(end + 1, len(steps)) if steps[i]["ev"]["e"] == "w" and steps[i]["acc"] == "W_status"), None)
    if wrote is None:
        return False
    cancels = [(b, e) for b, e in race_actions(steps) if steps[b]["ev"]["a"] == "cancel"]
    return bool(cancels) and not any(e < end for _, e in cancels) and not all(b > wrote for b, _ in cancels)


def race_actions(steps):
    """(index of the begin step, index of the step that ends the action) of every caller action"""
    out, b = [], None
    for i, s in enumerate(steps):
        if s["ev"]["e"] == "begin":
            b = i
        if b is not None and s["ev"]["e"] in ("begin", "c") and s["o"] is not None:
            out.append((b, i))
            b = None
    return out


def race_note(chk, scn, run):
    steps = run.steps
    chk.branch("race")
    end = next((i for i, s in enumerate(steps) if s["ev"]["e"] == "task" and s["ev"]["t"]["e"] in ("ret", "raise")), None)
    exit_ = next((i for i, s in enumerate(steps) if s["acc"] == "exit"), None)
    if end is None or exit_ is None:
        return
    wrote = next(i for i in range(end + 1, len(steps)) if steps[i]["ev"]["e"] == "w" and steps[i]["acc"] == "W_status")
    for b, e in race_actions(steps):
        a = steps[b]["ev"]["a"]
        if b < wrote and e > exit_:
            chk.branch(f"race-{a}-spans-worker-end")
        if wrote < b < exit_ or wrote < e < exit_:
            chk.branch(f"race-{a}-during-stop-run")
        if a == "cancel" and end < e and b < wrote:
            chk.branch("race-cancel-between-return-and-final-write")
        if a == "status" and steps[e]["o"] and steps[e]["o"].get("msg") is None and steps[e]["o"].get("s") in ("ERROR", "CANCELED"):
            chk.branch("race-observed-status-before-message")
    chk.branch("race-raise" if steps[end]["ev"]["t"]["e"] == "raise" else "race-return")


def race_explore(scn, bound, cap):
    """all schedules of the scenario with at most `bound` preemptions (None: all), depth first, at most `cap`; stateless
    (every schedule is a fresh execution of the real job)."""
    prefix = []
    n = 0
    while True:
        run = RaceRun(scn).run(prefix)
        yield run
        n += 1
        if cap and n >= cap:
            return
        dec = run.decisions
        i = len(dec) - 1
        while i >= 0:
            opts, chosen, pre = dec[i]
            j = opts.index(chosen)
            if j + 1 < len(opts) and (bound is None or j > 0 or pre + 1 <= bound):
                prefix = [d[1] for d in dec[:i]] + [opts[j + 1]]
                break
            i -= 1
        if i < 0:
            return


def race_scn_sig(scn, run):
    return ("race", json.dumps([scn["cfg"], scn["caller"], [t["e"] for t in scn["task"]]], sort_keys=True),
            "".join(d[1] for d in run.decisions))


_RACE_MISSING = None


def race_private_missing():
    """private fields the access-level instrumentation announces by NAME; a rewrite that renames one of them keeps the
    behaviour but makes the per-access comparison with the model meaningless (fewer announced accesses): the schedules
    are then still run and judged by the direct oracle, the model comparison is skipped and counted in the evidence"""
    global _RACE_MISSING
    if _RACE_MISSING is None:
        try:
            from perceval.runtime import LocalJob
            from perceval.runtime.job_status import JobStatus
            miss = [n for n in ("_status", "_stop_message", "_running_progress") if n not in vars(JobStatus())]
            miss += [n for n in ("_cancel_requested", "_results", "_worker") if n not in vars(LocalJob(lambda: None))]
        except Exception as e:      # constructors changed: leave the comparison on, it will say what differs
            miss = []
        _RACE_MISSING = miss
    return _RACE_MISSING


def race_judge(chk, scn, run, reps):
    """-> None | (kind, sig, what, index)"""
    v = race_oracle(scn, run)
    if v is not None:
        return "violation", v[0], v[1], None
    if race_private_missing():
        chk.count("private_members_missing", "race:" + ",".join(race_private_missing()))
        return None
    cmp_t = race_compare(run, reps[0])
    if cmp_t is None:
        return None
    if race_compare(run, reps[0], strict=False) is None:
        # same number of accesses per action, same answers everywhere, only WHICH field is touched at some step differs
        # (two independent accesses in the other order): counted, shown in the evidence, not a failure
        chk.branch("race-access-order-differs-from-model")
        chk.count("race-access-order", cmp_t[1])
        return None
    if race_cancel_overlaps(run):
        # cancel() overlapped the worker's steps between the task's return and its write of the final status: SUCCESS and
        # CANCELED are both truthful there (the direct oracle has accepted the outcome); which one it is depends on the
        # order of the worker's private steps, which the model fixes as the code has them today — counted, not a failure
        chk.branch("race-cancel-window-outcome-differs-from-model")
        return None
    if reps[1] is not None and race_compare(run, reps[1]) is None:
        chk.branch("race-code-is-the-version-before-the-fix")
        return None          # the code is, access by access, the version before fixes/C18-status-race.diff: its defect is
                             # reported by the direct oracle on the schedules where it shows, not as a model mismatch
    return "broken", "race-model-code-disagree", f"step {cmp_t[0]} ({run.steps[cmp_t[0]]['ev']}): {cmp_t[1]}", cmp_t[0]


RACE_CFGS = {
    "plain": {"names": [1], "cmd": [], "mapping": [], "map": False, "cb": False},
    "map": {"names": [1], "cmd": [], "mapping": [[2, 3]], "map": True, "cb": False},
}
RACE_CALL = {"args": [5], "kw": [], "cbkw": False}
RACE_TAIL = ["status", "get", "status"]


def race_scenarios_list(chk):
    ret = {"e": "ret", "r": {"t": "dict", "v": 7}}
    out = []
    for cname, caller in (("status", ["status"]), ("get", ["get"]), ("cancel-status", ["cancel", "status"]),
                          ("status-status", ["status", "status"]), ("cancel", ["cancel"])):
        for tname, task in (("raise", [{"e": "raise", "cls": 0, "msg": 1}]), ("ret", [ret]),
                            ("prog-ret", [{"e": "prog", "p": 3}, ret]),
                            ("prog-raise", [{"e": "prog", "p": 5}, {"e": "raise", "cls": 2, "msg": 2}])):
            cfg = RACE_CFGS["map" if cname in ("get", "status-status") else "plain"]
            out.append((f"{cname}/{tname}", {"cfg": cfg, "call": RACE_CALL, "caller": caller, "task": task,
                                             "tail": RACE_TAIL}))
    return out


def race_handle_runs(chk, scn, runs, seen, name):
    """compare a batch of executed schedules of one scenario with the model, judge them, report the smallest failure"""
    reqs = [{"op": "race", "fixed": True, "cfg": scn["cfg"], "word": race_word(r)} for r in runs]
    reps = chk.lean.ask_many(reqs)
    bad = [i for i, (r, rep) in enumerate(zip(runs, reps)) if "err" in rep or race_compare(r, rep) is not None]
    reps_old = {}
    if bad:
        for i, rep in zip(bad, chk.lean.ask_many([dict(reqs[i], fixed=False) for i in bad])):
            reps_old[i] = rep
    fails = []
    for i, (run, rep) in enumerate(zip(runs, reps)):
        if "err" in rep:
            raise RuntimeError(f"race driver rejected a schedule: {rep['err']}")
        race_note(chk, scn, run)
        chk.case(race_scn_sig(scn, run), nontrivial=any(d[2] > 0 for d in run.decisions) or len(run.decisions) > 0,
                 sample={"race": name, "schedule": "".join(d[1] for d in run.decisions)})
        res = race_judge(chk, scn, run, (rep, reps_old.get(i)))
        if res is not None:
            fails.append((res, run))
    by_sig = {}
    for res, run in fails:
        key = (res[0], res[1])
        pre = sum(1 for a, b in zip(run.decisions, run.decisions[1:]) if a[1] != b[1])
        cur = by_sig.get(key)
        if cur is None or (pre, len(run.steps)) < cur[0]:
            by_sig[key] = ((pre, len(run.steps)), res, run)
        chk.count("failures", f"{res[0]}:{res[1]}")
    for (kind, sig), (_, res, run) in by_sig.items():
        if not seen.wanted(kind, sig):
            seen.sigs[("seen", kind, sig)] = seen.sigs.get(("seen", kind, sig), 0) + 1
            continue
        seen.sigs[("seen", kind, sig)] = seen.sigs.get(("seen", kind, sig), 0) + 1
        schedule = "".join(d[1] for d in run.decisions)
        # confirm by replaying the very schedule on a fresh job
        again = RaceRun(scn).run(list(schedule))
        v2 = race_oracle(scn, again) if kind == "violation" else ("x",)
        if v2 is None:
            seen.sigs[("unreproduced", kind, sig)] = seen.sigs.get(("unreproduced", kind, sig), 0) + 1
            continue
        trace_txt = " ".join(f"{s['ev']['e'][0] if s['ev']['e'] != 'task' else 'T'}:{s['acc']}" for s in run.steps)
        chk.fail(kind, sig, f"race scenario {name}, schedule {schedule} (C = caller thread, W = worker thread, one shared-"
                            f"memory access per letter): {res[2]}.  Accesses: {trace_txt}",
                 {"race": {"scn": scn, "schedule": schedule, "name": name}})


def race_part(chk, seen):
    """exhaustive schedules (bounded number of preemptions) of the fixed race scenarios + random schedules"""
    bound = chk.pick(2, 3)
    cap = chk.pick(400, 6000)
    total = 0
    sizes = {}
    for name, scn in race_scenarios_list(chk):
        heavy = name.split("/")[1] in ("prog-ret", "prog-raise") or name.startswith("status-status")
        b = bound - 1 if (heavy and not chk.thorough) else bound
        runs = list(race_explore(scn, b, cap))
        sizes[name] = {"preemptions<=": b, "schedules": len(runs), "complete": len(runs) < cap}
        total += len(runs)
        race_handle_runs(chk, scn, runs, seen, name)
        chk.branch("race-exhaustive")
    chk.extra["race_schedules"] = sizes
    chk.extra["race_schedules_total"] = total
    for scn in load_race_corpus():
        run = RaceRun(scn["scn"]).run(list(scn["schedule"]))
        race_handle_runs(chk, scn["scn"], [run], seen, scn.get("name", "corpus"))
        chk.branch("race-corpus")


def load_race_corpus():
    out = []
    for p in sorted(glob.glob(os.path.join(core.VERIF, "corpus", "C18", "race-*.json"))):
        out.append(json.load(open(p))["race"])
    return out


def load_corpus():
    out = []
    for p in sorted(glob.glob(os.path.join(core.VERIF, "corpus", "C18", "*.json"))):
        d = json.load(open(p))
        if "race" in d:
            continue
        if "jobs" in d:
            out.append({"jobs": d["jobs"], "nest": d.get("nest")})
        elif "sampler" in d:
            out.append({"sampler": d["sampler"]})
        else:
            out.append(strip(d))
    return out


def silence_logger():
    try:
        from perceval.utils.logging import get_logger, channel, level
        for ch in (channel.user, channel.general, channel.resources):
            get_logger().set_level(level.off, ch)
    except Exception:
        pass


def quiet_abort(args, _orig=threading.excepthook):
    if not issubclass(args.exc_type, Abort):
        _orig(args)


def setup(chk):
    silence_logger()
    threading.excepthook = quiet_abort
    chk.lean = core.LeanDriver("C18")
    chk.assumptions = [
        "history part: atomic steps are whole API calls of the caller and whole steps of the task function. RACE part: "
        "atomic steps are single accesses to the memory the two threads share (an access = one attribute read/write of "
        "the JobStatus / job object, Thread.is_alive(), the worker's end); ONE caller thread; execute_async itself is "
        "atomic (no worker exists before Thread.start(); a second caller thread querying between start_run() and "
        "Thread.start() is outside the model); no user callback in the race part",
        "the task's exceptions are subclasses of Exception (what _call_fn_safe catches); a task leaving through "
        "SystemExit/KeyboardInterrupt is outside the model",
        "the task function accepts the keyword arguments it is given; the result mapping function is total",
        "synchronous execution: the caller acts only from inside the progress callback (single caller thread)",
    ]


def run(chk: core.Check):
    setup(chk)
    rng = chk.rng
    seen = Seen()
    chk.rule = ("histories = constructor configuration + model-enabled closed word over {execSync, execAsync, statusQuery, "
                "cancel, getResults, start, progress, return, raise, propagate}; exhaustive part: all such words within "
                "the bounds given in `bounds` for sync/async x positional/keyword/preset; argument scenarios: every kind of "
                "illegal call (2..4 surplus positionals, undeclared keyword, both, parameter passed twice) x 0..2 declared "
                "names x sync/async followed by status, a legal call and a complete run; random part: longer words over "
                "random configurations, argument lists (15% of the histories with malformed calls: undeclared keywords, "
                "surplus positionals, a keyword naming a FIXED preset, or both) and return shapes; argument values = None, "
                "integers incl. 0, coded falsy non-None objects (0.0, False, '', [], (), {}, b'') and truthy non-integers, for "
                "presets, positional/keyword arguments, max_samples and iteration overrides; fixed-preset scenarios: every "
                "falsy value x task preset / conversion preset / positional max_samples x sync/async with a keyword of the same "
                "name; task exceptions drawn from 35 classes (builtin Exception types + subclasses), exception scenarios: "
                "every class x sync / async / instant; distinct = distinct "
                "(configuration, word); non-trivial = at least one caller action performed while the task is in flight; "
                "EXTENDED alphabet (Model/C18Ext): job(...) = Job.__call__, job.name get/set (non-empty, empty, not a string), "
                "progress reports whose user callback returns None / a dict with or without 'cancel_requested' / an object "
                "without .get, with the real cancel_requested applied to what the task gets back; COOPERATIVE tasks in closed "
                "loop (the task decides its own steps with the real cancel_requested, policy raise/stop/ignore; fixed "
                "scenarios + random); SAMPLER jobs on local SLOS / CliffordClifford2017 processors: every (backend, method) "
                "x way of passing max_samples x sync/call/async x iterations overriding the conversion arguments x cancel "
                "before / from the callback, fixed + random, compared with the model on the preset configuration; RACE part "
                "(Model/C18Race): the asynchronous run with the job's shared memory instrumented (every read/write of "
                "JobStatus._status/_stop_message/_running_progress, LocalJob._cancel_requested, write of _results, "
                "Thread.is_alive(), end of the worker) and a scheduler that grants ONE access at a time: for 20 scenarios "
                "(status | get_results | cancel;status | status;status | cancel raced against raise | return | progress;return "
                "| progress;raise) ALL schedules with at most `race_schedules[..].preemptions<=` preemptions are executed on "
                "the real job, compared access by access with the model and judged directly")
    chk.required_branches = ["sync", "async", "in-flight-sync", "in-flight-async", "cb-action-async",
                             "cancel-before-return", "cancel-after-return", "cancel-relayed", "callback-invoked",
                             "raise", "propagate", "rejected-args", "exec-twice-rejected", "positional", "keyword",
                             "preset", "max-samples-pop", "mapping-conversion", "results-list",
                             "results-while-running", "plain-callback",
                             "surplus-positional", "surplus-positional-sync", "surplus-positional-async",
                             "surplus-positional-only", "unknown-keyword", "status-after-rejection",
                             "accepted-after-rejection", "argument-scenario",
                             "fixed-preset-scenario", "fixed-preset-keyword", "fixed-falsy-preset-keyword",
                             "fixed-falsy-preset-keyword-sync", "fixed-falsy-preset-keyword-async",
                             "fixed-falsy-task-preset-keyword", "fixed-falsy-conversion-preset-keyword",
                             "max-samples-positional-and-keyword", "falsy-preset-used", "falsy-positional",
                             "falsy-max-samples", "falsy-keyword", "falsy-iteration-override",
                             "falsy-result", "falsy-result-sync",
                             "exception-scenario"] + [f"raise-{c.__name__}" for c in EXC_CLASSES] + [
                             "cancel-then-raise-sync", "cancel-then-raise-async",
                             "async-instant", "async-instant-raise", "async-instant-cancel-return",
                             "async-instant-cb-action", "instant-scenario",
                             "multi-job-group", "multi-job-nested", "other-job-while-in-flight", "ctor-delta-omitted",
                             "ctor-names-omitted", "later-job-omits-argument", "later-job-omits-max-samples",
                             "group-scenario",
                             "job-call", "name-set", "name-unnamed", "name-type-error", "name-in-flight",
                             "user-reply-cancel", "user-reply-crash", "relay-understood", "extension-scenario",
                             "coop", "coop-raise", "coop-stop", "coop-ignore", "coop-scenario", "coop-instant",
                             "coop-cancel-cuts-task-short", "coop-raise-cancel-requested", "coop-attribute-error",
                             "coop-stopped-by-callback-success", "coop-stop-canceled-partial",
                             "sampler", "sampler-scenario", "sampler-probsNative", "sampler-sampleViaProbs",
                             "sampler-probsViaSamples", "sampler-samplesNative", "sampler-sync", "sampler-call",
                             "sampler-async", "sampler-how-pos", "sampler-how-kw", "sampler-how-nothing",
                             "sampler-how-posKw", "sampler-how-pos2", "sampler-how-kwx", "sampler-iterated",
                             "sampler-iterated-conversion", "sampler-iteration-overrides-mapping", "sampler-rejected",
                             "sampler-cancel-raise", "sampler-cancel-return",
                             "race", "race-exhaustive", "race-corpus", "race-raise", "race-return",
                             "race-status-spans-worker-end", "race-get-spans-worker-end",
                             "race-status-during-stop-run", "race-get-during-stop-run",
                             "race-cancel-between-return-and-final-write", "race-observed-status-before-message"]
    for scn in load_corpus():
        chk.branch("corpus")
        if "jobs" in scn:
            handle_group(chk, scn["jobs"], scn["nest"], seen)
        elif "sampler" in scn:
            handle_sampler(chk, scn["sampler"], seen)
        else:
            handle(chk, scn, seen)
    group_scenarios(chk, seen)
    plain_scenarios(chk, seen)
    argument_scenarios(chk, seen)
    fixed_preset_scenarios(chk, seen)
    exception_scenarios(chk, seen)
    instant_scenarios(chk, seen)
    extension_scenarios(chk, seen)
    coop_scenarios(chk, seen)
    sampler_part(chk, seen)
    race_part(chk, seen)
    # exhaustive interleavings
    # (task events incl. start and end, caller actions); the first (positional) configuration gets the
    # large bound, the two other ways of passing the argument a smaller one
    full = {"sync": chk.pick((4, 3), (5, 4)), "async": chk.pick((3, 2), (5, 3))}
    side = {"sync": chk.pick((3, 2), (4, 3)), "async": chk.pick((3, 2), (4, 2))}
    bounds = {}
    total = 0
    n_instant = 0
    for way, (cfg, callkw) in base_cfgs().items():
        for mode in ("sync", "async"):
            t, c = full[mode] if way == "positional" else side[mode]
            words, n_all = enumerate_words(chk, cfg, letters_for(mode, callkw), t, c, 2)
            bounds[f"{mode}/{way}"] = {"task_events<=": t, "caller_actions<=": c, "execute_calls<=": 2,
                                       "enabled_words": n_all, "closed_words_executed": len(words)}
            reps = chk.lean.ask_many([{"op": "trace", "fixed": True, "cfg": cfg, "word": w} for w in words])
            for w, rep in zip(words, reps):
                if not is_closed(rep["final"]):
                    continue
                total += 1
                w = copy.deepcopy(w)
                if mode == "async":          # alternate where in-callback actions are performed
                    for n_, e in enumerate(w):
                        if e["e"] in ("status", "cancel", "get", "async"):
                            e["where"] = "cb" if (total + n_) % 2 else "main"
                handle(chk, {"cfg": cfg, "word": w}, seen, rep)
                if mode == "async" and way != "keyword":
                    # the other extreme schedule of the execute_async call: the task runs through before
                    # Thread.start() returns (possible whenever no caller-thread action is needed in flight)
                    acc = next((x for x, o in enumerate(rep["outs"]) if o["o"] == "accepted"), None)
                    if acc is not None and instant_segment(w, rep["outs"], acc) is not None:
                        n_instant += 1
                        handle(chk, {"cfg": cfg, "word": copy.deepcopy(w), "instant": True}, seen, rep)
    chk.extra["bounds"] = bounds
    chk.extra["exhaustive_closed_words"] = total
    chk.extra["exhaustive_words_also_run_instant"] = n_instant
    chk.exhaustive = True
    # several jobs in one process
    n_groups = chk.pick(160, 800)
    for _ in range(n_groups):
        jobs, nest = rand_group(chk, rng, chk.pick(8, 14))
        handle_group(chk, jobs, nest, seen)
    chk.extra["random_job_groups"] = n_groups
    # cooperative tasks in closed loop (the task side of the cancel relay)
    n_coop = chk.pick(250, 1500)
    for _ in range(n_coop):
        cfg, prog, cword, instant = rand_coop(chk, rng)
        scn, rep = coop_scenario(chk, cfg, prog, cword, instant=instant)
        note_coop(chk, prog, rep)
        if scn.get("instant"):
            chk.branch("coop-instant")
        handle(chk, scn, seen)
    chk.extra["random_cooperative_tasks"] = n_coop
    # random longer histories
    n = chk.pick(800, 4000)
    max_len = chk.pick(14, 40)
    for _ in range(n):
        cfg = rand_cfg(rng)
        malformed = rng.random() < 0.15
        word = rand_word(chk, rng, cfg, rng.randint(4, max_len), malformed)
        if malformed:
            chk.branch("malformed-stream")
        scn = {"cfg": cfg, "word": word}
        if rng.random() < 0.3:
            scn = make_instant(chk, cfg, word) or scn
        handle(chk, scn, seen)
    chk.extra["random_histories"] = n
    chk.extra["failures_by_signature"] = {":".join(str(x) for x in k): v for k, v in seen.sigs.items()}


def replay(chk, data):
    setup(chk)
    chk.rule = "replay of one stored history"
    seen = Seen()
    seen.replaying = True
    rp = data["replay"]
    if "plain" in rp:
        plain_scenarios(chk, seen)
        return
    if "sampler" in rp:
        handle_sampler(chk, rp["sampler"], seen)
        return
    if "race" in rp:
        r = rp["race"]
        run = RaceRun(r["scn"]).run(list(r["schedule"]))
        race_handle_runs(chk, r["scn"], [run], seen, r.get("name", "replay"))
        return
    if "jobs" in rp:
        chk.branch("replay-group")
        handle_group(chk, rp["jobs"], rp.get("nest"), seen)
        return
    handle(chk, strip(rp), seen)
