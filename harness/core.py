"""Shared machinery of the correspondence harness.

* LeanDriver      – line-protocol client for `lake env lean --run Driver/Cxx.lean`
* lean_build/audit – rebuild Props/Cxx (the kernel re-checks the proofs), audit axioms, grep for
                    forbidden constructs, optional leanchecker
* exact numbers   – Fractions <-> "num/den", floats as dyadic rationals, tolerance policy
* Check           – case bookkeeping, verdict logic, evidence, known findings, replay files
"""
from __future__ import annotations

import json
import math
import os
import random
import re
import subprocess
import sys
import threading
import time
import traceback
from fractions import Fraction

VERIF = os.path.dirname(os.path.dirname(os.path.abspath(__file__)))
LEAN_DIR = os.path.join(VERIF, "lean")
REPO = os.environ.get("VERIF_REPO", "/repo")

STD_AXIOMS = {"propext", "Classical.choice", "Quot.sound"}
FORBIDDEN = re.compile(
    r"\bsorry\b|\badmit\b|^\s*axiom\s|native_decide|bv_decide|implemented_by|\bunsafe\s|maxHeartbeats\s+0\b")

TRUSTED_BASE = [
    "Lean 4.33.0 kernel (thorough tier: leanchecker re-check of the .olean files)",
    "Mathlib v4.33.0 as compiled under /opt/veriftools/mathlib4",
    "axioms: subset of {propext, Classical.choice, Quot.sound}, audited per theorem on every run; "
    "no sorry/admit/axiom/native_decide/bv_decide/implemented_by/unsafe in lean/ (grep on every run)",
    "hand-written Lean model tied to /repo's working tree only by this run's correspondence check "
    "(differential testing through the Lean interpreter `lean --run`; not part of any proof)",
    "exqalibur native kernels, numpy/scipy/sympy numerics, protobuf, CPython threading are "
    "modelled as external functions, not verified",
]


# ------------------------------------------------------------------------------------------------
# exact numbers
# ------------------------------------------------------------------------------------------------
def rat(x) -> str:
    """Fraction / int / float -> exact 'num/den' (a float is taken as the dyadic rational it is)."""
    if isinstance(x, float):
        x = Fraction(*x.as_integer_ratio())
    elif not isinstance(x, Fraction):
        x = Fraction(x)
    return str(x.numerator) if x.denominator == 1 else f"{x.numerator}/{x.denominator}"


def cx(z) -> list:
    """complex / (Fraction, Fraction) -> [re, im] exact."""
    if isinstance(z, tuple):
        return [rat(z[0]), rat(z[1])]
    z = complex(z)
    return [rat(z.real), rat(z.imag)]


def mat(rows) -> list:
    return [[cx(z) for z in r] for r in rows]


def unrat(s) -> Fraction:
    return Fraction(s)


def uncx(p) -> complex:
    return complex(float(Fraction(p[0])), float(Fraction(p[1])))


def unmat(rows):
    return [[uncx(z) for z in r] for r in rows]


TOL = 1e-9


def close(x, xhat, tol=TOL) -> bool:
    return abs(x - xhat) <= tol + tol * abs(xhat)


def mat_close(a, b, tol=TOL) -> bool:
    if len(a) != len(b):
        return False
    for ra, rb in zip(a, b):
        if len(ra) != len(rb):
            return False
        for x, y in zip(ra, rb):
            if not close(complex(x), complex(y), tol):
                return False
    return True


def mat_maxdiff(a, b) -> float:
    return max((abs(complex(x) - complex(y)) for ra, rb in zip(a, b) for x, y in zip(ra, rb)), default=0.0)


# Pythagorean triples: (a, b, c) with a^2 + b^2 = c^2 -> exact rational cos/sin
TRIPLES = [(3, 4, 5), (5, 12, 13), (8, 15, 17), (7, 24, 25), (20, 21, 29), (12, 35, 37), (9, 40, 41),
           (28, 45, 53), (11, 60, 61), (16, 63, 65), (33, 56, 65), (48, 55, 73), (13, 84, 85), (36, 77, 85)]


def rational_cs(rng: random.Random):
    """(cos, sin) as Fractions on the unit circle, any quadrant, never axis-aligned."""
    a, b, c = rng.choice(TRIPLES)
    if rng.random() < 0.5:
        a, b = b, a
    sa = rng.choice((1, -1))
    sb = rng.choice((1, -1))
    return Fraction(sa * a, c), Fraction(sb * b, c)


def angle_of(cs) -> float:
    return math.atan2(float(cs[1]), float(cs[0]))


# ------------------------------------------------------------------------------------------------
# Lean side
# ------------------------------------------------------------------------------------------------
class LeanError(Exception):
    pass


class LeanDriver:
    """One `lake env lean --run Driver/<name>.lean` process; JSON lines in, JSON lines out."""

    def __init__(self, name: str):
        self.name = name
        self.proc = subprocess.Popen(
            ["lake", "env", "lean", "--run", f"Driver/{name}.lean"], cwd=LEAN_DIR,
            stdin=subprocess.PIPE, stdout=subprocess.PIPE, stderr=subprocess.PIPE, text=True, bufsize=1)
        self.n = 0

    def ask(self, req: dict) -> dict:
        return self.ask_many([req])[0]

    def ask_many(self, reqs: list) -> list:
        if not reqs:
            return []
        lines = [json.dumps(r, separators=(",", ":")) + "\n" for r in reqs]

        def feed():
            try:
                for ln in lines:
                    self.proc.stdin.write(ln)
                self.proc.stdin.flush()
            except BrokenPipeError:
                pass

        t = threading.Thread(target=feed, daemon=True)
        t.start()
        out = []
        for _ in reqs:
            ln = self.proc.stdout.readline()
            if not ln:
                err = self.proc.stderr.read()
                raise LeanError(f"Lean driver {self.name} died: {err[-2000:]}")
            out.append(json.loads(ln))
        t.join()
        self.n += len(reqs)
        return out

    def close(self):
        try:
            self.proc.stdin.close()
            self.proc.wait(timeout=20)
        except Exception:
            self.proc.kill()


def _run(cmd, timeout=3000, cwd=LEAN_DIR):
    p = subprocess.run(cmd, cwd=cwd, capture_output=True, text=True, timeout=timeout)
    return p.returncode, p.stdout + p.stderr


def strip_comments(src: str) -> str:
    src = re.sub(r"/-.*?-/", lambda m: "\n" * m.group(0).count("\n"), src, flags=re.S)
    return re.sub(r"--.*", "", src)


def lean_sources():
    out = []
    for root, dirs, files in os.walk(LEAN_DIR):
        dirs[:] = [d for d in dirs if d != ".lake"]
        for f in files:
            if f.endswith(".lean"):
                out.append(os.path.join(root, f))
    return sorted(out)


def import_closure(prop: str):
    """Lean source files a property's theorems and driver depend on (transitive `import PercevalModel.*`)."""
    roots = [os.path.join(LEAN_DIR, "PercevalModel", "Props", f"{prop}.lean"),
             os.path.join(LEAN_DIR, "Driver", f"{prop}.lean")]
    seen, todo = [], [r for r in roots if os.path.exists(r)]
    while todo:
        f = todo.pop()
        if f in seen:
            continue
        seen.append(f)
        for m in re.finditer(r"^\s*(?:public\s+)?import\s+(PercevalModel(?:\.\w+)*)", strip_comments(open(f).read()), re.M):
            g = os.path.join(LEAN_DIR, *m.group(1).split(".")) + ".lean"
            if os.path.exists(g):
                todo.append(g)
    return sorted(seen)


def forbidden_hits(prop: str = None):
    """grep for forbidden constructs in the files the property depends on (whole project if prop is None)"""
    hits = []
    for path in (import_closure(prop) if prop else lean_sources()):
        for i, line in enumerate(strip_comments(open(path).read()).splitlines(), 1):
            if FORBIDDEN.search(line):
                hits.append(f"{os.path.relpath(path, LEAN_DIR)}:{i}: {line.strip()}")
    return hits


def theorem_names(prop: str):
    """Fully qualified names of the theorems stated in Props/<prop>.lean."""
    path = os.path.join(LEAN_DIR, "PercevalModel", "Props", f"{prop}.lean")
    src = strip_comments(open(path).read())
    names = []
    ns = []
    for line in src.splitlines():
        m = re.match(r"\s*namespace\s+(\S+)", line)
        if m:
            ns.append(m.group(1))
            continue
        m = re.match(r"\s*end\s+(\S+)", line)
        if m and ns and ns[-1] == m.group(1):
            ns.pop()
            continue
        m = re.match(r"\s*(?:@\[[^\]]*\]\s*)?(?:private\s+|protected\s+)?theorem\s+(\S+)", line)
        if m:
            names.append(".".join(ns + [m.group(1)]))
    return names


def lean_build_and_audit(prop: str, thorough: bool):
    """Returns dict(ok, obligations, discharged, names, log, failed:list[str])."""
    res = {"ok": True, "obligations": 0, "discharged": 0, "names": [], "log": "", "failed": []}
    t0 = time.time()
    rc, out = _run(["lake", "build", f"PercevalModel.Props.{prop}"])
    res["build_s"] = round(time.time() - t0, 1)
    if rc != 0:
        res["ok"] = False
        res["log"] = out[-4000:]
        errs = re.findall(r"error: (\S+\.lean:\d+:\d+)", out)
        res["failed"] = [f"lake build PercevalModel.Props.{prop} failed at {e}" for e in errs[:5]] or \
            [f"lake build PercevalModel.Props.{prop} failed"]
        return res
    names = theorem_names(prop)
    res["names"] = names
    res["obligations"] = len(names)
    audit_dir = os.path.join(LEAN_DIR, ".lake", "audit")
    os.makedirs(audit_dir, exist_ok=True)
    # one audit file per process: concurrent runs of the same check must not overwrite each other's file
    audit = os.path.join(audit_dir, f"Audit{prop}_{os.getpid()}.lean")
    with open(audit, "w") as f:
        f.write(f"import PercevalModel.Props.{prop}\n")
        for n in names:
            f.write(f"#print axioms {n}\n")
    try:
        rc, out = _run(["lake", "env", "lean", audit])
        if rc == 0 and "depend" not in out:      # transient (file system / process table under load): ask once more
            rc, out = _run(["lake", "env", "lean", audit])
    finally:
        try:
            os.remove(audit)
        except OSError:
            pass
    if rc != 0:
        res["ok"] = False
        res["log"] = out[-4000:]
        res["failed"] = [f"axiom audit of Props/{prop}.lean did not run"]
        return res
    out1 = re.sub(r"\s+", " ", out)
    good = 0
    for n in names:
        m = re.search(r"'" + re.escape(n) + r"' (does not depend on any axioms|depends on axioms: \[([^\]]*)\])", out1)
        if not m:
            res["failed"].append(f"{n}: no axiom report")
            continue
        axs = set(a.strip() for a in (m.group(2) or "").split(",") if a.strip())
        if axs <= STD_AXIOMS:
            good += 1
        else:
            res["failed"].append(f"{n}: non-standard axioms {sorted(axs - STD_AXIOMS)}")
    res["discharged"] = good
    hits = forbidden_hits(prop)
    res["files_audited"] = [os.path.relpath(f, LEAN_DIR) for f in import_closure(prop)]
    if hits:
        res["failed"].extend("forbidden construct: " + h for h in hits[:10])
    if thorough:
        rc, out = _run(["lake", "env", "leanchecker", f"PercevalModel.Props.{prop}"], timeout=3000)
        res["leanchecker_rc"] = rc
        if rc != 0:
            res["failed"].append("leanchecker rejected PercevalModel.Props." + prop + ": " + out[-500:])
    if res["failed"] or good != len(names) or not names:
        res["ok"] = False
    return res


# ------------------------------------------------------------------------------------------------
# known findings
# ------------------------------------------------------------------------------------------------
def source_drift(prop: str):
    """anchored source files of the property (properties.jsonl anchors.files) whose content differs from the digest
    recorded in anchors.json by tools/record_anchors.py on the tree the model was last validated against"""
    import hashlib
    path = os.path.join(VERIF, "anchors.json")
    if not os.path.exists(path):
        return []
    rec = json.load(open(path)).get("files", {}).get(prop, {})
    repo = os.environ.get("VERIF_REPO", "/repo")
    out = []
    for f, digest in sorted(rec.items()):
        fp = os.path.join(repo, f)
        cur = hashlib.sha256(open(fp, "rb").read()).hexdigest() if os.path.exists(fp) else None
        if cur != digest:
            out.append(f)
    return out


def load_known(prop: str):
    path = os.path.join(VERIF, "known_findings.json")
    if not os.path.exists(path):
        return []
    data = json.load(open(path))
    return [e for e in data.get("findings", []) if e.get("property") == prop and e.get("state") == "open"]


# ------------------------------------------------------------------------------------------------
# Check: bookkeeping + verdict
# ------------------------------------------------------------------------------------------------
class Check:
    """Per-run state. A property module calls

        chk.case(sig, nontrivial, sample)             for every explored case
        chk.branch(name)                              to count a model/generator branch
        chk.fail(kind, signature, what, replay, confirmed)   for every disagreement
            kind       'violation'  : property fails on the real code for the concrete input in `replay`
                       'broken'     : correspondence/proof no longer checks, no failing input found
            signature  stable string identifying *which* defect this is (matched against known findings)
    """

    def __init__(self, prop: str, tier: str, seed: int):
        self.prop, self.tier, self.seed = prop, tier, seed
        self.rng = random.Random(seed)
        self.t0 = time.time()
        self.evaluations = 0
        self.sigs = set()
        self.samples = []
        self.branches = {}
        self.hist = {}
        self.failures = []        # (kind, signature, what, replay dict)
        self.known_hit = {}
        self.extra = {}
        self.assumptions = []
        self.required_branches = []
        self.exhaustive = False
        self.rule = ""
        self.lean = None

    @property
    def thorough(self):
        return self.tier == "thorough"

    def pick(self, quick, thorough):
        return thorough if self.thorough else quick

    def case(self, sig=None, nontrivial=True, sample=None):
        self.evaluations += 1
        if nontrivial and sig is not None:
            self.sigs.add(sig if isinstance(sig, (str, int, tuple)) else json.dumps(sig, sort_keys=True))
        if sample is not None and len(self.samples) < 6:
            self.samples.append(sample)

    def branch(self, name, n=1):
        self.branches[name] = self.branches.get(name, 0) + n

    def count(self, hist, key, n=1):
        h = self.hist.setdefault(hist, {})
        key = str(key)
        h[key] = h.get(key, 0) + n

    def fail(self, kind, signature, what, replay):
        self.failures.append((kind, signature, what, replay))

    # ------------------------------------------------------------------
    def finish(self, lean_res) -> int:
        known = load_known(self.prop)
        violations = 0
        lines = []
        os.makedirs(os.path.join(VERIF, "replays"), exist_ok=True)
        reported = set()
        known_printed = set()
        if lean_res is not None and not lean_res["ok"]:
            # a proof obligation no longer checks; no concrete input unless the harness found one
            if not any(k == "violation" for k, *_ in self.failures):
                self.failures.append(("broken", "lean-proof", "; ".join(lean_res["failed"])[:500],
                                      {"theorems": lean_res["failed"], "log": lean_res["log"][-1500:]}))
        for kind, signature, what, replay in self.failures:
            match = next((e for e in known if e["signature"] == signature), None) if kind == "violation" else None
            if match is not None:
                if signature not in known_printed:
                    lines.append(f"KNOWN-FINDING: property={self.prop} {match['what']}")
                    known_printed.add(signature)
                self.known_hit[signature] = self.known_hit.get(signature, 0) + 1
                continue
            if (kind, signature) in reported:
                continue
            reported.add((kind, signature))
            violations += 1
            safe = re.sub(r"[^A-Za-z0-9_.-]", "_", signature)[:60]
            path = os.path.join("replays", f"{self.prop}-{safe}-{self.seed}.json")
            with open(os.path.join(VERIF, path), "w") as f:
                json.dump({"property": self.prop, "kind": kind, "signature": signature, "what": what,
                           "seed": self.seed, "tier": self.tier, "replay": replay}, f, indent=1, default=str)
            tail = "" if kind == "violation" else " no-failing-input-found"
            lines.append(f"VIOLATION property={self.prop} replay={path}{tail}")
        # listed findings are always announced on the unchanged tree (they are still there)
        for e in known:
            if e["signature"] not in known_printed and e.get("always_report", False):
                lines.append(f"KNOWN-FINDING: property={self.prop} {e['what']}")
        blind = [b for b in self.required_branches if self.branches.get(b, 0) == 0]
        cov = {
            "obligations": lean_res["obligations"] if lean_res else 0,
            "discharged": lean_res["discharged"] if lean_res else 0,
            "checker_cmd": f"cd lean && lake build PercevalModel.Props.{self.prop} && lake env lean <file with one `#print axioms T` "
                           f"per theorem T of Props/{self.prop}.lean>"
                           + (f" && lake env leanchecker PercevalModel.Props.{self.prop}" if self.thorough else ""),
            "trusted_base": TRUSTED_BASE,
            "theorems": lean_res["names"] if lean_res else [],
            "evaluations": self.evaluations,
            "distinct_nontrivial": len(self.sigs),
            "rule": self.rule,
            "samples": self.samples[:6] or ["(none)"],
            "exhaustive": self.exhaustive,
            "branches": self.branches,
            "distributions": self.hist,
            "known_findings_reproduced": self.known_hit,
            "generator_blind": blind,
            "lean_requests": self.lean.n if self.lean else 0,
        }
        cov.update(self.extra)
        ev = {"property_id": self.prop, "tier": self.tier, "seed": self.seed, "level": "proof",
              "coverage": cov, "assumptions": self.assumptions, "wall_s": round(time.time() - self.t0, 2),
              "violations": violations}
        evdir = os.environ.get("VERIF_EVIDENCE_DIR") or os.path.join(VERIF, "evidence")
        os.makedirs(evdir, exist_ok=True)
        with open(os.path.join(evdir, f"{self.prop}.json"), "w") as f:
            json.dump(ev, f, indent=1, default=str)
        for ln in lines:
            print(ln)
        if violations:
            return 1
        if blind:
            print(f"generator blind: branches never taken: {blind}", file=sys.stderr)
            return 2
        return 0


def exc_class(e: BaseException) -> str:
    return "rejected:" + type(e).__name__
