"""C08 — detector models return the click statistics of their physical description.

Correspondence (model = `lean/PercevalModel/Model/C08.lean`, run through `Driver/C08.lean`):

* `Detector.ppnr(w, max).detect(n)` exhaustively over a (w, max, n) box, on ONE long-lived
  instance driven through a shuffled history with repeats (memo + `_cache` in play) and on fresh
  instances; `type`, `max_detections`; `threshold()`, `pnr()`; constructor rejections;
* `BSLayeredPPNR(L, r).detect(n)` (history on one instance + fresh) and the SLOS distribution of
  `create_circuit()` against the model's leaf law;
* `BSLayeredPPNR(L, r).create_circuit()` itself (model `Model/C08Circ.lean`, op `bscirc`): the components it adds,
  `compute_unitary()` entry by entry against the model's exact unitary for reflectivities with rational
  amplitudes (Pythagorean triples), the first-column moduli against the path weights r^zeros (1-r)^ones for
  every reflectivity, and the backend's distribution of |n,0,..,0> against (a) the multinomial oracle,
  (b) the Fock specification |perm(U[t|s])|^2/(n! prod t!) evaluated by Lean on the model unitary (Mathlib
  permanent) and (c) the model's leaf law — (b) = (c) is theorem `bsTree_leaf_law_from_fock`;
* `get_detection_type` exhaustively over short detector lists, `check_heralds_detectors`;
* `simulate_detectors(dist, detectors, min_photons)` over every per-mode mixture of
  {None, PNR, threshold, interleaved, BS tree} for small m, random rational distributions,
  every filter 0..n+1 and None, fresh and long-lived detector objects;
* `Processor.probs()` with detectors = model applied to the same processor's detector-free output;
* ONE detector instance driven through a history mixing `detect(n)`, one-mode / shared-instance
  `simulate_detectors` with filters that reject readings, and a one-mode `Processor.probs()`: every answer is
  the one of a fresh detector (nothing leaks through the memoised kernel);
* `Processor.probs()` with detectors AND heralds (also on modes read by pseudo-PNR detectors), photon filter,
  post-selection, re-queried; ONE `Simulator` queried through `probs_svd` with a sequence of detector lists
  (all-PNR = backend heralds mask on, imperfect = mask off), heralds expecting up to 2 photons: the result is the
  detector kernels applied to the complete theoretical distribution, THEN the heralds / post-selection read on the
  readings (model: `Model/C08Glue.lean`, op `tail`); and the WHOLE tail inside the model (op `probs`, `probsSvd`:
  normalize, simulate_detectors, post_select_distribution with PostSelect expression, removal of the heralded
  modes, logical_perf): results, physical_perf and logical_perf compared directly, nothing post-processed by the
  harness; the same through `Processor.samples()` (support + 6-sigma TEST);
* `simulate_detectors_sample` / `Processor.samples()` with detectors: every draw lies in the support of the
  mode-wise kernel product (and a 6-sigma frequency TEST against the law);
* `simulate_detectors(dist, dets, min_photons, prob_threshold)` at NON-ZERO thresholds over the decades 1e-12..0.5 and
  with `global_params['min_p']` changed (model `Model/C08Thr.lean`, op `sim` with `thr`): the real result against the model
  at the same (min_p, T) exactly, and against the PROVED intervals around the exact law (phys_perf, every entry of the
  normalised result; slacks computed in Python); exact ties (dyadic numbers) decide `<` vs `<=`; an exact-arithmetic
  re-run of the code's algorithm tells when a float comparison is too close to call (such cases are skipped, counted);
* `BSLayeredPPNR.detect` with `min_p` changed (the backend builds its dictionary with `add`: leaf states dropped);
* `simulate_detectors_sample` with `min_p` changed: kernel-product law while no per-mode result is empty, and the
  characterised restart after an empty one (`tensor_product` returns its right factor when the left one is empty);
* mixed inputs: `Simulator.probs_svd(SVDistribution of several Fock members, detectors)` with heralds, filter,
  post-selection, precision 0 and > 0 (p_threshold handed to simulate_detectors), members below the filter, vacuum
  members, and `Processor.probs()` with a lossy source (model `Model/C08Mix.lean`, op `probsmix`): results, physical_perf,
  logical_perf against the model, and against the mixture of the members' conditioned laws (exact oracle).

Direct oracle on the implementation (independent of Lean, exact `Fraction`s): the closed form
C(w,k)·S(n,k)·k!/w^n with the fold into the maximum, min(n,1), n, the multinomial law of the
beam-splitter tree, their mode-wise product, the photon filter, total mass and physical perf.
"""
from __future__ import annotations

import copy
import glob
import itertools
import json
import os
from fractions import Fraction
from functools import lru_cache
from math import comb, factorial

from . import core

MINP = "1/10000000000000000"   # global_params['min_p'] = 1e-16
TOL = core.TOL
KEY_SLACK = 1e-12              # keys whose exact probability is below this may be present or absent


# ------------------------------------------------------------------------------------------------
# exact oracle (the property statement, evaluated with Fractions)
# ------------------------------------------------------------------------------------------------
@lru_cache(maxsize=None)
def stirling2(n, k):
    if n == 0 and k == 0:
        return 1
    if n == 0 or k == 0:
        return 0
    return k * stirling2(n - 1, k) + stirling2(n - 1, k - 1)


def closed(w, k, n):
    return Fraction(comb(w, k) * stirling2(n, k) * factorial(k), w ** n)


def spec_wires(w, mx, n):
    """click law of w equally likely saturating wires, readings above mx folded into mx (mx >= 1)"""
    out = {}
    for k in range(0, min(w, n) + 1):
        p = closed(w, k, n)
        if p:
            kk = min(k, mx)
            out[kk] = out.get(kk, Fraction(0)) + p
    return out


def spec_tree(L, r, n):
    """#occupied leaves for n independent photons over 2^L leaves with path weights"""
    leaves = []
    for idx in range(2 ** L):
        ones = bin(idx).count("1")
        leaves.append(r ** (L - ones) * (1 - r) ** ones)
    # f[(m, c)] = sum over occupations of the cells seen so far of prod p^t / t!
    f = {(0, 0): Fraction(1)}
    for p in leaves:
        g = {}
        for (m, c), v in f.items():
            for t in range(0, n - m + 1):
                key = (m + t, c + (1 if t else 0))
                g[key] = g.get(key, Fraction(0)) + v * p ** t / factorial(t)
        f = g
    out = {}
    for (m, c), v in f.items():
        if m == n and v:
            out[c] = out.get(c, Fraction(0)) + v * factorial(n)
    return out


def spec_detector(d, n):
    """d: detector spec (None / dict). -> {clicks: Fraction}"""
    if d is None or d["k"] == "pnr":
        return {n: Fraction(1)}
    if d["k"] == "thr":
        return {min(n, 1): Fraction(1)}
    if d["k"] == "ppnr":
        mx = d["w"] if d.get("max") is None else d["max"]
        return spec_wires(d["w"], mx, n)
    if d["k"] == "bs":
        return spec_tree(d["L"], r_exact(d), n)
    raise ValueError(d)


def spec_type(d):
    if d is None or d["k"] == "pnr":
        return "PNR"
    if d["k"] == "thr" or (d["k"] == "ppnr" and d["w"] == 1):
        return "Threshold"
    return "PPNR"


def spec_detection_type(dets):
    if not dets:
        return "PNR"
    ts = {spec_type(d) for d in dets}
    return ts.pop() if len(ts) == 1 else "Mixed"


def spec_simulate(dist, dets, minph):
    """dist: list of (tuple state, Fraction).  -> ({state: Fraction}, perf Fraction)"""
    if not dist or spec_detection_type(dets) == "PNR":
        return dict(dist), Fraction(1)
    out, perf = {}, Fraction(1)
    for s, p in dist:
        kernels = [sorted(spec_detector(d, n).items()) for d, n in zip(dets, s)]
        for combo in itertools.product(*kernels):
            t = tuple(k for k, _ in combo)
            q = p
            for _, x in combo:
                q *= x
            if minph is not None and sum(t) < minph:
                perf -= q
            else:
                out[t] = out.get(t, Fraction(0)) + q
    tot = sum(out.values())
    if tot != 0:
        out = {k: v / tot for k, v in out.items()}
    return out, perf


# ------------------------------------------------------------------------------------------------
# specs -> Perceval objects / Lean json
# ------------------------------------------------------------------------------------------------
def r_float(d):
    return float(Fraction(d["r"][0], d["r"][1]))


def r_exact(d):
    return Fraction(*r_float(d).as_integer_ratio())


def build_det(d):
    from perceval.components import Detector, BSLayeredPPNR
    if d is None:
        return None
    if d["k"] == "pnr":
        return Detector.pnr()
    if d["k"] == "thr":
        return Detector.threshold()
    if d["k"] == "ppnr":
        if d.get("ctor") == "init":
            return Detector(d["w"], d.get("max"))
        return Detector.ppnr(d["w"], d.get("max"))
    if d["k"] == "bs":
        return BSLayeredPPNR(d["L"], r_float(d))
    raise ValueError(d)


def lean_det(d):
    if d is None:
        return None
    if d["k"] == "pnr":
        return {"w": None, "max": None}
    if d["k"] == "thr":
        return {"w": 1, "max": None}
    if d["k"] == "ppnr":
        return {"w": d["w"], "max": d.get("max")}
    if d["k"] == "bs":
        return {"bs": d["L"], "r": core.rat(r_float(d))}
    raise ValueError(d)


def det_label(d):
    if d is None:
        return "none"
    if d["k"] == "ppnr":
        return "interleaved"
    return d["k"]


class Pool:
    """long-lived detector objects, one per spec (their caches stay warm over the whole run)"""

    def __init__(self):
        self.objs = {}

    def get(self, d):
        if d is None:
            return None
        key = json.dumps(d, sort_keys=True)
        if key not in self.objs:
            self.objs[key] = build_det(d)
        return self.objs[key]


POOL = Pool()


def py_out(r):
    """result of detect() -> canonical"""
    from perceval.utils import BasicState
    if isinstance(r, BasicState):
        return {"state": r[0]}
    return {"dist": {s[0]: float(p) for s, p in r.items()}}


def lean_out(o):
    if "state" in o:
        return {"state": o["state"]}
    return {"dist": {k: Fraction(p) for k, p in o["dist"]}}


def cmp_dist(py, model):
    """py: {key: float}, model: {key: Fraction}.  None when they agree, else a description."""
    for k, m in model.items():
        if k not in py:
            if m > KEY_SLACK:
                return f"key {k} (p={float(m):.6g}) missing in the implementation's result"
        elif not core.close(py[k], float(m), TOL):
            return f"p[{k}] = {py[k]!r}, expected {float(m)!r}"
    for k, x in py.items():
        if k not in model and abs(x) > KEY_SLACK:
            return f"unexpected key {k} with p={x!r}"
    return None


def cmp_out(py, model):
    """detect() outputs; model side is canonical-exact (or a spec dict for the oracle)"""
    if ("state" in py) != ("state" in model):
        return f"return kind differs: implementation {'state' if 'state' in py else 'distribution'}"
    if "state" in py:
        return None if py["state"] == model["state"] else f"state |{py['state']}>, expected |{model['state']}>"
    return cmp_dist(py["dist"], model["dist"])


def cmp_spec(py, spec):
    """detect() output against the property's law {clicks: Fraction} (kind of container ignored)"""
    d = {py["state"]: 1.0} if "state" in py else py["dist"]
    return cmp_dist(d, spec)


# ------------------------------------------------------------------------------------------------
# A. Detector.detect
# ------------------------------------------------------------------------------------------------
def run_detect_case(chk, case, pooled=None):
    """case = {"w":w|None, "max":mx|None, "ns":[...], "ctor":...}; returns failure tuple or None"""
    from perceval.components import Detector
    w, mx, ns = case["w"], case["max"], case["ns"]
    rep = chk.lean.ask({"op": "detect", "wires": w, "max": mx, "minp": MINP, "ns": ns})

    def make():
        if case.get("ctor") == "threshold":
            return Detector.threshold()
        if case.get("ctor") == "pnr":
            return Detector.pnr()
        if case.get("ctor") == "init":
            return Detector(w, mx)
        return Detector.ppnr(w, mx)

    try:
        inst = make()
    except AssertionError:
        chk.branch("rejected")
        if rep.get("err") == "AssertionError":
            return None
        good = (w is None) or (w >= 1 and (mx is None or mx <= w))
        if good:
            return ("violation", "detector-ctor-rejects-valid", f"Detector({w}, {mx}) raised AssertionError", case)
        return ("broken", "model-vs-code", f"constructor rejected, model says {rep}", case)
    if "err" in rep:
        return ("broken", "model-vs-code", f"model rejects Detector({w}, {mx}) ({rep['err']}), the code accepts it", case)
    ty = inst.type.name
    if ty != rep["type"] or inst.max_detections != rep["max"]:
        exp_ty = "PNR" if w is None else ("Threshold" if w == 1 else "PPNR")
        exp_max = None if w is None else (w if mx is None else min(mx, w))
        if ty != exp_ty or inst.max_detections != exp_max:
            return ("violation", "detector-type-or-max", f"type={ty} max={inst.max_detections}, expected {exp_ty}/{exp_max}", case)
        return ("broken", "model-vs-code", f"type/max differ from the model: {ty}/{inst.max_detections} vs {rep['type']}/{rep['max']}", case)
    hist = [py_out(inst.detect(n)) for n in ns]
    again = [py_out(inst.detect(n)) for n in ns]          # every entry now comes from the caches
    fresh = [py_out(make().detect(n)) for n in ns]
    seen = set()
    for i, n in enumerate(ns):
        m_hist, m_fresh = lean_out(rep["hist"][i]), lean_out(rep["fresh"][i])
        for label, got, model in (("long-lived", hist[i], m_hist), ("cached", again[i], m_hist), ("fresh", fresh[i], m_fresh)):
            why_model = cmp_out(got, model)
            # direct oracle: the property's law (domain: max >= 1)
            why_spec = None
            if w is not None and (mx is None or mx >= 1):
                why_spec = cmp_spec(got, spec_wires(w, w if mx is None else mx, n))
            elif w is None:
                why_spec = cmp_spec(got, {n: Fraction(1)})
            if why_spec is not None:
                return ("violation", "detect-click-law",
                        f"Detector(wires={w}, max={mx}).detect({n}) [{label} instance]: {why_spec}",
                        dict(case, ns=ns[:i + 1] if label != "fresh" else [n]))
            if why_model is not None:
                return ("broken", "model-vs-code",
                        f"Detector(wires={w}, max={mx}).detect({n}) [{label}] differs from the model: {why_model}",
                        dict(case, ns=ns[:i + 1]))
        # bookkeeping
        if n in seen:
            chk.branch("cache-hit")
        seen.add(n)
        if w is None:
            chk.branch("pnr")
        elif w == 1:
            chk.branch("threshold")
        elif n >= 2:
            cap = w if mx is None else mx
            chk.branch("ppnr-fold" if (cap < w and n > cap) else "ppnr-nofold")
            if n > w:
                chk.branch("more-photons-than-wires")
            md = lean_out(rep["fresh"][i])["dist"]
            if len(md) < min(cap, n):
                chk.branch("minp-trim")
        chk.case(("detect", w, mx, n), nontrivial=(w is not None and w >= 2 and n >= 2),
                 sample={"detector": f"Detector({w},{mx})", "n": n, "result": hist[i]})
    return None


def detect_cases(chk):
    rng = chk.rng
    W = chk.pick(8, 14)
    N = chk.pick(10, 18)
    cases = []
    for w in range(1, W + 1):
        for mx in [None] + list(range(0, w + 1)):
            ns = list(range(0, N + 1))
            rng.shuffle(ns)
            ns = ns + rng.sample(ns, 4)
            cases.append({"w": w, "max": mx, "ns": ns, "ctor": rng.choice(["ppnr", "init"])})
    # deep rows where probabilities fall below min_p (the `add` trimming path)
    for w, n in [(14, 18), (12, 18), (16, 17)]:
        cases.append({"w": w, "max": None, "ns": [n, 2, n], "ctor": "ppnr"})
    cases.append({"w": 1, "max": None, "ns": list(range(0, N + 1)), "ctor": "threshold"})
    cases.append({"w": None, "max": None, "ns": list(range(0, N + 1)), "ctor": "pnr"})
    cases.append({"w": None, "max": 3, "ns": [0, 1, 2, 5], "ctor": "init"})
    # malformed
    for w, mx in [(0, None), (0, 0), (3, 4), (1, 2), (5, 9)]:
        cases.append({"w": w, "max": mx, "ns": [2], "ctor": "init"})
    return cases


# ------------------------------------------------------------------------------------------------
# C. BSLayeredPPNR
# ------------------------------------------------------------------------------------------------
BS_RS = [(1, 2), (9, 25), (16, 25), (1, 4), (1, 3), (7, 10), (11, 20), (0, 1), (1, 1), (1, 100)]


def run_bs_case(chk, case):
    from perceval.components import BSLayeredPPNR
    from perceval.backends import SLOSBackend
    from perceval.utils import BasicState
    L, ns = case["L"], case["ns"]
    d = {"k": "bs", "L": L, "r": case["r"]}
    rf = r_float(d)
    minp = None if case.get("minp") is None else Fraction(*float(Fraction(*case["minp"])).as_integer_ratio())
    req = {"op": "bs", "L": L, "r": core.rat(rf), "ns": ns, "minp": MINP if minp is None else core.rat(minp)}
    if case.get("occ") is not None:
        req["occ"] = case["occ"]
    rep = chk.lean.ask(req)
    if minp is not None:
        return run_bs_minp_case(chk, case, rep, d, rf, float(minp), minp)
    try:
        inst = BSLayeredPPNR(L, rf)
    except AssertionError:
        chk.branch("rejected")
        if rep.get("err") == "AssertionError":
            return None
        if L >= 1 and 0 <= rf <= 1:
            return ("violation", "bs-ctor-rejects-valid", f"BSLayeredPPNR({L}, {rf}) raised AssertionError", case)
        return ("broken", "model-vs-code", f"constructor rejected, model says {rep}", case)
    if "err" in rep:
        return ("broken", "model-vs-code", f"model rejects BSLayeredPPNR({L}, {rf}) ({rep['err']})", case)
    if inst.type.name != "PPNR" or inst.max_detections != 2 ** L:
        return ("violation", "detector-type-or-max", f"BSLayeredPPNR type={inst.type.name} max={inst.max_detections}", case)
    hist = [py_out(inst.detect(n)) for n in ns]
    again = [py_out(inst.detect(n)) for n in ns]
    fresh = [py_out(BSLayeredPPNR(L, rf).detect(n)) for n in ns]
    seen = set()
    for i, n in enumerate(ns):
        model = lean_out(rep["hist"][i])
        spec = spec_tree(L, r_exact(d), n)
        for label, got in (("long-lived", hist[i]), ("cached", again[i]), ("fresh", fresh[i])):
            why_spec = cmp_spec(got, spec)
            if why_spec is None and rf == 0.5:
                why_spec = cmp_spec(got, spec_wires(2 ** L, 2 ** L, n))
            if why_spec is not None:
                return ("violation", "bs-tree-click-law",
                        f"BSLayeredPPNR({L}, {rf}).detect({n}) [{label}]: {why_spec}", dict(case, ns=ns[:i + 1]))
            why = cmp_out(got, model)
            if why is not None:
                return ("broken", "model-vs-code", f"BSLayeredPPNR({L}, {rf}).detect({n}) [{label}] vs model: {why}",
                        dict(case, ns=ns[:i + 1]))
        if n in seen and n >= 2:
            chk.branch("bs-cache-hit")
        seen.add(n)
        if n >= 2:
            chk.branch("bs-tree")
            if rf != 0.5:
                chk.branch("bs-unbalanced")
        chk.case(("bs", L, tuple(case["r"]), n), nontrivial=n >= 2,
                 sample={"detector": f"BSLayeredPPNR({L},{rf})", "n": n, "result": hist[i]})
    if case.get("occ") is not None:
        # the assumption about the external backend: leaf law of create_circuit()
        n = case["occ"]
        c = inst.create_circuit()
        slos = SLOSBackend()
        slos.set_circuit(c)
        slos.set_input_state(BasicState([n] + [0] * (c.m - 1)))
        got = {tuple(s): float(p) for s, p in slos.prob_distribution().items()}
        model = {tuple(s): Fraction(p) for s, p in rep["occ"]}
        why = cmp_dist(got, model)
        chk.branch("bs-leaf-law")
        if why is not None:
            return ("broken", "bs-leaf-law-assumption",
                    f"SLOS distribution of BSLayeredPPNR({L}, {rf}).create_circuit() on {n} photons is not the "
                    f"assumed multinomial leaf law: {why}", case)
    return None


def run_bs_minp_case(chk, case, rep, d, rf, minp_f, minp):
    """BSLayeredPPNR.detect with global_params['min_p'] changed: the backend's prob_distribution() is built with `add`, so
    a leaf state whose probability is not above min_p is dropped before the click counts are summed (model bsDetectP);
    proved bound kernel_wt_dev: law - (number of leaf states)*min_p <= entry <= law"""
    from perceval.components import BSLayeredPPNR
    L, ns = case["L"], case["ns"]
    if "err" in rep:
        return ("broken", "model-vs-code", f"model rejects BSLayeredPPNR({L}, {rf}) ({rep['err']})", case)
    with MinP(minp_f):
        inst = BSLayeredPPNR(L, rf)
        hist = [py_out(inst.detect(n)) for n in ns]
    chk.branch("bs-minp-changed")
    for i, n in enumerate(ns):
        got = hist[i]
        spec = spec_tree(L, r_exact(d), n)
        S = comb(n + 2 ** L - 1, n)
        gd = {got["state"]: 1.0} if "state" in got else got["dist"]
        for k in set(spec) | set(gd):
            ex, x = float(spec.get(k, 0)), gd.get(k, 0.0)
            if not (ex - float(S * minp) - 1e-9 <= x <= ex + 1e-9):
                return ("violation", "bs-tree-minp-bound",
                        f"BSLayeredPPNR({L}, {rf}).detect({n}) at min_p={minp_f!r}: entry {k} = {x!r} outside the proved "
                        f"interval [{ex - float(S * minp)!r}, {ex!r}]", dict(case, ns=ns[:i + 1]))
        why = cmp_out(got, lean_out(rep["hist"][i]))
        if why is not None:
            return ("broken", "model-vs-code", f"BSLayeredPPNR({L}, {rf}).detect({n}) at min_p={minp_f!r} vs model: {why}",
                    dict(case, ns=ns[:i + 1]))
        if n >= 2 and "dist" in got and abs(sum(gd.values()) - 1.0) > 1e-6:
            chk.branch("bs-minp-leaf-dropped")
        chk.case(("bs-minp", L, tuple(case["r"]), n, tuple(case["minp"])), nontrivial=n >= 2,
                 sample={"detector": f"BSLayeredPPNR({L},{rf})", "n": n, "min_p": case["minp"], "result": got})
    return None


def bs_cases(chk):
    rng = chk.rng
    Lmax = 3
    N = chk.pick(5, 6)
    cases = []
    for L in range(1, Lmax + 1):
        for r in BS_RS:
            top = N if L < 3 else chk.pick(4, 5)
            ns = list(range(0, top + 1))
            rng.shuffle(ns)
            ns = ns + rng.sample(ns, 2)
            cases.append({"L": L, "r": list(r), "ns": ns, "occ": rng.choice([2, 3]) if L <= 2 or chk.thorough else None})
    for L, r in [(0, (1, 2)), (1, (-1, 5)), (1, (11, 10))]:
        cases.append({"L": L, "r": list(r), "ns": [2]})
    # changed min_p: the backend drops leaf states
    for _ in range(chk.pick(10, 60)):
        L = rng.randint(1, 2)
        cases.append({"L": L, "r": list(rng.choice(BS_RS[:7])), "ns": rng.sample([0, 1, 2, 3, 4], 3),
                      "minp": [rng.randint(1000, 9999), 10000 * 10 ** rng.choice([0, 0, 1, 1, 2, 4])]})
    return cases


# ------------------------------------------------------------------------------------------------
# C'. BSLayeredPPNR.create_circuit(): components, unitary, first column = path weights, Fock law of |n,0,..,0>
# ------------------------------------------------------------------------------------------------
# reflectivities with rational sqrt(r), sqrt(1-r): r = (a/h)^2, c = a/h, s = i*b/h  (a^2 + b^2 = h^2)
PYTHAGOREAN = [(3, 4, 5), (4, 3, 5), (5, 12, 13), (12, 5, 13), (8, 15, 17), (0, 1, 1), (1, 0, 1), (20, 21, 29)]


def leaf_weight(L, k, r):
    """the property's physical description: a photon reaches leaf k of the depth-L tree along the path given by the L
    bits of k (first layer = most significant bit), taking the first output (weight r) on a 0 bit"""
    ones = bin(k).count("1")
    return r ** (L - ones) * (1 - r) ** ones


def multinomial_law(weights, n):
    """{state: Fraction}: n independent photons over the leaves"""
    out = {}

    def rec(i, left, cur, p):
        if i == len(weights) - 1:
            out[tuple(cur + [left])] = p * weights[i] ** left / factorial(left)
            return
        for t in range(left, -1, -1):
            rec(i + 1, left - t, cur + [t], p * weights[i] ** t / factorial(t))
    rec(0, n, [], Fraction(factorial(n)))
    return out


def run_bscirc_case(chk, case):
    import math
    import numpy as np
    from perceval.components import BSLayeredPPNR
    from perceval.backends import SLOSBackend
    from perceval.utils import BasicState
    L = case["L"]
    if case.get("tri") is not None:
        a, b, h = case["tri"]
        r = Fraction(a * a, h * h)
        req = {"op": "bscirc", "L": L, "r": core.rat(r), "c": [core.rat(Fraction(a, h)), "0"],
               "s": ["0", core.rat(Fraction(b, h))]}
        if case.get("n") is not None:
            req["n"] = case["n"]
    else:
        r = Fraction(case["r"][0], case["r"][1])
        req = {"op": "bscirc", "L": L, "r": core.rat(r)}
    rf = float(r)
    rep = chk.lean.ask(req)
    if "err" in rep:
        return ("broken", "model-vs-code", f"model rejects the tree circuit L={L} r={r}: {rep['err']}", case)
    inst = BSLayeredPPNR(L, rf)
    circ = inst.create_circuit()
    N = 2 ** L
    if circ.m != N or rep["m"] != N:
        return ("violation", "bs-tree-circuit-size", f"create_circuit() of BSLayeredPPNR({L}) has {circ.m} modes", case)
    # components (diagnostic only: two lists of components with the same unitary are the same circuit)
    comps = []
    for rng_, comp in circ:
        kind = type(comp).__name__
        if kind == "PERM":
            comps.append(["PERM", rng_[0], list(comp.perm_vector)])
        else:
            comps.append([kind, rng_[0]])
    chk.count("bscirc-components", "as-modelled" if comps == rep["comps"] else
              ("reordered" if sorted(map(json.dumps, comps)) == sorted(map(json.dumps, rep["comps"])) else "different"))
    U = np.array(circ.compute_unitary(), dtype=complex)
    # (1) direct oracle on the real circuit: first-column moduli = path weights (no Lean involved)
    for k in range(N):
        w = leaf_weight(L, k, r)
        if not core.close(abs(U[k, 0]) ** 2, float(w), TOL):
            return ("violation", "bs-tree-leaf-weights",
                    f"BSLayeredPPNR({L}, {rf}).create_circuit(): |U[{k},0]|^2 = {abs(U[k, 0]) ** 2!r}, a photon reaches leaf "
                    f"{k} with probability r^{L - bin(k).count('1')}(1-r)^{bin(k).count('1')} = {float(w)!r}", case)
        if Fraction(rep["weights"][k]) != w or rep["ones"][k] != bin(k).count("1"):
            return ("broken", "model-vs-code", f"model path weight of leaf {k}: {rep['weights'][k]}, oracle {w}", case)
    chk.branch("bscirc-weights")
    if L >= 2:
        chk.branch("bscirc-with-perm")
    if case.get("tri") is None:
        chk.case(("bscirc", L, str(r)), nontrivial=L >= 2, sample={"L": L, "r": str(r), "col0_sq": [float(abs(U[k, 0]) ** 2) for k in range(N)]})
        return None
    # (2) exact unitary of the model against compute_unitary()
    for i in range(N):
        for k in range(N):
            mre, mim = (float(Fraction(x)) for x in rep["U"][i][k])
            if not (core.close(U[i, k].real, mre, TOL) and core.close(U[i, k].imag, mim, TOL)):
                return ("broken", "bs-tree-unitary",
                        f"BSLayeredPPNR({L}, {rf}).create_circuit().compute_unitary()[{i},{k}] = {U[i, k]!r}, model "
                        f"{mre!r}+{mim!r}j", case)
    for k in range(N):
        if rep["col0"][k] != rep["U"][k][0]:
            return ("broken", "model-internal", f"leafP differs from the model unitary's first column at {k}", case)
    chk.branch("bscirc-unitary")
    n = case.get("n")
    if n is None:
        chk.case(("bscirc", L, str(r), "U"), nontrivial=L >= 2, sample={"L": L, "r": str(r)})
        return None
    # (3) the backend's distribution of |n,0,..,0> against: the multinomial oracle (direct), the Fock specification on
    #     the model unitary (Mathlib permanent) and the model's leaf law treeOcc (theorem bsTree_leaf_law_from_fock)
    slos = SLOSBackend()
    slos.set_circuit(circ)
    slos.set_input_state(BasicState([n] + [0] * (N - 1)))
    got = {tuple(s_): float(p) for s_, p in slos.prob_distribution().items()}
    oracle = multinomial_law([leaf_weight(L, k, r) for k in range(N)], n)
    why = cmp_dist(got, oracle)
    if why is not None:
        return ("violation", "bs-tree-leaf-law",
                f"SLOS distribution of |{n},0,..> through BSLayeredPPNR({L}, {rf}).create_circuit() is not multinomial in the "
                f"path weights: {why}", case)
    fock = {tuple(t): Fraction(p) for t, p in rep["fock"]}
    occ = {tuple(t): Fraction(p) for t, p in rep["occ_at"]}
    if len(fock) != len(rep["fock"]) or rep["occ_len"] != len(fock):
        return ("broken", "model-internal", "model state lists have repeated / missing states", case)
    if fock != oracle or occ != oracle:
        bad = [t for t in oracle if fock.get(t) != oracle[t] or occ.get(t) != oracle[t]][:1]
        return ("broken", "model-vs-code", f"model Fock law / leaf law differ from the multinomial oracle at {bad}", case)
    chk.branch("bscirc-fock-law")
    if any(max(t) >= 2 for t, p in got.items() if p > 0):
        chk.branch("bscirc-bunched-leaf")
    chk.case(("bscirc", L, str(r), n), nontrivial=n >= 2, sample={"L": L, "r": str(r), "n": n, "states": len(got)})
    return None


def bscirc_cases(chk):
    rng = chk.rng
    cases = []
    for L in (1, 2, 3):
        for r in BS_RS + [(3, 7), (99, 100)]:
            cases.append({"L": L, "r": list(r)})
        tris = PYTHAGOREAN if chk.thorough else PYTHAGOREAN[:4] + rng.sample(PYTHAGOREAN[4:], 2)
        for tri in tris:
            nmax = {1: 5, 2: chk.pick(3, 4), 3: chk.pick(2, 3)}[L]
            ns = list(range(0, nmax + 1)) if chk.thorough else sorted(set([nmax, rng.randint(0, nmax), 2]))
            cases.append({"L": L, "tri": list(tri)})
            for n in ns:
                cases.append({"L": L, "tri": list(tri), "n": n})
    return cases


# ------------------------------------------------------------------------------------------------
# D/E. get_detection_type, check_heralds_detectors
# ------------------------------------------------------------------------------------------------
ALPHABET = [None, {"k": "pnr"}, {"k": "thr"}, {"k": "ppnr", "w": 3, "max": None}, {"k": "ppnr", "w": 2, "max": 1},
            {"k": "ppnr", "w": 1, "max": 1}, {"k": "bs", "L": 1, "r": [1, 2]}]


def run_dtype_case(chk, dets, use_none_arg=False):
    from perceval.components.detector import get_detection_type
    got = get_detection_type(None if use_none_arg else [POOL.get(d) for d in dets]).name
    rep = chk.lean.ask({"op": "dtype", "dets": [lean_det(d) for d in dets]})
    exp = spec_detection_type(dets)
    chk.case(("dtype", tuple(det_label(d) for d in dets)), nontrivial=len(dets) >= 2)
    chk.branch("dtype-" + got)
    if got != exp:
        return ("violation", "detection-type", f"get_detection_type({[det_label(d) for d in dets]}) = {got}, expected {exp}",
                {"dets": dets})
    if rep.get("type") != got:
        return ("broken", "model-vs-code", f"get_detection_type = {got}, model {rep}", {"dets": dets})
    return None


def run_heralds_case(chk, case):
    from perceval.components.detector import check_heralds_detectors
    dets, heralds = case["dets"], case["heralds"]
    objs = [POOL.get(d) for d in dets]
    got = check_heralds_detectors({k: v for k, v in heralds}, objs)
    rep = chk.lean.ask({"op": "heralds", "heralds": heralds, "dets": [lean_det(d) for d in dets]})
    # property: true iff every heralded value is a possible reading of its detector
    exp = True
    if heralds and dets:
        for k, v in heralds:
            d = dets[k]
            mx = None
            if d is not None and d["k"] == "thr":
                mx = 1
            elif d is not None and d["k"] == "ppnr":
                mx = d["w"] if d.get("max") is None else min(d["max"], d["w"])
            elif d is not None and d["k"] == "bs":
                mx = 2 ** d["L"]
            if mx is not None and v > mx:
                exp = False
    chk.case(("heralds", tuple(map(tuple, heralds)), tuple(det_label(d) for d in dets)), nontrivial=bool(heralds))
    chk.branch("heralds-ok" if got else "heralds-incompatible")
    if got != exp:
        return ("violation", "heralds-detectors", f"check_heralds_detectors({heralds}, {[det_label(d) for d in dets]}) = {got}", case)
    if rep.get("ok") != got:
        return ("broken", "model-vs-code", f"check_heralds_detectors = {got}, model {rep}", case)
    return None


# ------------------------------------------------------------------------------------------------
# F. simulate_detectors
# ------------------------------------------------------------------------------------------------
def gen_det(rng, kind):
    if kind == "none":
        return None
    if kind == "pnr":
        return {"k": "pnr"}
    if kind == "thr":
        return {"k": "thr"}
    if kind == "interleaved":
        w = rng.randint(2, 5)
        mx = rng.choice([None] + list(range(1, w + 1)))
        return {"k": "ppnr", "w": w, "max": mx}
    if kind == "bs":
        return {"k": "bs", "L": rng.randint(1, 2), "r": list(rng.choice(BS_RS[:7]))}
    raise ValueError(kind)


KINDS = ["none", "pnr", "thr", "interleaved", "bs"]


def gen_dist(rng, m, nmax, normalised=True):
    k = rng.randint(1, 6)
    states = set()
    for _ in range(k):
        n = rng.randint(0, nmax)
        s = [0] * m
        for _ in range(n):
            s[rng.randrange(m)] += 1
        states.add(tuple(s))
    states = sorted(states)
    rng.shuffle(states)
    ws = [rng.randint(1, 9) for _ in states]
    tot = sum(ws) if normalised else rng.choice([sum(ws) + 3, 10, 2 * sum(ws)])
    return [[list(s), [w, tot]] for s, w in zip(states, ws)]


def sim_observe(case, pooled):
    """run the real simulate_detectors. -> {"err":..} or {"dist":{state: float}, "perf": float}"""
    from perceval.simulators._simulate_detectors import simulate_detectors
    from perceval.utils import BSDistribution, BasicState
    bsd = BSDistribution()
    for s, p in case["dist"]:
        bsd[BasicState(s)] = float(Fraction(p[0], p[1]))
    if case.get("emptied"):
        for s, _ in case["dist"]:
            del bsd[BasicState(s)]
    dets = [POOL.get(d) if pooled else build_det(d) for d in case["dets"]]
    if case.get("share") and case["dets"] and not pooled:
        # one object in several modes: [det] * m
        first = {}
        for i, d in enumerate(case["dets"]):
            key = json.dumps(d, sort_keys=True)
            if key in first:
                dets[i] = dets[first[key]]
            else:
                first[key] = i
    try:
        if case["minph"] == "default":
            res, perf = simulate_detectors(bsd, dets)
        else:
            res, perf = simulate_detectors(bsd, dets, case["minph"])
    except AssertionError:
        return {"err": "AssertionError"}
    return {"dist": {tuple(s): float(p) for s, p in res.items()}, "perf": float(perf)}


def sim_exact_dist(case):
    if case.get("emptied"):
        return []
    return [(tuple(s), Fraction(*float(Fraction(p[0], p[1])).as_integer_ratio())) for s, p in case["dist"]]


def sim_lean_req(case):
    dist = sim_exact_dist(case)
    m = len(case["dist"][0][0]) if case["dist"] else None
    return {"op": "sim", "m": m, "dist": [[list(s), core.rat(p)] for s, p in dist],
            "dets": [lean_det(d) for d in case["dets"]],
            "minph": None if case["minph"] == "default" else case["minph"], "minp": MINP}


def judge_sim(chk, case, rep=None):
    if rep is None:
        rep = chk.lean.ask(sim_lean_req(case))
    dist = sim_exact_dist(case)
    m = len(case["dist"][0][0]) if case["dist"] else None
    minph = None if case["minph"] == "default" else case["minph"]
    for pooled in (False, True):
        obs = sim_observe(case, pooled)
        label = "long-lived detectors" if pooled else "fresh detectors"
        if "err" in obs:
            chk.branch("rejected")
            if m == len(case["dets"]):
                return ("violation", "simulate-rejects-valid", f"simulate_detectors raised {obs['err']} on matching sizes", case)
            if rep.get("err") != obs["err"]:
                return ("broken", "model-vs-code", f"implementation raised {obs['err']}, model {rep}", case)
            continue
        if "err" in rep:
            return ("broken", "model-vs-code", f"model rejects ({rep['err']}), implementation returned a result", case)
        # direct oracle
        s_dist, s_perf = spec_simulate(dist, case["dets"], minph)
        why = cmp_dist(obs["dist"], s_dist)
        if why is None and not core.close(obs["perf"], float(s_perf), TOL):
            why = f"physical perf {obs['perf']!r}, expected {float(s_perf)!r}"
        if why is None and obs["dist"] and spec_detection_type(case["dets"]) != "PNR" \
                and not core.close(sum(obs["dist"].values()), 1.0, TOL):
            why = f"result mass {sum(obs['dist'].values())!r}"
        if why is not None:
            return ("violation", "simulate-detectors-law",
                    f"simulate_detectors ({label}): {why}", case)
        m_dist = {tuple(s): Fraction(p) for s, p in rep["dist"]}
        why = cmp_dist(obs["dist"], m_dist)
        if why is None and not core.close(obs["perf"], float(Fraction(rep["perf"])), TOL):
            why = f"physical perf {obs['perf']!r}, model {float(Fraction(rep['perf']))!r}"
        if why is not None:
            return ("broken", "model-vs-code", f"simulate_detectors ({label}) vs model: {why}", case)
    return None


def shrink_sim(chk, case, sig):
    def fails(c):
        try:
            r = judge_sim(chk, c)
        except Exception:
            return False
        return r is not None and r[1] == sig
    cur = copy.deepcopy(case)
    budget = 60
    changed = True
    while changed and budget > 0:
        changed = False
        for i in range(len(cur["dist"])):
            if len(cur["dist"]) <= 1:
                break
            cand = copy.deepcopy(cur)
            del cand["dist"][i]
            budget -= 1
            if fails(cand):
                cur, changed = cand, True
                break
        if changed:
            continue
        for i, d in enumerate(cur["dets"]):
            if d is not None:
                cand = copy.deepcopy(cur)
                cand["dets"][i] = None
                budget -= 1
                if fails(cand):
                    cur, changed = cand, True
                    break
        if changed:
            continue
        if cur["minph"] not in (None, "default", 0):
            cand = copy.deepcopy(cur)
            cand["minph"] = None
            budget -= 1
            if fails(cand):
                cur, changed = cand, True
    return cur


def handle_sim(chk, case):
    kinds = tuple(det_label(d) for d in case["dets"])
    dist = sim_exact_dist(case)
    minph = None if case["minph"] == "default" else case["minph"]
    ty = spec_detection_type(case["dets"])
    m_ok = bool(case["dist"]) and len(case["dist"][0][0]) == len(case["dets"])
    if m_ok:
        if not dist:
            chk.branch("sim-empty-dist")
        elif ty == "PNR":
            chk.branch("sim-pnr-branch")
        elif ty == "Threshold":
            chk.branch("sim-threshold-branch")
        else:
            chk.branch("sim-general-branch")
            if len(set(k for k in kinds if k not in ("none", "pnr"))) >= 2:
                chk.branch("sim-mixed-kinds")
        if dist and ty != "PNR":
            s_dist, perf = spec_simulate(dist, case["dets"], minph)
            if perf < 1:
                chk.branch("filter-drop")
            if not s_dist:
                chk.branch("filter-all-dropped")
    for k in kinds:
        chk.count("detector_kind", k)
    chk.count("modes", len(case["dets"]))
    chk.count("filter", case["minph"])
    chk.count("states", len(case["dist"]))
    res = judge_sim(chk, case)
    nmax = max((sum(s) for s, _ in case["dist"]), default=0)
    chk.case(("sim", kinds, tuple(tuple(s) for s, _ in case["dist"]), str(case["minph"])),
             nontrivial=(m_ok and ty not in ("PNR",) and nmax >= 2),
             sample={"dets": kinds, "dist": case["dist"][:3], "min_photons": case["minph"]})
    if res is not None:
        kind, sig, what, rp = res
        small = shrink_sim(chk, case, sig)
        chk.fail(kind, sig, what, {"kind": "sim", "case": small})


def sim_cases(chk):
    rng = chk.rng
    cases = []
    mmax_exh = chk.pick(2, 3)
    # every per-mode mixture of the five kinds
    for m in range(1, mmax_exh + 1):
        for kinds in itertools.product(KINDS, repeat=m):
            reps = chk.pick(1, 2)
            for _ in range(reps):
                nmax = rng.randint(2, chk.pick(4, 5))
                dist = gen_dist(rng, m, nmax, normalised=rng.random() < 0.8)
                dets = [gen_det(rng, k) for k in kinds]
                top = max(sum(s) for s, _ in dist)
                f = rng.choice([None, "default"] + list(range(0, top + 2)))
                cases.append({"dist": dist, "dets": dets, "minph": f, "share": rng.random() < 0.3})
    # every filter value on random larger mixtures
    n_rand = chk.pick(60, 700)
    for _ in range(n_rand):
        m = rng.randint(2, 4)
        kinds = [rng.choice(KINDS) for _ in range(m)]
        if rng.random() < 0.15:
            kinds = [rng.choice(["thr", "thr", "pnr", "none"])] * m
        dist = gen_dist(rng, m, rng.randint(2, chk.pick(4, 5)), normalised=rng.random() < 0.8)
        dets = [gen_det(rng, k) for k in kinds]
        if rng.random() < 0.3:
            dets = [dets[0]] * m
        top = max(sum(s) for s, _ in dist)
        for f in ([None] + list(range(0, top + 2)) if rng.random() < 0.25 else [rng.choice([None] + list(range(0, top + 2)))]):
            cases.append({"dist": dist, "dets": dets, "minph": f, "share": rng.random() < 0.5})
    # empty distributions and size mismatches (malformed stream)
    cases.append({"dist": [], "dets": [{"k": "thr"}], "minph": None})
    cases.append({"dist": [[[1, 1], [1, 1]]], "dets": [{"k": "thr"}, None], "minph": None, "emptied": True})
    cases.append({"dist": [[[2, 1], [1, 1]]], "dets": [{"k": "ppnr", "w": 3, "max": None}, None], "minph": 1, "emptied": True})
    for _ in range(chk.pick(6, 40)):
        m = rng.randint(1, 3)
        dets = [gen_det(rng, rng.choice(KINDS)) for _ in range(m + rng.choice([-1, 1, 2]))]
        cases.append({"dist": gen_dist(rng, m, 3), "dets": dets, "minph": rng.choice([None, 1])})
    return cases


# ------------------------------------------------------------------------------------------------
# F2. one detector INSTANCE driven through a history that mixes its entry points:
#     detect(n) / simulate_detectors (one mode: the tensor product of a single factor IS the memoised
#     object; several modes sharing the instance) / a one-mode Processor.probs(), with photon filters that
#     reject some readings — every answer must be the one of a fresh detector (no state leaks through the memo)
# ------------------------------------------------------------------------------------------------
def run_detsession_case(chk, case):
    import perceval as pcvl
    from perceval.components import PS
    from perceval.simulators._simulate_detectors import simulate_detectors
    from perceval.utils import BSDistribution, BasicState
    d = case["det"]
    inst = build_det(d)
    chk.branch("detector-session")
    filtered_before = False
    for i, step in enumerate(case["steps"]):
        sub = dict(case, steps=case["steps"][:i + 1])
        sig = "detector-history-dependence" if i else "detect-click-law"
        where = f"step {i + 1} of a history on ONE {det_label(d)} detector instance {json.dumps(d)}"
        try:
            if step[0] == "detect":
                n = step[1]
                why = cmp_spec(py_out(inst.detect(n)), spec_detector(d, n))
                if filtered_before and n >= 2:
                    chk.branch("session-detect-after-filtered-sim")
                if why is not None:
                    return ("violation", sig, f"{where}: detect({n}): {why}", sub)
            else:
                if step[0] == "sim":
                    dist = [(tuple(st), Fraction(*float(Fraction(q[0], q[1])).as_integer_ratio())) for st, q in step[1]]
                    m = len(dist[0][0])
                    bsd = BSDistribution()
                    for st, q in dist:
                        bsd[BasicState(list(st))] = float(q)
                    res, perf = simulate_detectors(bsd, [inst] * m, step[2])
                    what = f"simulate_detectors({[list(st) for st, _ in dist]}, [inst]*{m}, {step[2]})"
                else:
                    n, m = step[1], 1
                    dist = [((n,), Fraction(1))]
                    pr = pcvl.Processor("SLOS", pcvl.Circuit(1).add(0, PS(0.3)))
                    pr.add(0, inst)
                    pr.min_detected_photons_filter(step[2])
                    pr.with_input(BasicState([n]))
                    out = pr.probs(precision=0)
                    res, perf = out["results"], out["physical_perf"]
                    what = f"one-mode Processor.probs() on |{n}> with filter {step[2]}"
                got = {tuple(st): float(q) for st, q in res.items()}
                s_dist, s_perf = spec_simulate(dist, [d] * m, step[2])
                if m == 1:
                    chk.branch("session-one-mode-sim")
                if s_perf < 1:
                    chk.branch("session-filter-rejects-reading")
                    filtered_before = True
                why = cmp_dist(got, s_dist)
                if why is None and not core.close(float(perf), float(s_perf), TOL):
                    why = f"physical perf {float(perf)!r}, expected {float(s_perf)!r}"
                if why is not None:
                    return ("violation", sig if step[0] == "sim" or i else "processor-detectors-law",
                            f"{where}: {what}: {why}", sub)
        except Exception as e:
            return ("violation", "detector-session-raises", f"{where}: {step} raised {type(e).__name__}: {e}", sub)
    chk.case(("detsession", json.dumps(d, sort_keys=True), json.dumps(case["steps"])), nontrivial=True,
             sample={"detector": d, "steps": case["steps"][:4]})
    return None


def detsession_cases(chk):
    rng = chk.rng
    dets = [{"k": "ppnr", "w": 3, "max": None}, {"k": "ppnr", "w": 5, "max": 3}, {"k": "ppnr", "w": 4, "max": 2},
            {"k": "bs", "L": 2, "r": [1, 2]}, {"k": "bs", "L": 1, "r": [9, 25]}, {"k": "thr"}]
    for _ in range(chk.pick(4, 30)):
        dets.append(gen_det(rng, rng.choice(["interleaved", "bs"])))
    out = []
    for d in dets:
        for n in rng.sample([2, 3, 4], chk.pick(2, 3)):
            one = [[[n], [1, 1]]]
            two = [[[n, 0], [1, 2]], [[1, n - 1], [1, 2]]]
            pool = [["detect", n], ["sim", one, n], ["sim", one, 2], ["sim", one, None], ["sim", one, 0],
                    ["sim", two, n], ["sim", two, None], ["proc", n, n], ["proc", n, 1], ["proc", n, 0], ["detect", n],
                    ["detect", n - 1], ["sim", [[[n], [1, 2]], [[n - 1], [1, 2]]], n]]
            # a filtered one-mode simulation first, then everything else in random order, law re-read at the end
            steps = [["detect", n], rng.choice([["sim", one, n], ["proc", n, n]])] + \
                    [copy.deepcopy(rng.choice(pool)) for _ in range(rng.randint(3, 6))] + [["sim", one, None], ["detect", n]]
            if rng.random() < 0.3:
                steps = steps[1:]     # the very first use of the instance is the filtered simulation
            out.append({"det": d, "steps": steps})
    return out


# ------------------------------------------------------------------------------------------------
# G. Processor.probs() with detectors
# ------------------------------------------------------------------------------------------------
def build_circuit(spec):
    import perceval as pcvl
    from perceval.components import BS, PS
    c = pcvl.Circuit(spec["m"])
    for op in spec["ops"]:
        if op[0] == "bs":
            c.add(op[1], BS(theta=op[2]))
        else:
            c.add(op[1], PS(op[2]))
    return c


def run_proc_case(chk, case):
    import perceval as pcvl
    from perceval.utils import BasicState

    def probs(dets, f):
        p = pcvl.Processor("SLOS", build_circuit(case["circ"]))
        for i, d in enumerate(dets):
            if d is not None:
                p.add(i, build_det(d))
        p.min_detected_photons_filter(f)
        p.with_input(BasicState(case["input"]))
        return p.probs(precision=0)

    m = case["circ"]["m"]
    base = probs([None] * m, 0)
    out = probs(case["dets"], case["minph"])
    base_dist = [(tuple(s), Fraction(*float(p).as_integer_ratio())) for s, p in base["results"].items()]
    got = {tuple(s): float(p) for s, p in out["results"].items()}
    perf = float(out["physical_perf"])
    rep = chk.lean.ask({"op": "sim", "m": m, "dist": [[list(s), core.rat(p)] for s, p in base_dist],
                        "dets": [lean_det(d) for d in case["dets"]], "minph": case["minph"], "minp": MINP})
    kinds = tuple(det_label(d) for d in case["dets"])
    chk.branch("processor-glue")
    chk.case(("proc", kinds, tuple(case["input"]), case["minph"], len(case["circ"]["ops"])),
             nontrivial=spec_detection_type(case["dets"]) != "PNR",
             sample={"processor": case["circ"], "input": case["input"], "dets": kinds, "min_photons": case["minph"]})
    s_dist, s_perf = spec_simulate(base_dist, case["dets"], case["minph"])
    why = cmp_dist(got, s_dist)
    if why is None and not core.close(perf, float(s_perf), TOL):
        why = f"physical_perf {perf!r}, expected {float(s_perf)!r}"
    if why is not None:
        return ("violation", "processor-detectors-law",
                f"Processor.probs() with detectors {kinds} is not the detector law applied to its detector-free output: {why}",
                case)
    if "err" in rep:
        return ("broken", "model-vs-code", f"model rejects processor case: {rep}", case)
    why = cmp_dist(got, {tuple(s): Fraction(p) for s, p in rep["dist"]})
    if why is None and not core.close(perf, float(Fraction(rep["perf"])), TOL):
        why = f"physical_perf {perf!r}, model {rep['perf']}"
    if why is not None:
        return ("broken", "model-vs-code", f"Processor.probs() with detectors vs model: {why}", case)
    return None


def proc_cases(chk):
    rng = chk.rng
    out = []
    for _ in range(chk.pick(25, 250)):
        m = rng.randint(2, 4)
        ops = []
        for _ in range(rng.randint(2, 6)):
            if rng.random() < 0.7:
                ops.append(["bs", rng.randrange(m - 1), round(rng.uniform(0.3, 2.8), 3)])
            else:
                ops.append(["ps", rng.randrange(m), round(rng.uniform(0.1, 3.0), 3)])
        n = rng.randint(2, 4 if m <= 3 else 3)
        inp = [0] * m
        for _ in range(n):
            inp[rng.randrange(m)] += 1
        kinds = [rng.choice(KINDS) for _ in range(m)]
        if all(k in ("none", "pnr") for k in kinds):
            kinds[rng.randrange(m)] = rng.choice(["thr", "interleaved", "bs"])
        out.append({"circ": {"m": m, "ops": ops}, "input": inp, "dets": [gen_det(rng, k) for k in kinds],
                    "minph": rng.randint(0, n)})
    return out


# ------------------------------------------------------------------------------------------------
# G2. Processor.probs() / Simulator.probs_svd with detectors AND heralds / post-selection:
#     heralds and post-selection are read on the detector READINGS
# ------------------------------------------------------------------------------------------------
PS_OPS = {"==": lambda a, b: a == b, "<": lambda a, b: a < b, ">": lambda a, b: a > b}


def ps_string(ps):
    return " & ".join(f"[{','.join(map(str, modes))}] {op} {v}" for modes, op, v in ps)


def ps_ok(ps, t):
    return all(PS_OPS[op](sum(t[i] for i in modes), v) for modes, op, v in (ps or []))


def det_max(d):
    """max_detections of a detector spec (None = exact photon counting)"""
    if d is None or d["k"] == "pnr":
        return None
    if d["k"] == "thr":
        return 1
    if d["k"] == "ppnr":
        return d["w"] if d.get("max") is None else min(d["max"], d["w"])
    return 2 ** d["L"]


def spec_heralded(base_dist, dets, minph, heralds, ps):
    """The property evaluated exactly: every mode of the theoretical distribution is transformed by its detector
    kernel (photon filter on the total reading, heralded modes included), THEN the heralds and the post-selection are
    read on the readings.  -> (result without the heralded modes, physical perf, probability of acceptance,
    retained mass under the filter)"""
    F = minph + sum(v for _, v in heralds)
    s_dist, s_perf = spec_simulate(base_dist, dets or [], F)
    hm = sorted(k for k, _ in heralds)
    acc, res = Fraction(0), {}
    for t, q in s_dist.items():
        if all(t[k] == v for k, v in heralds) and ps_ok(ps, t):
            acc += q
            key = tuple(x for i, x in enumerate(t) if i not in hm)
            res[key] = res.get(key, Fraction(0)) + q
    if acc:
        res = {k: v / acc for k, v in res.items()}
    return res, s_perf, acc, sum(s_dist.values())


def theoretical_dist(circ, full_input):
    """detector-free, herald-free output distribution of the circuit (exact rationals of the floats)"""
    import perceval as pcvl
    from perceval.utils import BasicState
    p = pcvl.Processor("SLOS", build_circuit(circ))
    p.min_detected_photons_filter(0)
    p.with_input(BasicState(full_input))
    base = p.probs(precision=0)["results"]
    return [(tuple(s), Fraction(*float(q).as_integer_ratio())) for s, q in base.items()]


def herald_branches(chk, base_dist, dets, heralds, prefix):
    """which herald shapes this case exercises"""
    dets = dets or [None] * len(base_dist[0][0])
    for k, v in heralds:
        mx = det_max(dets[k])
        above = sum(q for t, q in base_dist if t[k] > v)
        if mx is None:
            chk.branch(prefix + "-herald-on-pnr")
        elif v > mx:
            chk.branch(prefix + "-herald-incompatible")
        elif mx == 1:
            chk.branch(prefix + "-herald-on-threshold")
        else:
            chk.branch(prefix + "-herald-on-ppnr")
            if v >= 1 and v < mx and above > Fraction(1, 1000):
                # a pseudo-PNR reading below the maximum that several photon counts produce
                chk.branch(prefix + "-herald-ppnr-bunched")
        if mx is not None and v == mx and v >= 1 and above > Fraction(1, 1000):
            # the expected reading is the detector's highest one: "v photons or more"
            chk.branch(prefix + "-herald-saturated")
        if v == 0 and mx is not None and above > Fraction(1, 1000):
            chk.branch(prefix + "-herald-zero")
    if heralds and spec_detection_type(dets) == "PNR":
        chk.branch(prefix + "-mask-path")


def judge_heralded(chk, what, got, perf, logical, base_dist, dets, minph, heralds, ps, m, case):
    """compare one probs() / probs_svd() result with the oracle, then with the model"""
    label = f"{what} with detectors {[det_label(d) for d in dets] if dets is not None else None}, heralds " \
            f"{dict(map(tuple, heralds))}" + (f", post-selection '{ps_string(ps)}'" if ps else "") + f", filter {minph}"
    s_res, s_perf, s_acc, s_mass = spec_heralded(base_dist, dets, minph, heralds, ps)
    incompatible = any(det_max(d) is not None and v > det_max(d)
                       for (k, v) in heralds for d in [(dets or [None] * m)[k]])
    why = cmp_dist(got, s_res)
    if why is None and not incompatible and not core.close(perf, float(s_perf), TOL):
        # (incompatible heralds make probs_svd return early with physical_perf = 1: as coded)
        why = f"physical_perf {perf!r}, expected {float(s_perf)!r}"
    if why is None and s_mass > 0 and not core.close(logical, float(s_acc), TOL):
        why = f"logical_perf (probability of the heralded readings) {logical!r}, expected {float(s_acc)!r}"
    if why is None and got and not core.close(sum(got.values()), 1.0, TOL):
        why = f"result mass {sum(got.values())!r}"
    if why is not None:
        return ("violation", "heralds-read-before-detectors" if heralds else "processor-detectors-law",
                f"{label}: not the detector kernels applied mode-wise to the theoretical distribution followed by the "
                f"selection on the readings: {why}", case)
    F = minph + sum(v for _, v in heralds)
    rep = chk.lean.ask({"op": "tail", "m": m, "dist": [[list(s), core.rat(p)] for s, p in base_dist],
                        "dets": None if dets is None else [lean_det(d) for d in dets], "minph": F, "minp": MINP,
                        "heralds": [list(h) for h in heralds]})
    if "err" in rep:
        return ("broken", "model-vs-code", f"{label}: model rejects the case: {rep}", case)
    if rep["mask"]:
        chk.branch("model-mask-on")
    else:
        chk.branch("model-mask-off")
    hm = sorted(k for k, _ in heralds)
    mres, macc = {}, Fraction(0)
    for t, q in rep["dist"]:
        t, q = tuple(t), Fraction(q)
        if ps_ok(ps, t):
            key = tuple(x for i, x in enumerate(t) if i not in hm)
            mres[key] = mres.get(key, Fraction(0)) + q
            macc += q
    if macc:
        mres = {k: v / macc for k, v in mres.items()}
    if not rep["compatible"]:
        mres = {}
    why = cmp_dist(got, mres)
    if why is None and rep["compatible"] and not core.close(perf, float(Fraction(rep["perf"])), TOL):
        why = f"physical_perf {perf!r}, model {rep['perf']}"
    if why is not None:
        return ("broken", "model-vs-code", f"{label} vs model: {why}", case)
    # the WHOLE tail inside the model (probsSvd: normalize, simulate_detectors, post_select_distribution with the
    # removal of the heralded modes, logical_perf) — nothing applied by the harness
    rep2 = chk.lean.ask({"op": "probs", "m": m, "dist": [[list(s), core.rat(p)] for s, p in base_dist],
                         "dets": None if dets is None else [lean_det(d) for d in dets], "minph": F, "minp": MINP,
                         "heralds": [list(h) for h in heralds], "ps": [list(c) for c in (ps or [])], "keep": False})
    if "err" in rep2:
        return ("broken", "model-vs-code", f"{label}: model (probs) rejects the case: {rep2}", case)
    full = {}
    for t, q in rep2["dist"]:
        if tuple(t) in full:
            return ("broken", "model-internal", f"{label}: model result holds the state {t} twice", case)
        full[tuple(t)] = Fraction(q)
    why = cmp_dist(got, full)
    if why is None and not core.close(perf, float(Fraction(rep2["perf"])), TOL):
        why = f"physical_perf {perf!r}, model {rep2['perf']}"
    if why is None and not core.close(logical, float(Fraction(rep2["logical"])), TOL):
        why = f"logical_perf {logical!r}, model {rep2['logical']}"
    if why is not None:
        return ("broken", "model-vs-code", f"{label} vs model of the whole probs_svd tail: {why}", case)
    chk.branch("model-full-tail")
    if ps:
        chk.branch("model-full-tail-postselect")
    if heralds and full:
        chk.branch("model-full-tail-heralds-removed")
    if not rep["compatible"]:
        chk.branch("model-full-tail-incompatible")
    # the proved identity physical_perf * logical_perf * result = conditioned law, on the REAL outputs (exact oracle)
    if rep["compatible"] and s_mass > 0:
        for key, q in s_res.items():
            lhs = perf * logical * got.get(key, 0.0)
            if not core.close(lhs, float(s_acc * q * s_perf), 1e-8):
                return ("violation", "heralds-read-before-detectors" if heralds else "processor-detectors-law",
                        f"{label}: physical_perf*logical_perf*results[{key}] = {lhs!r}, conditioned law "
                        f"{float(s_acc * q * s_perf)!r}", case)
    return None


def run_hproc_case(chk, case):
    """`Processor.probs()` with heralds, detectors (also on the heralded modes), photon filter, post-selection"""
    import perceval as pcvl
    from perceval.utils import BasicState, PostSelect
    m = case["circ"]["m"]
    heralds = [tuple(h) for h in case["heralds"]]
    hmodes = {k for k, _ in heralds}
    ps = case.get("ps")
    base_dist = theoretical_dist(case["circ"], case["input"])
    kinds = tuple(det_label(d) for d in case["dets"])
    chk.branch("processor-heralds")
    herald_branches(chk, base_dist, case["dets"], heralds, "proc")
    if ps:
        chk.branch("proc-postselect")
    chk.case(("hproc", kinds, tuple(case["input"]), tuple(heralds), case["minph"], ps_string(ps or [])),
             nontrivial=any(det_max(case["dets"][k]) not in (None,) for k in hmodes),
             sample={"processor": case["circ"], "input": case["input"], "dets": kinds, "heralds": case["heralds"],
                     "min_photons": case["minph"], "postselect": ps_string(ps or [])})
    p = pcvl.Processor("SLOS", build_circuit(case["circ"]))
    for k, v in heralds:
        p.add_herald(k, v)
    for i, d in enumerate(case["dets"]):
        if d is not None:
            p.add(i, build_det(d))
    if ps:
        p.set_postselection(PostSelect(ps_string(ps)))
    p.min_detected_photons_filter(case["minph"])
    p.with_input(BasicState([x for i, x in enumerate(case["input"]) if i not in hmodes]))
    outs = []
    try:
        for _ in range(case.get("repeat", 1)):
            outs.append(p.probs(precision=0))
    except Exception as e:
        return ("violation", "processor-heralds-raises",
                f"Processor.probs() with detectors {list(kinds)} and heralds {dict(heralds)} raised "
                f"{type(e).__name__}: {e}", case)
    if len(outs) > 1:
        chk.branch("proc-requery")
    for out in outs:
        got = {tuple(s): float(q) for s, q in out["results"].items()}
        r = judge_heralded(chk, "Processor.probs()", got, float(out["physical_perf"]), float(out["logical_perf"]),
                           base_dist, case["dets"], case["minph"], heralds, ps, m, case)
        if r is not None:
            return r
    return None


def run_simsession_case(chk, case):
    """ONE `Simulator` (what Processor.probs() drives), heralds possibly expecting more than one photon, queried
    with a sequence of detector lists: all-PNR lists (heralds mask of the backend in use) interleaved with
    imperfect ones (mask must be off) — every answer against the oracle"""
    from perceval.simulators import Simulator
    from perceval.backends import SLOSBackend
    from perceval.utils import BasicState, SVDistribution, PostSelect
    m = case["circ"]["m"]
    heralds = [tuple(h) for h in case["heralds"]]
    ps = case.get("ps")
    base_dist = theoretical_dist(case["circ"], case["input"])
    sim = Simulator(SLOSBackend())
    sim.set_circuit(build_circuit(case["circ"]))
    sim.set_selection(min_detected_photons_filter=case["minph"], heralds=dict(heralds),
                      postselect=PostSelect(ps_string(ps)) if ps else None)
    sim.keep_heralds(False)
    sim.set_precision(0)
    svd = SVDistribution(BasicState(case["input"]))
    chk.branch("simulator-session")
    prev_pnr = None
    for i, dets in enumerate(case["seq"]):
        kinds = None if dets is None else tuple(det_label(d) for d in dets)
        is_pnr = spec_detection_type(dets or []) == "PNR"
        if prev_pnr is True and not is_pnr:
            chk.branch("session-mask-then-imperfect")
        if prev_pnr is False and is_pnr:
            chk.branch("session-imperfect-then-mask")
        prev_pnr = is_pnr
        herald_branches(chk, base_dist, dets, heralds, "sim")
        chk.case(("simsession", kinds, tuple(case["input"]), tuple(heralds), case["minph"], i),
                 nontrivial=not is_pnr,
                 sample={"circuit": case["circ"], "input": case["input"], "heralds": case["heralds"], "dets": kinds})
        objs = None if dets is None else [POOL.get(d) if case.get("pooled") else build_det(d) for d in dets]
        sub = dict(case, seq=case["seq"][:i + 1])
        try:
            out = sim.probs_svd(svd, objs)
        except Exception as e:
            return ("violation", "probs-svd-heralds-raises",
                    f"Simulator.probs_svd with detectors {kinds} and heralds {dict(heralds)} raised "
                    f"{type(e).__name__}: {e}", sub)
        got = {tuple(s): float(q) for s, q in out["results"].items()}
        r = judge_heralded(chk, f"Simulator.probs_svd (query {i + 1} on one simulator)", got, float(out["physical_perf"]),
                           float(out["logical_perf"]), base_dist, dets, case["minph"], heralds, ps, m, sub)
        if r is not None:
            return r
    return None


def gen_ps(rng, free_modes, n):
    ps = []
    for _ in range(rng.randint(1, 2)):
        modes = sorted(rng.sample(free_modes, rng.randint(1, min(2, len(free_modes)))))
        ps.append([modes, rng.choice(["==", "<", ">"]), rng.randint(0, max(1, n - 1))])
    return ps


def gen_herald_setup(rng, hmax):
    """circuit + full input + heralds (values <= hmax); at least two photons can meet in a heralded mode"""
    m = rng.randint(2, 4)
    ops = []
    for _ in range(rng.randint(3, 6)):
        if rng.random() < 0.8:
            ops.append(["bs", rng.randrange(m - 1), round(rng.uniform(0.5, 2.6), 3)])
        else:
            ops.append(["ps", rng.randrange(m), round(rng.uniform(0.1, 3.0), 3)])
    # every neighbouring pair coupled at least once, so that photons can bunch anywhere
    for i in range(m - 1):
        if not any(o[0] == "bs" and o[1] == i for o in ops):
            ops.append(["bs", i, round(rng.uniform(0.5, 2.6), 3)])
    n = rng.randint(2, 4 if m <= 3 else 3)
    hmodes = sorted(rng.sample(range(m), rng.randint(1, min(2, m - 1))))
    heralds, left = [], n
    for k in hmodes:
        v = min(left, rng.choice([1, 1, 1, 0] + list(range(0, hmax + 1))))
        heralds.append([k, v])
        left -= v
    free = [i for i in range(m) if i not in hmodes]
    inp = [0] * m
    for k, v in heralds:
        inp[k] = v
    for _ in range(left):
        inp[rng.choice(free)] += 1
    return {"m": m, "ops": ops}, inp, heralds, free, n


def gen_herald_dets(rng, m, heralds, style):
    if style == "pnr":
        return [rng.choice([None, {"k": "pnr"}]) for _ in range(m)]
    if style == "thr":
        return [{"k": "thr"}] * m
    kinds = [rng.choice(KINDS) for _ in range(m)]
    for k, _ in heralds:
        kinds[k] = rng.choice(["interleaved", "interleaved", "bs", "bs", "thr", "none", "pnr"])
    dets = [gen_det(rng, k) for k in kinds]
    for k, v in heralds:
        d = dets[k]
        if d is not None and d["k"] == "ppnr":
            r = rng.random()
            if r < 0.6:
                # a maximum strictly above the expected reading: the reading is NOT saturated
                d["w"] = max(d["w"], v + 2)
                d["max"] = rng.choice([None] + list(range(v + 1, d["w"] + 1)))
            elif r < 0.85 and v >= 1:
                # the expected reading IS the maximum: "v photons or more"
                d["w"] = max(d["w"], v + 1)
                d["max"] = v
    return dets


def hproc_cases(chk):
    rng = chk.rng
    out = []
    for i in range(chk.pick(40, 300)):
        circ, inp, heralds, free, n = gen_herald_setup(rng, 1)
        style = "mixed" if i % 6 else rng.choice(["pnr", "thr"])
        dets = gen_herald_dets(rng, circ["m"], heralds, style)
        case = {"circ": circ, "input": inp, "heralds": heralds, "dets": dets,
                "minph": rng.randint(0, n - sum(v for _, v in heralds))}
        if rng.random() < 0.35:
            case["ps"] = gen_ps(rng, free, n)
        if rng.random() < 0.25:
            case["repeat"] = 2
        out.append(case)
    return out


def simsession_cases(chk):
    rng = chk.rng
    out = []
    for i in range(chk.pick(20, 150)):
        circ, inp, heralds, free, n = gen_herald_setup(rng, 2)
        m = circ["m"]
        seq = []
        for j in range(rng.randint(3, 5)):
            style = ["pnr", "mixed", "mixed", "pnr", "thr"][(j + i) % 5] if rng.random() < 0.8 else rng.choice(["pnr", "mixed"])
            seq.append(None if style == "pnr" and rng.random() < 0.3 else gen_herald_dets(rng, m, heralds, style))
        case = {"circ": circ, "input": inp, "heralds": heralds, "seq": seq,
                "minph": rng.randint(0, n - sum(v for _, v in heralds)), "pooled": rng.random() < 0.5}
        if rng.random() < 0.25:
            case["ps"] = gen_ps(rng, free, n)
        out.append(case)
    return out



def run_hprocsample_case(chk, case):
    """`Processor.samples()` with heralds and detectors: the sampling path must also read the heralds / post-selection on
    the detector readings.  Every returned sample lies in the support of the oracle's conditional law; the drawn
    frequencies are compared with it by a 6-sigma binomial band (a statistical TEST)."""
    import perceval as pcvl
    from perceval.utils import BasicState, PostSelect
    heralds = [tuple(h) for h in case["heralds"]]
    hmodes = {k for k, _ in heralds}
    ps = case.get("ps")
    base_dist = [(t, q) for t, q in theoretical_dist(case["circ"], case["input"]) if q > Fraction(1, 10 ** 12)]
    spec, s_perf, s_acc, _ = spec_heralded(base_dist, case["dets"], case["minph"], heralds, ps)
    kinds = tuple(det_label(d) for d in case["dets"])
    if float(s_acc * s_perf) < 0.03:
        chk.branch("hprocsample-skipped-rare")
        return None
    chk.branch("processor-samples-heralds")
    herald_branches(chk, base_dist, case["dets"], heralds, "smp")
    chk.case(("hprocsample", kinds, tuple(case["input"]), tuple(heralds), case["minph"]),
             nontrivial=any(det_max(case["dets"][k]) is not None for k in hmodes),
             sample={"processor": case["circ"], "input": case["input"], "dets": kinds, "heralds": case["heralds"],
                     "samples": case["count"]})
    pcvl.random_seed(case["seed"])
    p = pcvl.Processor("CliffordClifford2017", build_circuit(case["circ"]))
    for k, v in heralds:
        p.add_herald(k, v)
    for i, d in enumerate(case["dets"]):
        if d is not None:
            p.add(i, build_det(d))
    if ps:
        p.set_postselection(PostSelect(ps_string(ps)))
    p.min_detected_photons_filter(case["minph"])
    p.with_input(BasicState([x for i, x in enumerate(case["input"]) if i not in hmodes]))
    try:
        outs = [tuple(o) for o in p.samples(case["count"], 400 * case["count"])["results"]]
    except Exception as e:
        return ("violation", "processor-samples-raises",
                f"Processor.samples() with detectors {list(kinds)} and heralds {dict(heralds)} raised "
                f"{type(e).__name__}: {e}", case)
    support = {t for t, q in spec.items() if q > 0}
    for o in outs:
        if o not in support:
            return ("violation", "processor-samples-outside-support",
                    f"Processor.samples() with detectors {list(kinds)}, heralds {dict(heralds)} returned {list(o)}, impossible "
                    f"under the detector law applied to the theoretical distribution followed by the selection on the "
                    f"readings", case)
    n = len(outs)
    if n >= 100:
        chk.branch("hprocsample-frequency-test")
        for t, q in spec.items():
            q = float(q)
            f = outs.count(t) / n
            if abs(f - q) > 6 * (q * (1 - q) / n) ** 0.5 + 4.0 / n:
                return ("violation", "processor-samples-heralds-frequencies",
                        f"Processor.samples() with detectors {list(kinds)}, heralds {dict(heralds)}: {list(t)} drawn with "
                        f"frequency {f:.3f} over {n} samples, law {q:.3f} (heralds/post-selection must be read on the "
                        f"detector readings; 6-sigma statistical test)", case)
    return None


def hprocsample_cases(chk):
    rng = chk.rng
    out = []
    for c in hproc_cases(chk)[:chk.pick(40, 200)]:
        c = dict(c, seed=rng.randrange(1 << 30), count=rng.choice([300, 400]))
        c.pop("repeat", None)
        out.append(c)
    return out


def shrink_heralded(chk, kind, case, sig):
    """greedy simplification of a failing hproc / simsession case (same signature must persist)"""
    def fails(c):
        try:
            r = dispatch(chk, kind, c)
        except Exception:
            return False
        return r is not None and r[1] == sig
    cur = copy.deepcopy(case)
    budget = 40
    changed = True
    while changed and budget > 0:
        changed = False
        cands = []
        if cur.get("ps"):
            cands.append(dict(cur, ps=None))
        if cur.get("repeat", 1) > 1:
            cands.append(dict(cur, repeat=1))
        if cur.get("minph"):
            cands.append(dict(cur, minph=0))
        if kind == "simsession":
            for i in range(len(cur["seq"])):
                if len(cur["seq"]) > 1:
                    cands.append(dict(cur, seq=cur["seq"][:i] + cur["seq"][i + 1:]))
            lists = [("seq", j) for j in range(len(cur["seq"]))]
        else:
            lists = [("dets", None)]
        hm = {k for k, _ in cur["heralds"]}
        for name, j in lists:
            dets = cur[name] if j is None else cur[name][j]
            if dets is None:
                continue
            for i, d in enumerate(dets):
                if d is not None and i not in hm:
                    nd = copy.deepcopy(dets)
                    nd[i] = None
                    c = copy.deepcopy(cur)
                    if j is None:
                        c[name] = nd
                    else:
                        c[name][j] = nd
                    cands.append(c)
        for idx in range(len(cur["circ"]["ops"])):
            c = copy.deepcopy(cur)
            del c["circ"]["ops"][idx]
            cands.append(c)
        for c in cands:
            budget -= 1
            if budget <= 0:
                break
            if fails(c):
                cur, changed = copy.deepcopy(c), True
                break
    return cur



# ------------------------------------------------------------------------------------------------
# H. simulate_detectors_sample / Processor.samples() with detectors
# ------------------------------------------------------------------------------------------------
def run_sample_case(chk, case):
    """one output sample through `simulate_detectors_sample`: every draw must lie in the support of the
    mode-wise kernel product of that sample (exact oracle + the model's `sim` on the point distribution);
    deterministic lists must give exactly the kernel image; drawn frequencies are additionally compared with
    the law by a 6-sigma binomial band (a statistical TEST, not a proof)."""
    import perceval as pcvl
    from perceval.simulators._simulate_detectors import simulate_detectors_sample
    from perceval.components.detector import get_detection_type
    from perceval.utils import BasicState
    s, dets = case["state"], case["dets"]
    kinds = tuple(det_label(d) for d in dets)
    objs = [POOL.get(d) for d in dets] if case.get("pooled") else [build_det(d) for d in dets]
    spec, _ = spec_simulate([(tuple(s), Fraction(1))], dets, None)
    support = {t for t, q in spec.items() if q > 0}
    rep = chk.lean.ask({"op": "sample", "state": list(s), "dets": [lean_det(d) for d in dets], "minp": MINP,
                        "fixed": True})
    ty = spec_detection_type(dets)
    chk.branch({"PNR": "sample-pnr", "Threshold": "sample-threshold"}.get(ty, "sample-general"))
    if ty not in ("PNR", "Threshold") and any(d is None for d in dets):
        chk.branch("sample-general-with-none")
    chk.case(("sample", kinds, tuple(s)), nontrivial=ty not in ("PNR",) and max(s, default=0) >= 2,
             sample={"sample": list(s), "dets": kinds})
    pcvl.random_seed(case["seed"])
    outs = []
    try:
        for _ in range(case["reps"]):
            if case.get("pass_type"):
                o = simulate_detectors_sample(BasicState(s), objs, get_detection_type(objs))
            else:
                o = simulate_detectors_sample(BasicState(s), objs)
            outs.append(tuple(o))
    except Exception as e:
        sig = "sample-none-detector" if any(d is None for d in dets) else "sample-raises"
        return ("violation", sig,
                f"simulate_detectors_sample({list(s)}, {list(kinds)}) raised {type(e).__name__}: {e} "
                f"(an unset detector is documented as PNR; simulate_detectors accepts the same list)", case)
    for o in outs:
        if o not in support:
            return ("violation", "sample-outside-support",
                    f"simulate_detectors_sample({list(s)}, {list(kinds)}) returned {list(o)}, which has probability 0 "
                    f"under the mode-wise detector kernels (support {sorted(support)})", case)
    if "err" in rep:
        return ("broken", "model-vs-code", f"model rejects the sample case: {rep}", case)
    m_support = {tuple(t) for t, q in rep["dist"] if Fraction(q) > 0}
    big = {t for t, q in spec.items() if q > KEY_SLACK}
    if not (big <= m_support <= support):
        return ("broken", "model-vs-code", f"support of the model {sorted(m_support)} vs oracle {sorted(support)}", case)
    n = len(outs)
    if n >= 100:
        chk.branch("sample-frequency-test")
        for t, q in spec.items():
            q = float(q)
            f = outs.count(t) / n
            if abs(f - q) > 6 * (q * (1 - q) / n) ** 0.5 + 4.0 / n:
                return ("violation", "sample-frequencies",
                        f"simulate_detectors_sample({list(s)}, {list(kinds)}): {list(t)} drawn with frequency {f:.3f} over "
                        f"{n} draws, law {q:.3f} (6-sigma statistical test)", case)
    return None


def sample_cases(chk):
    rng = chk.rng
    out = []
    for i in range(chk.pick(60, 400)):
        m = rng.randint(1, 4)
        kinds = [rng.choice(KINDS) for _ in range(m)]
        r = rng.random()
        if r < 0.12:
            kinds = [rng.choice(["thr"])] * m
        elif r < 0.2:
            kinds = [rng.choice(["pnr", "none"]) for _ in range(m)]
        elif r < 0.45 and m >= 2:
            kinds[rng.randrange(m)] = "none"
            kinds[(kinds.index("none") + 1) % m] = rng.choice(["thr", "interleaved", "bs"])
        s = [rng.choice([0, 1, 2, 2, 3, 4]) for _ in range(m)]
        out.append({"state": s, "dets": [gen_det(rng, k) for k in kinds], "seed": rng.randrange(1 << 30),
                    "reps": 200 if i % 4 == 0 else 8, "pass_type": rng.random() < 0.5, "pooled": rng.random() < 0.5})
    return out


def run_procsample_case(chk, case):
    """`Processor.samples()` (public entry point) with detectors on some modes: every sample lies in the support of
    the detector law applied to the same processor's detector-free distribution."""
    import perceval as pcvl
    from perceval.utils import BasicState
    m = case["circ"]["m"]
    p0 = pcvl.Processor("SLOS", build_circuit(case["circ"]))
    p0.min_detected_photons_filter(0)
    p0.with_input(BasicState(case["input"]))
    base = p0.probs(precision=0)["results"]
    base_dist = [(tuple(s), Fraction(*float(q).as_integer_ratio())) for s, q in base.items() if q > 1e-12]
    spec, _ = spec_simulate(base_dist, case["dets"], 0)
    support = {t for t, q in spec.items() if q > 0}
    kinds = tuple(det_label(d) for d in case["dets"])
    chk.branch("processor-samples")
    chk.case(("procsample", kinds, tuple(case["input"])), nontrivial=spec_detection_type(case["dets"]) != "PNR",
             sample={"processor": case["circ"], "input": case["input"], "dets": kinds, "samples": case["count"]})
    pcvl.random_seed(case["seed"])
    p = pcvl.Processor("CliffordClifford2017", build_circuit(case["circ"]))
    for i, d in enumerate(case["dets"]):
        if d is not None:
            p.add(i, build_det(d))
    p.min_detected_photons_filter(0)
    p.with_input(BasicState(case["input"]))
    try:
        outs = [tuple(o) for o in p.samples(case["count"])["results"]]
    except Exception as e:
        sig = "sample-none-detector" if any(d is None for d in case["dets"]) and isinstance(e, AttributeError) \
            else "processor-samples-raises"
        return ("violation", sig,
                f"Processor.samples() with detectors {list(kinds)} raised {type(e).__name__}: {e}", case)
    for o in outs:
        if o not in support:
            return ("violation", "processor-samples-outside-support",
                    f"Processor.samples() with detectors {list(kinds)} returned {list(o)}, impossible under the detector "
                    f"law applied to the detector-free distribution", case)
    return None


def procsample_cases(chk):
    rng = chk.rng
    out = []
    for c in proc_cases(chk)[:chk.pick(10, 60)]:
        c = dict(c, seed=rng.randrange(1 << 30), count=rng.randint(5, 30))
        c.pop("minph", None)
        out.append(c)
    return out

# ------------------------------------------------------------------------------------------------
# I. prob_threshold > 0 and min_p > 0: simulate_detectors(dist, dets, min_photons, prob_threshold) and
#    simulate_detectors_sample with global_params['min_p'] changed (model: Model/C08Thr.lean, op `sim` with `thr`;
#    theorems simulate_detectors_threshold_bound / _normalised, simulate_detectors_phys_minp / _normalised_minp,
#    sample_law_is_kernel_product_minp, sample_restarts_after_empty_kernel)
# ------------------------------------------------------------------------------------------------
SHIPPED_MINP = Fraction(*(1e-16).as_integer_ratio())


class MinP:
    """`global_params['min_p'] = value` for the duration of the block (None: leave the shipped value)"""

    def __init__(self, value):
        self.value = value

    def __enter__(self):
        from perceval.utils import global_params
        self.gp, self.old = global_params, global_params["min_p"]
        if self.value is not None:
            global_params["min_p"] = self.value
        return self

    def __exit__(self, *exc):
        self.gp["min_p"] = self.old
        return False


def fr(q):
    """[num, den] -> the exact rational of the float the implementation receives"""
    return Fraction(*float(Fraction(q[0], q[1])).as_integer_ratio())


class Margin:
    """smallest relative distance |a - b| / max(|a|, |b|) over the order comparisons made by the as-is oracle
    (comparisons against an exact 0 are not counted: they are decided the same way in floats)"""

    def __init__(self):
        self.m = 1.0

    def cmp(self, a, b):
        if b != 0 and a != 0:
            self.m = min(self.m, float(abs(a - b) / max(abs(a), abs(b))))


def asis_kernel(d, n, minp, mg):
    """the per-mode dictionary exactly as the code builds it at min_p: [(reading, Fraction)]"""
    if d is None or d["k"] == "pnr":
        return [(n, Fraction(1))]
    if d["k"] == "thr":
        return [(min(n, 1), Fraction(1))]
    if d["k"] == "bs":
        if n < 2:
            return [(n, Fraction(1))]
        L, r = d["L"], r_exact(d)
        out = {}
        for t, q in multinomial_law([leaf_weight(L, k, r) for k in range(2 ** L)], n).items():
            mg.cmp(q, minp)
            if q > minp:                      # SLOSBackend.prob_distribution(): bsd.add(output_state, probability)
                c = sum(1 for x in t if x)
                out[c] = out.get(c, Fraction(0)) + q
        return sorted(out.items())
    w = d["w"]
    if n < 2:
        return [(n, Fraction(1))]
    if w == 1:
        return [(1, Fraction(1))]
    mx = w if d.get("max") is None else min(d["max"], w)
    cap = min(mx, n)
    out, rem = [], Fraction(1)
    for i in range(1, cap):
        p_i = closed(w, i, n)
        rem -= p_i
        mg.cmp(p_i, minp)
        if p_i > minp:
            out.append((i, p_i))
    mg.cmp(rem, minp)
    if rem > minp:
        out.append((cap, rem))
    return out


def asis_tensor(kernels, T, mg):
    """BSDistribution.list_tensor_product(kernels, prob_threshold=T) on one-mode factors"""
    if not kernels:
        return {}
    if len(kernels) == 1:
        return {(k,): v for k, v in kernels[0]}
    if any(not k for k in kernels):
        return {}
    trimmed = []
    for k in kernels:
        kk = []
        for r, v in k:
            mg.cmp(v, T)
            if v > T:
                kk.append((r, v))
        trimmed.append(kk)
    res = {}

    def inner(i, cur, q):
        if i == len(trimmed):
            res[cur] = res.get(cur, Fraction(0)) + q
            return
        for r, v in trimmed[i]:
            x = q * v
            mg.cmp(x, T)
            if x < T:
                continue
            inner(i + 1, cur + (r,), x)
    inner(0, (), Fraction(1))
    return res


def asis_simulate(dist, dets, minph, T, minp):
    """simulate_detectors as coded, in exact arithmetic -> (un-normalised result, phys_perf, margin, flags)"""
    mg = Margin()
    flags = set()
    ty = spec_detection_type(dets)
    if not dist or ty == "PNR":
        return dict(dist), Fraction(1), mg.m, flags
    raw, perf = {}, Fraction(1)
    if ty == "Threshold":
        for s, p in dist:
            t = tuple(min(x, 1) for x in s)
            if minph is not None and sum(t) < minph:
                perf -= p
            else:
                raw[t] = raw.get(t, Fraction(0)) + p
        return raw, perf, mg.m, flags
    for s, p in dist:
        kernels = [asis_kernel(d, n, minp, mg) for d, n in zip(dets, s)]
        full = 1
        for d, n in zip(dets, s):
            full *= len(spec_detector(d, n))
        teff = max(T, T / (10 * p)) if p > 0 else T
        sd = asis_tensor(kernels, teff, mg)
        sd0 = asis_tensor(kernels, Fraction(0), Margin())
        if len(sd) < len(sd0):
            flags.add("thr-dropped")
        if len(sd0) < full:
            flags.add("minp-kernel-dropped")
        for t, q in sd.items():
            if minph is not None and sum(t) < minph:
                perf -= p * q
            else:
                mg.cmp(p * q, minp)
                if p * q > minp:
                    raw[t] = raw.get(t, Fraction(0)) + p * q
                else:
                    flags.add("minp-add-dropped")
    return raw, perf, mg.m, flags


def exact_simulate_raw(dist, dets, minph):
    """the property's exact law, un-normalised -> (raw, phys_perf)"""
    raw, perf = {}, Fraction(1)
    for s, p in dist:
        kernels = [sorted(spec_detector(d, n).items()) for d, n in zip(dets, s)]
        for combo in itertools.product(*kernels):
            t = tuple(k for k, _ in combo)
            q = p
            for _, x in combo:
                q *= x
            if minph is not None and sum(t) < minph:
                perf -= q
            else:
                raw[t] = raw.get(t, Fraction(0)) + q
    return raw, perf


def python_slacks(dist, dets, T, minp):
    """upper estimates of physSlack / massSlack / pointSlack (Lemmas/C08Thr.lean) computed without Lean: the number of
    output states of an input state is bounded by the size of its exact kernel product"""
    ps = ms = pt = Fraction(0)
    for s, p in dist:
        N = 1
        for d, n in zip(dets, s):
            N *= len(spec_detector(d, n))
        kc = sum(add_count(d, n) for d, n in zip(dets, s))
        term = minp * p * kc + N * T * (p + Fraction(1, 10))
        ps += term
        ms += term + minp * N
        pt += minp * (kc * p + 1) + T * (p + Fraction(1, 10))
    return ps, ms, pt


def add_count(d, n):
    """AnyDet.addCount: `add` calls behind the per-mode result (Detector loop: <= n; tree: one per leaf state)"""
    if d is None or d["k"] in ("pnr",):
        return 0
    if d["k"] == "thr" or d["k"] == "ppnr":
        return n
    return comb(n + 2 ** d["L"] - 1, n)


def simthr_observe(case):
    from perceval.simulators._simulate_detectors import simulate_detectors
    from perceval.utils import BSDistribution, BasicState
    T = float(fr(case["thr"]))
    minp = None if case.get("minp") is None else float(fr(case["minp"]))
    with MinP(minp):
        bsd = BSDistribution()
        for s, p in case["dist"]:
            bsd[BasicState(s)] = float(Fraction(p[0], p[1]))
        dets = [build_det(d) for d in case["dets"]]     # fresh: a detector's _cache depends on min_p
        if case.get("share"):
            first = {}
            for i, d in enumerate(case["dets"]):
                key = json.dumps(d, sort_keys=True)
                if d is not None and key in first:
                    dets[i] = dets[first[key]]
                else:
                    first[key] = i
        if case.get("positional"):
            res, perf = simulate_detectors(bsd, dets, case["minph"], T)
        else:
            res, perf = simulate_detectors(bsd, dets, case["minph"], prob_threshold=T)
    return {tuple(s): float(p) for s, p in res.items()}, float(perf)


def judge_simthr(chk, case, count=False):
    """simulate_detectors at a non-zero prob_threshold and/or a changed min_p: (1) the PROVED bounds around the exact law,
    evaluated on the real outputs with slacks computed in Python; (2) exact comparison with the model at the same
    (min_p, T); (3) the as-is Python oracle tells whether a float comparison was too close to call"""
    dist = sim_exact_dist(case)
    dets, minph = case["dets"], case["minph"]
    T = fr(case["thr"])
    minp = SHIPPED_MINP if case.get("minp") is None else fr(case["minp"])
    a_raw, a_perf, margin, flags = asis_simulate(dist, dets, minph, T, minp)
    if margin < 1e-9 and not case.get("dyadic"):
        if count:
            chk.count("simthr", "ambiguous-skipped")
        return None
    try:
        got, perf = simthr_observe(case)
    except Exception as e:
        return ("violation", "simulate-threshold-raises",
                f"simulate_detectors(prob_threshold={float(T)!r}, min_p={float(minp)!r}) raised {type(e).__name__}: {e}", case)
    ty = spec_detection_type(dets)
    label = f"simulate_detectors(dets={[det_label(d) for d in dets]}, min_photons={minph}, prob_threshold={float(T)!r}) " \
            f"at min_p={float(minp)!r}"
    # (1) the proved bounds (every branch); exact law E, retained mass M_E, phys_E
    if dist and ty != "PNR":
        e_raw, e_perf = exact_simulate_raw(dist, dets, minph)
        M_E = sum(e_raw.values())
        ps, ms, pt = python_slacks(dist, dets, T, minp)
        if ty == "Threshold":
            ps = ms = pt = Fraction(0)
        tol = 1e-9
        if not (float(e_perf) - tol <= perf <= float(e_perf + ps) + tol):
            return ("violation", "threshold-phys-perf-bound",
                    f"{label}: phys_perf {perf!r} outside the proved interval [{float(e_perf)!r}, {float(e_perf + ps)!r}]", case)
        if M_E > 0 and ms < M_E:
            if count:
                chk.branch("thr-bound-checked")
                if ms > 0 and float(ms / (M_E - ms)) < 0.05:
                    chk.branch("thr-bound-tight")
            lo_s, hi_s = float(pt / M_E), float(ms / (M_E - ms))
            for t in set(e_raw) | set(got):
                ex = float(e_raw.get(t, Fraction(0)) / M_E)
                x = got.get(t, 0.0)
                if not (ex - lo_s - tol <= x <= ex + hi_s + tol):
                    return ("violation", "threshold-result-bound",
                            f"{label}: result[{list(t)}] = {x!r} outside the proved interval "
                            f"[{ex - lo_s!r}, {ex + hi_s!r}] around the exact law", case)
        if count and T > 0 and ty == "Threshold":
            chk.branch("thr-uniform-ignored")
    # (2) the model at the same (min_p, T)
    req = sim_lean_req(case)
    req["minp"], req["thr"] = core.rat(minp), core.rat(T)
    rep = chk.lean.ask(req)
    if "err" in rep:
        return ("broken", "model-vs-code", f"{label}: model rejects the case: {rep}", case)
    m_dist = {tuple(s): Fraction(p) for s, p in rep["dist"]}
    why = cmp_dist(got, m_dist)
    if why is None and not core.close(perf, float(Fraction(rep["perf"])), TOL):
        why = f"physical perf {perf!r}, model {float(Fraction(rep['perf']))!r}"
    if why is not None:
        # independent as-is oracle: does the real result match the code's algorithm evaluated exactly?
        tot = sum(a_raw.values())
        a_norm = {k: v / tot for k, v in a_raw.items()} if tot else dict(a_raw)
        asis_ok = cmp_dist(got, a_norm) is None and core.close(perf, float(a_perf), TOL)
        return ("broken", "model-vs-code" if not asis_ok else "model-vs-asis-oracle",
                f"{label} vs model (Model/C08Thr.lean): {why}", case)
    # model slacks are never above the Python estimates (same formula, fewer states)
    if dist and ty not in ("PNR", "Threshold"):
        ps, ms, pt = python_slacks(dist, dets, T, minp)
        if Fraction(rep["pslack"]) > ps or Fraction(rep["mslack"]) > ms or Fraction(rep["ptslack"]) != pt:
            return ("broken", "model-internal", f"{label}: slack of the model exceeds the Python estimate", case)
    if count:
        for f in flags:
            chk.branch(f)
        if len(dets) == 1 and T > 0 and ty not in ("PNR", "Threshold"):
            chk.branch("thr-one-mode-untouched")
        if case.get("minp") is not None:
            chk.branch("minp-changed")
        if case.get("dyadic"):
            chk.branch("thr-exact-tie")
    return None


def shrink_simthr(chk, case, sig):
    def fails(c):
        try:
            r = judge_simthr(chk, c)
        except Exception:
            return False
        return r is not None and r[1] == sig
    cur = copy.deepcopy(case)
    budget, changed = 40, True
    while changed and budget > 0:
        changed = False
        for i in range(len(cur["dist"])):
            if len(cur["dist"]) <= 1:
                break
            cand = copy.deepcopy(cur)
            del cand["dist"][i]
            budget -= 1
            if fails(cand):
                cur, changed = cand, True
                break
        if changed:
            continue
        for i, d in enumerate(cur["dets"]):
            if d is not None:
                cand = copy.deepcopy(cur)
                cand["dets"][i] = None
                budget -= 1
                if fails(cand):
                    cur, changed = cand, True
                    break
        if changed:
            continue
        if cur["minph"] is not None:
            cand = copy.deepcopy(cur)
            cand["minph"] = None
            budget -= 1
            if fails(cand):
                cur, changed = cand, True
    return cur


def run_simthr_case(chk, case):
    kinds = tuple(det_label(d) for d in case["dets"])
    chk.count("threshold_decade", "0" if case["thr"][0] == 0 else str(len(str(case["thr"][1] // max(1, case["thr"][0])))))
    chk.case(("simthr", kinds, tuple(tuple(s) for s, _ in case["dist"]), str(case["minph"]), tuple(case["thr"]),
              tuple(case["minp"]) if case.get("minp") else None),
             nontrivial=spec_detection_type(case["dets"]) not in ("PNR", "Threshold") and case["thr"][0] > 0,
             sample={"dets": kinds, "dist": case["dist"][:3], "min_photons": case["minph"],
                     "prob_threshold": case["thr"], "min_p": case.get("minp")})
    r = judge_simthr(chk, case, count=True)
    if r is not None:
        return (r[0], r[1], r[2], shrink_simthr(chk, case, r[1]))
    return None


def log_fraction(rng, lo_exp, hi_exp):
    """a 'random' rational of magnitude 10^-hi_exp .. 10^-lo_exp, [num, den]"""
    e = rng.randint(lo_exp, hi_exp)
    return [rng.randint(1000, 9999), 1000 * 10 ** e]


def simthr_cases(chk):
    rng = chk.rng
    out = []
    P2 = {"k": "ppnr", "w": 2, "max": None}
    # exact ties (dyadic numbers: the float operations are exact): a running product EQUAL to the threshold is kept,
    # a factor entry EQUAL to the threshold is trimmed; min_p equal to an entry drops it
    for thr in ([1, 4], [1, 2], [1, 8], [3, 16]):
        out.append({"dist": [[[2, 2], [1, 2]], [[1, 1], [1, 2]]], "dets": [P2, P2], "minph": None, "thr": thr, "dyadic": True})
        out.append({"dist": [[[2, 2, 2], [1, 2]], [[1, 0, 1], [1, 2]]], "dets": [P2, {"k": "bs", "L": 1, "r": [1, 2]}, P2],
                    "minph": 1, "thr": thr, "dyadic": True})
    out.append({"dist": [[[1, 2, 1], [1, 1]]], "dets": [None, P2, None], "minph": None, "thr": [0, 1], "minp": [1, 2],
                "dyadic": True})
    out.append({"dist": [[[2, 2], [1, 2]], [[0, 2], [1, 2]]], "dets": [P2, {"k": "ppnr", "w": 4, "max": None}], "minph": None,
                "thr": [0, 1], "minp": [1, 4], "dyadic": True})
    # a contribution p*p_out below a changed min_p is not accumulated
    out.append({"dist": [[[2, 1], [1, 1000]], [[1, 1], [999, 1000]]], "dets": [P2, {"k": "thr"}], "minph": None,
                "thr": [0, 1], "minp": [1, 100]})
    out.append({"dist": [[[3, 1], [1, 500]], [[0, 1], [499, 500]]], "dets": [{"k": "ppnr", "w": 3, "max": None}, None],
                "minph": 1, "thr": [1, 100000], "minp": [1, 100]})
    # one mode: the threshold is never applied; uniform lists never read it
    for _ in range(chk.pick(4, 20)):
        d = gen_det(rng, rng.choice(["interleaved", "bs"]))
        out.append({"dist": gen_dist(rng, 1, 4), "dets": [d], "minph": rng.choice([None, 1]), "thr": [rng.randint(1, 9), 10]})
        m = rng.randint(1, 3)
        out.append({"dist": gen_dist(rng, m, 3), "dets": [{"k": "thr"}] * m, "minph": rng.choice([None, 1, 2]),
                    "thr": log_fraction(rng, 0, 2)})
    # random general-branch cases over the decades of the threshold, some with a changed min_p
    for i in range(chk.pick(70, 600)):
        m = rng.randint(2, 3 if i % 3 else 4)
        kinds = [rng.choice(KINDS) for _ in range(m)]
        if all(k in ("none", "pnr") for k in kinds) or len(set(kinds)) == 1 and kinds[0] == "thr":
            kinds[rng.randrange(m)] = rng.choice(["interleaved", "bs"])
        dets = [gen_det(rng, k) for k in kinds]
        dist = gen_dist(rng, m, rng.randint(2, chk.pick(4, 5)), normalised=rng.random() < 0.8)
        top = max(sum(s) for s, _ in dist)
        case = {"dist": dist, "dets": dets, "minph": rng.choice([None] + list(range(0, top + 1))),
                "thr": rng.choice([[0, 1]] + [log_fraction(rng, 0, 1)] * 3 + [log_fraction(rng, 2, 4)] * 3 + [log_fraction(rng, 5, 12)]),
                "share": rng.random() < 0.3, "positional": rng.random() < 0.5}
        if i % 4 == 0:
            case["minp"] = rng.choice([log_fraction(rng, 0, 1), log_fraction(rng, 2, 4), log_fraction(rng, 5, 9)])
        out.append(case)
    return out


def asis_sample_law(state, dets, minp):
    """the distribution simulate_detectors_sample draws from, as coded (pairwise tensor_product with its
    'empty left factor returns the right factor' rule) -> (dict state -> Fraction, had an empty kernel?)"""
    mg = Margin()
    ty = spec_detection_type(dets)
    if ty == "PNR":
        return {tuple(state): Fraction(1)}, False, mg.m
    if ty == "Threshold":
        return {tuple(min(x, 1) for x in state): Fraction(1)}, False, mg.m
    acc, quirk = {}, False
    for n, d in zip(state, dets):
        k = asis_kernel(d, n, minp, mg)
        b = {(r,): v for r, v in k}
        if not k:
            quirk = True
        if not acc:
            acc = b
        else:
            new = {}
            for x, px in acc.items():
                for y, py in b.items():
                    new[x + y] = new.get(x + y, Fraction(0)) + px * py
            acc = new
    return acc, quirk, mg.m


def run_sampleminp_case(chk, case):
    """simulate_detectors_sample with global_params['min_p'] changed: the law is the kernel product at that min_p as long
    as no per-mode result is an empty dictionary (sample_law_is_kernel_product_minp); otherwise the product restarts after
    the last empty result (sample_restarts_after_empty_kernel) — a characterised quirk, not reported"""
    import perceval as pcvl
    from perceval.simulators._simulate_detectors import simulate_detectors_sample
    from perceval.utils import BasicState
    s, dets = case["state"], case["dets"]
    minp = fr(case["minp"])
    kinds = tuple(det_label(d) for d in dets)
    law, quirk, margin = asis_sample_law(s, dets, minp)
    if margin < 1e-9 and not case.get("dyadic"):
        chk.count("sampleminp", "ambiguous-skipped")
        return None
    chk.case(("sampleminp", kinds, tuple(s), tuple(case["minp"])), nontrivial=max(s, default=0) >= 2,
             sample={"sample": list(s), "dets": kinds, "min_p": case["minp"]})
    rep = chk.lean.ask({"op": "sample", "state": list(s), "dets": [lean_det(d) for d in dets], "minp": core.rat(minp),
                        "fixed": True})
    if "err" in rep:
        return ("broken", "model-vs-code", f"model rejects the sample case: {rep}", case)
    m_law = {}
    for t, q in rep["dist"]:
        m_law[tuple(t)] = m_law.get(tuple(t), Fraction(0)) + Fraction(q)
    if {k: v for k, v in m_law.items() if v} != {k: v for k, v in law.items() if v}:
        return ("broken", "model-vs-asis-oracle", f"sample law of the model {m_law} vs as-is oracle {law}", case)
    label = f"simulate_detectors_sample({list(s)}, {list(kinds)}) at min_p={float(minp)!r}"
    pcvl.random_seed(case["seed"])
    outs, err = [], None
    with MinP(float(minp)):
        objs = [build_det(d) for d in dets]
        try:
            for _ in range(case["reps"]):
                outs.append(tuple(simulate_detectors_sample(BasicState(s), objs)))
        except Exception as e:
            err = type(e).__name__
    tot = sum(law.values())
    if quirk:
        chk.branch("sample-minp-empty-kernel")
        if not tot:
            chk.branch("sample-minp-nothing-left")
    else:
        chk.branch("sample-minp-guard-holds")
    if not tot:
        if err != "RuntimeError":
            return ("broken", "sample-minp-law", f"{label}: nothing to draw from, the code returned {outs[:1]} / raised {err}", case)
        return None
    if err is not None:
        return ("violation" if not quirk else "broken", "sample-raises" if not quirk else "sample-minp-law",
                f"{label} raised {err}", case)
    support = {t for t, q in law.items() if q > 0}
    spec, _ = spec_simulate([(tuple(s), Fraction(1))], dets, None)
    for o in outs:
        if not quirk and (o not in spec or spec[o] <= 0):
            return ("violation", "sample-outside-support",
                    f"{label} returned {list(o)}, which has probability 0 under the mode-wise detector kernels", case)
        if o not in support:
            return ("broken", "sample-minp-law", f"{label} returned {list(o)}, not in the support {sorted(support)} of the "
                    f"model's law", case)
    n = len(outs)
    if n >= 100:
        chk.branch("sample-minp-frequency-test")
        for t, q in law.items():
            q = float(q / tot)
            f = outs.count(t) / n
            if abs(f - q) > 6 * (q * (1 - q) / n) ** 0.5 + 4.0 / n:
                return ("violation" if not quirk else "broken", "sample-frequencies" if not quirk else "sample-minp-law",
                        f"{label}: {list(t)} drawn with frequency {f:.3f} over {n} draws, law {q:.3f} (6-sigma statistical test)",
                        case)
    return None


def sampleminp_cases(chk):
    rng = chk.rng
    P2 = {"k": "ppnr", "w": 2, "max": None}
    out = [{"state": [1, 2, 1], "dets": [None, P2, None], "minp": [1, 2], "reps": 5, "seed": 1, "dyadic": True},
           {"state": [1, 2], "dets": [None, P2], "minp": [1, 2], "reps": 3, "seed": 2, "dyadic": True},
           {"state": [2, 2, 3], "dets": [P2, {"k": "thr"}, {"k": "ppnr", "w": 4, "max": None}], "minp": [1, 2], "reps": 200,
            "seed": 3, "dyadic": True}]
    for i in range(chk.pick(40, 300)):
        m = rng.randint(2, 4)
        kinds = [rng.choice(["none", "thr", "interleaved", "interleaved", "bs"]) for _ in range(m)]
        kinds[rng.randrange(m)] = "interleaved"
        dets = [gen_det(rng, k) for k in kinds]
        s = [rng.choice([0, 1, 2, 2, 3, 4]) for _ in range(m)]
        minp = rng.choice([log_fraction(rng, 0, 0)] * 3 + [[rng.randint(20, 60), 100]] * 2 + [log_fraction(rng, 1, 3), log_fraction(rng, 4, 12)])
        out.append({"state": s, "dets": dets, "minp": minp, "reps": 200 if i % 5 == 0 else 6, "seed": rng.randrange(1 << 30)})
    return out


# ------------------------------------------------------------------------------------------------
# J. mixed inputs through the detector path: Simulator.probs_svd(SVDistribution of several Fock members, detectors) and
#    Processor.probs() with a lossy source (model: Model/C08Mix.lean `probsSvdMix`, op `probsmix`; theorems
#    probs_svd_mix_law, mix_is_weighted_sum, simulate_phys_linear)
# ------------------------------------------------------------------------------------------------
def backend_dist(circ, state):
    """theoretical distribution of the backend for one Fock input (exact rationals of the floats)"""
    from perceval.backends import SLOSBackend
    from perceval.utils import BasicState
    b = SLOSBackend()
    b.set_circuit(build_circuit(circ))
    b.set_input_state(BasicState(state))
    return [(tuple(s), Fraction(*float(q).as_integer_ratio())) for s, q in b.prob_distribution().items()]


def spec_mix(members, dets, minph, heralds, ps, m):
    """The property for a mixed input, exactly: every member passing the input filter contributes, with its weight, the
    detector kernels applied mode-wise to ITS theoretical distribution, then the photon filter, the heralds and the
    post-selection on the readings.  -> (result without heralded modes, accepted mass = physical*logical, physical_perf)"""
    F = minph + sum(v for _, v in heralds)
    hm = sorted(k for k, _ in heralds)
    is_pnr = spec_detection_type(dets or []) == "PNR"
    total, W, ret = {}, Fraction(0), Fraction(0)
    pre = Fraction(1)
    for p, n, base in members:
        if n < F:
            pre -= p
            continue
        if p <= 0:
            continue
        W += p
        if is_pnr:
            raw, perf = dict(base), Fraction(1)
        else:
            raw, perf = exact_simulate_raw(base, dets, F)
        ret += p * sum(raw.values())
        for t, q in raw.items():
            if all(t[k] == v for k, v in heralds) and ps_ok(ps, t):
                key = tuple(x for i, x in enumerate(t) if i not in hm)
                total[key] = total.get(key, Fraction(0)) + p * q
    acc = sum(total.values())
    res = {k: v / acc for k, v in total.items()} if acc else {}
    phys = pre if is_pnr else (pre * ret / W if W else pre)
    return res, acc, phys


def mix_setup(case):
    """-> members [(p exact, n, base)], floats"""
    members = []
    for st, w in case["members"]:
        p = Fraction(*float(Fraction(w[0], w[1])).as_integer_ratio())
        members.append((p, sum(st), backend_dist(case["circ"], st)))
    return members


def judge_mix(chk, case, count=False):
    from perceval.simulators import Simulator
    from perceval.backends import SLOSBackend
    from perceval.utils import BasicState, SVDistribution, PostSelect
    import perceval as pcvl
    m = case["circ"]["m"]
    heralds = [tuple(h) for h in case["heralds"]]
    ps = case.get("ps")
    dets = case["dets"]
    rel = float(Fraction(*case["rel"]))
    members = mix_setup(case)
    kinds = None if dets is None else tuple(det_label(d) for d in dets)
    label = f"probs_svd(mixed input {[(st, float(Fraction(*w))) for st, w in case['members']]}, detectors {kinds}), heralds " \
            f"{dict(heralds)}, filter {case['minph']}, precision {rel!r}" + (f", post-selection '{ps_string(ps)}'" if ps else "")
    objs = None if dets is None else [build_det(d) for d in dets]
    try:
        if case.get("via") == "processor":
            # public entry point: a lossy source produces the mixture
            p = pcvl.Processor("SLOS", build_circuit(case["circ"]),
                               noise=pcvl.NoiseModel(brightness=float(Fraction(*case["emission"]))))
            for k, v in heralds:
                p.add_herald(k, v)
            for i, d in enumerate(dets or []):
                if d is not None:
                    p.add(i, objs[i])
            if ps:
                p.set_postselection(PostSelect(ps_string(ps)))
            p.min_detected_photons_filter(case["minph"])
            hmodes = {k for k, _ in heralds}
            p.with_input(BasicState([x for i, x in enumerate(case["input"]) if i not in hmodes]))
            out = p.probs(precision=rel)
        else:
            sim = Simulator(SLOSBackend())
            sim.set_circuit(build_circuit(case["circ"]))
            sim.set_selection(min_detected_photons_filter=case["minph"], heralds=dict(heralds),
                              postselect=PostSelect(ps_string(ps)) if ps else None)
            sim.keep_heralds(False)
            sim.set_precision(rel)
            svd = SVDistribution({BasicState(st): float(Fraction(*w)) for st, w in case["members"]})
            out = sim.probs_svd(svd, objs)
    except Exception as e:
        return ("violation", "probs-svd-mixed-raises", f"{label} raised {type(e).__name__}: {e}", case)
    got = {tuple(s): float(q) for s, q in out["results"].items()}
    perf, logical = float(out["physical_perf"]), float(out["logical_perf"])
    incompatible = any(det_max(d) is not None and v > det_max(d) for (k, v) in heralds for d in [(dets or [None] * m)[k]])
    # (1) the property: mixture of the per-member laws with the members' weights (only meaningful at precision 0)
    if rel == 0 and not incompatible:
        s_res, s_acc, s_phys = spec_mix(members, dets, case["minph"], heralds, ps, m)
        why = cmp_dist(got, s_res)
        if why is None and not core.close(perf * logical, float(s_acc), 1e-8):
            why = f"physical_perf*logical_perf = {perf * logical!r}, accepted mass of the mixture {float(s_acc)!r}"
        if why is None and s_acc > 0 and not core.close(perf, float(s_phys), 1e-8):
            why = f"physical_perf {perf!r}, weighted sum over the members {float(s_phys)!r}"
        if why is not None:
            return ("violation", "mixed-input-detector-law",
                    f"{label}: not the mixture of the members' conditioned laws with the members' weights: {why}", case)
    # (1b) all-PNR path at a positive precision: probs_svd_mix_pnr_law evaluated directly on the implementation's answer —
    #      physical_perf * logical_perf * results[reported t] = sum over the members _preprocess_svd keeps of p_m * base_m[t]
    if rel > 0 and spec_detection_type(dets or []) == "PNR":
        F0 = case["minph"] + sum(v for _, v in heralds)
        maxp0 = max([p for p, n, _ in members if n >= F0] + [Fraction(0)])
        T0 = max(SHIPPED_MINP, maxp0 * Fraction(*rel.as_integer_ratio()))
        if all(abs(p - T0) > Fraction(1, 10 ** 7) * max(p, T0) for p, n, _ in members):
            hm0 = sorted(k for k, _ in heralds)
            exp = {}
            for p, n, base in members:
                if n >= F0 and p > T0:
                    for t, q in base:
                        if all(t[k] == v for k, v in heralds) and ps_ok(ps, t):
                            key = tuple(x for i, x in enumerate(t) if i not in hm0)
                            exp[key] = exp.get(key, Fraction(0)) + p * q
            why = cmp_dist({k: perf * logical * v for k, v in got.items()}, exp)
            if why is not None:
                return ("violation", "mixed-input-pnr-law",
                        f"{label}: physical_perf*logical_perf*results is not the weighted sum of the kept members' theoretical "
                        f"probabilities (all-PNR path, threshold {float(T0)!r}): {why}", case)
            if count:
                chk.branch("mix-pnr-law-at-precision")
                if any(n >= F0 and p <= T0 for p, n, _ in members):
                    chk.branch("mix-pnr-law-member-trimmed")
    # (2) the model of the whole path
    F = case["minph"] + sum(v for _, v in heralds)
    minp = SHIPPED_MINP
    maxp = max([p for p, n, _ in members if n >= F] + [Fraction(0)])
    T = max(minp, maxp * Fraction(*rel.as_integer_ratio()))
    if rel > 0:
        # float comparisons too close to call? (member trimming and the thresholds inside simulate_detectors)
        mg = Margin()
        for p, n, _ in members:
            mg.cmp(p, T)
        mixd = {}
        for p, n, base in members:
            if n >= F and p > T:
                for t, q in base:
                    mixd[t] = mixd.get(t, Fraction(0)) + p * q
        tot = sum(mixd.values())
        if tot and dets:
            _, _, mm, _ = asis_simulate([(t, q / tot) for t, q in mixd.items()], dets, F, T, minp)
            mg.m = min(mg.m, mm)
        if mg.m < 1e-7:
            if count:
                chk.count("mix", "ambiguous-skipped")
            return None
    rep = chk.lean.ask({"op": "probsmix", "m": m,
                        "members": [{"p": core.rat(p), "n": n, "dist": [[list(t), core.rat(q)] for t, q in base]}
                                    for p, n, base in members],
                        "dets": None if dets is None else [lean_det(d) for d in dets], "filter": case["minph"],
                        "minp": MINP, "rel": core.rat(rel), "heralds": [list(h) for h in heralds],
                        "ps": [list(c) for c in (ps or [])], "keep": False})
    if "err" in rep:
        return ("broken", "model-vs-code", f"{label}: model (probsmix) rejects the case: {rep}", case)
    full = {}
    for t, q in rep["dist"]:
        if tuple(t) in full:
            return ("broken", "model-internal", f"{label}: model result holds the state {t} twice", case)
        full[tuple(t)] = Fraction(q)
    why = cmp_dist(got, full)
    if why is None and not core.close(perf, float(Fraction(rep["perf"])), TOL):
        why = f"physical_perf {perf!r}, model {rep['perf']}"
    if why is None and not core.close(logical, float(Fraction(rep["logical"])), TOL):
        why = f"logical_perf {logical!r}, model {rep['logical']}"
    if why is not None:
        return ("broken", "model-vs-code", f"{label} vs model of the mixed-input path (Model/C08Mix.lean): {why}", case)
    if count:
        chk.branch("mix-model")
        if rep["mask"]:
            chk.branch("mix-mask-path")
        elif dets:
            chk.branch("mix-imperfect-detectors")
        if rep["kept"] < len(members):
            chk.branch("mix-member-dropped")
        if any(n < F for _, n, _ in members):
            chk.branch("mix-member-below-filter")
        if any(n == 0 for _, n, _ in members):
            chk.branch("mix-vacuum-member")
        if len({n for _, n, _ in members}) >= 2:
            chk.branch("mix-photon-numbers-differ")
        if rel > 0 and dets and spec_detection_type(dets) not in ("PNR", "Threshold"):
            chk.branch("mix-threshold-from-precision")
        if ps:
            chk.branch("mix-postselect")
        if heralds:
            chk.branch("mix-heralds")
        if case.get("via") == "processor":
            chk.branch("mix-via-processor")
    return None


def run_mix_case(chk, case):
    kinds = None if case["dets"] is None else tuple(det_label(d) for d in case["dets"])
    chk.case(("mix", kinds, tuple(tuple(st) for st, _ in case["members"]), tuple(map(tuple, case["heralds"])), case["minph"],
              tuple(case["rel"])),
             nontrivial=len(case["members"]) >= 2 and spec_detection_type(case["dets"] or []) != "PNR",
             sample={"circuit": case["circ"], "members": case["members"], "dets": kinds, "heralds": case["heralds"],
                     "min_photons": case["minph"], "precision": case["rel"]})
    r = judge_mix(chk, case, count=True)
    if r is None:
        return None

    def fails(c):
        try:
            x = judge_mix(chk, c)
        except Exception:
            return False
        return x is not None and x[1] == r[1]
    cur = copy.deepcopy(case)
    if cur.get("via") != "processor":
        changed, budget = True, 30
        while changed and budget > 0:
            changed = False
            for i in range(len(cur["members"])):
                if len(cur["members"]) <= 1:
                    break
                c = copy.deepcopy(cur)
                del c["members"][i]
                budget -= 1
                if fails(c):
                    cur, changed = c, True
                    break
            if changed:
                continue
            for i, d in enumerate(cur["dets"] or []):
                if d is not None:
                    c = copy.deepcopy(cur)
                    c["dets"][i] = None
                    budget -= 1
                    if fails(c):
                        cur, changed = c, True
                        break
            if not changed and cur.get("ps"):
                c = copy.deepcopy(cur)
                c["ps"] = None
                budget -= 1
                if fails(c):
                    cur, changed = c, True
    return (r[0], r[1], r[2], cur)


def mix_cases(chk):
    rng = chk.rng
    out = []
    for i in range(chk.pick(45, 350)):
        circ, inp, heralds, free, n = gen_herald_setup(rng, 1)
        m = circ["m"]
        if i % 3 == 0:
            heralds = []
        style = ["mixed", "mixed", "pnr", "mixed", "thr"][i % 5]
        dets = gen_herald_dets(rng, m, heralds, style)
        if style == "pnr" and rng.random() < 0.3:
            dets = None
        # members: the full input, the input with photons lost, sometimes the vacuum or an unrelated state
        states = {tuple(inp)}
        for _ in range(rng.randint(1, 3)):
            st = list(inp)
            for _ in range(rng.randint(1, 2)):
                occ = [k for k, x in enumerate(st) if x > 0]
                if occ:
                    st[rng.choice(occ)] -= 1
            states.add(tuple(st))
        if rng.random() < 0.35:
            states.add(tuple([0] * m))
        if rng.random() < 0.3:
            st = [0] * m
            for _ in range(rng.randint(1, 3)):
                st[rng.randrange(m)] += 1
            states.add(tuple(st))
        states = sorted(states)
        rng.shuffle(states)
        ws = [rng.randint(1, 9) for _ in states]
        if rng.random() < 0.3:
            ws[rng.randrange(len(ws))] = 1
            ws[0] = 400
        tot = sum(ws) if rng.random() < 0.85 else sum(ws) + 5
        hsum = sum(v for _, v in heralds)
        case = {"circ": circ, "members": [[list(st), [w, tot]] for st, w in zip(states, ws)], "heralds": heralds,
                "dets": dets, "minph": rng.randint(0, max(0, n - hsum)),
                "rel": rng.choice([[0, 1]] * 3 + [[rng.randint(1, 9), 1000], [rng.randint(1, 9), 100], [rng.randint(11, 49), 100]])}
        if rng.random() < 0.3:
            case["ps"] = gen_ps(rng, free, n)
        if style == "pnr" and (i // 5) % 2 == 0 and case["rel"][0] == 0:
            case["rel"] = [3 + i % 7, 100 if (i // 10) % 2 else 10]    # all-PNR path at a positive precision (no rng draw)
        out.append(case)
    # Processor.probs() with a lossy source (the mixture is produced by Source)
    for i in range(chk.pick(8, 50)):
        circ, inp, heralds, free, n = gen_herald_setup(rng, 1)
        m = circ["m"]
        inp = [min(x, 1) for x in inp]
        heralds = [[k, v] for k, v in heralds if inp[k] == v]
        if sum(inp) == 0:
            continue
        dets = gen_herald_dets(rng, m, heralds, "mixed")
        out.append({"via": "processor", "circ": circ, "input": inp, "emission": [rng.randint(3, 9), 10], "heralds": heralds,
                    "dets": dets, "minph": rng.randint(0, max(0, sum(inp) - sum(v for _, v in heralds))),
                    "rel": rng.choice([[0, 1], [0, 1], [rng.randint(1, 9), 100]]), "members": None})
    return out


def processor_members(case):
    """the SVDistribution a lossy Source produces for the processor case -> [[state, [num, den]]]"""
    import perceval as pcvl
    from perceval.utils import BasicState
    p = pcvl.Processor("SLOS", build_circuit(case["circ"]),
                       noise=pcvl.NoiseModel(brightness=float(Fraction(*case["emission"]))))
    for k, v in case["heralds"]:
        p.add_herald(k, v)
    p.min_detected_photons_filter(case["minph"])
    hmodes = {k for k, _ in case["heralds"]}
    p.with_input(BasicState([x for i, x in enumerate(case["input"]) if i not in hmodes]))
    out = []
    for sv, w in p.source_distribution.items():
        if len(sv) != 1:
            return None
        bs = sv[0]
        if getattr(bs, "has_annotations", False):
            return None
        num, den = float(w).as_integer_ratio()
        out.append([list(bs), [num, den]])
    return out


# ------------------------------------------------------------------------------------------------
# ------------------------------------------------------------------------------------------------
# N. one detector instance through detect(n) calls at CHANGING global_params['min_p'] (+ clear_cache(), copy())
#    (Model/C08Hist.lean: detectInstH / bsInstH; detect_history_minp_eq_fresh, bs_history_minp_eq_fresh)
# ------------------------------------------------------------------------------------------------
def dethist_minp(q):
    return SHIPPED_MINP if q is None else fr(q)


def dethist_observe(case):
    """run the history on the real code; [(canonical output | None for clear/copy/back)]"""
    d = case["det"]
    inst = build_det(d)
    original = inst
    outs = []
    for st in case["steps"]:
        if st[0] == "detect":
            with MinP(None if st[1] is None else float(dethist_minp(st[1]))):
                outs.append(py_out(inst.detect(st[2])))
        elif st[0] == "clear":
            inst.clear_cache()
            outs.append(None)
        elif st[0] == "copy":
            inst = inst.copy()
            outs.append(None)
        elif st[0] == "back":
            inst = original
            outs.append(None)
        else:
            raise ValueError(st)
    return outs


def dethist_oracle(case, outs, mg=None):
    """the property evaluated directly: every detect(n) must be the click law with exactly the contributions not above the
    CURRENT min_p removed (exact Fractions).  Returns (index, description) of the first failing step or None"""
    d = case["det"]
    mg = mg or Margin()
    for i, st in enumerate(case["steps"]):
        if st[0] != "detect":
            continue
        exp = dict(asis_kernel(d, st[2], dethist_minp(st[1]), mg))
        got = outs[i]
        gd = {got["state"]: 1.0} if "state" in got else got["dist"]
        why = cmp_dist(gd, exp)
        if why is not None:
            return i, why
    return None


def run_dethist_case(chk, case):
    d, steps = case["det"], case["steps"]
    mg = Margin()
    first, seen_copy = {}, False
    for st in steps:                       # oracle comparisons of the whole history: closeness of p to min_p
        if st[0] == "detect":
            asis_kernel(d, st[2], dethist_minp(st[1]), mg)
    if mg.m < 1e-9:
        chk.count("dethist_skipped", "comparison-too-close")
        return None
    try:
        outs = dethist_observe(case)
    except Exception as e:
        return ("violation", "detector-history-raises", f"history {steps} on {json.dumps(d)} raised {type(e).__name__}: {e}",
                case)
    label = f"ONE {det_label(d)} detector instance {json.dumps(d)}"
    bad = dethist_oracle(case, outs)
    if bad is not None:
        i, why = bad

        def fails(c):
            try:
                return dethist_oracle(c, dethist_observe(c)) is not None
            except Exception:
                return False
        small = dict(case, steps=steps[:i + 1])
        changed = True
        while changed:
            changed = False
            for k in range(len(small["steps"]) - 1):
                c = dict(small, steps=small["steps"][:k] + small["steps"][k + 1:])
                if fails(c):
                    small, changed = c, True
                    break
        earlier = [s for s in small["steps"][:-1] if s[0] == "detect"]
        sig = "detector-cache-stale-minp" if earlier else "detect-click-law-minp"
        st = small["steps"][-1]
        return ("violation", sig,
                f"{label}: after {small['steps'][:-1]} the call detect({st[2]}) at min_p={float(dethist_minp(st[1]))!r} does not "
                f"return the click law of its description at the current min_p: {why}", small)
    # model (repaired code = main model) against the implementation
    lsteps = [[core.rat(dethist_minp(st[1])), st[2]] if st[0] == "detect" else None
              for st in steps if st[0] in ("detect", "clear")]
    idx = [i for i, st in enumerate(steps) if st[0] in ("detect", "clear")]
    req = {"op": "hist", "fixed": True, "steps": lsteps}
    if d["k"] == "bs":
        req.update(L=d["L"], r=core.rat(r_float(d)))
    else:
        ld = lean_det(d)
        req.update(wires=ld["w"], max=ld["max"])
    rep = chk.lean.ask(req)
    if "err" in rep:
        return ("broken", "model-vs-code", f"{label}: model rejects the history ({rep['err']})", case)
    for j, i in enumerate(idx):
        if steps[i][0] != "detect":
            continue
        why = cmp_out(outs[i], lean_out(rep["outs"][j]))
        if why is not None:
            return ("broken", "model-vs-code", f"{label}: step {i + 1} {steps[i]} vs model: {why}",
                    dict(case, steps=steps[:i + 1]))
    # branch counters
    chk.branch("dethist")
    chk.branch("dethist-bs" if d["k"] == "bs" else "dethist-interleaved")
    for st in steps:
        if st[0] == "clear":
            chk.branch("dethist-clear")
            first = {}
        elif st[0] == "copy":
            chk.branch("dethist-copy")
        elif st[0] == "detect" and st[2] >= 2:
            n, mp = st[2], dethist_minp(st[1])
            if n in first and first[n] != mp:
                a, b = asis_kernel(d, n, first[n], Margin()), asis_kernel(d, n, mp, Margin())
                if a != b:
                    # the dictionary cached by the first call differs from the one due now: a cache keyed by the photon
                    # count alone would answer wrongly here
                    chk.branch("dethist-stale-would-differ")
                    chk.branch("dethist-minp-lowered" if mp < first[n] else "dethist-minp-raised")
            first.setdefault(n, mp)
    chk.case(("dethist", json.dumps(d, sort_keys=True), json.dumps(steps)), nontrivial=True,
             sample={"detector": d, "steps": steps[:5]})
    return None


def dethist_cut_values(d, n):
    """probabilities the code compares with min_p when it builds detect(n)"""
    if d["k"] == "bs":
        L, r = d["L"], r_exact(d)
        return sorted(set(multinomial_law([leaf_weight(L, k, r) for k in range(2 ** L)], n).values()))
    w = d["w"]
    mx = w if d.get("max") is None else min(d["max"], w)
    cap = min(mx, n)
    vals = [closed(w, i, n) for i in range(1, cap)]
    vals.append(1 - sum(vals))
    return sorted(set(vals))


def dethist_cases(chk):
    rng = chk.rng
    out = []
    fixed_dets = [{"k": "ppnr", "w": 3, "max": None}, {"k": "ppnr", "w": 5, "max": 2}, {"k": "bs", "L": 2, "r": [1, 2]},
                  {"k": "bs", "L": 1, "r": [9, 25]}]
    # deterministic histories: coarse / shipped / coarse again around clear_cache() and copy()
    for d, n, q in [({"k": "bs", "L": 2, "r": [1, 2]}, 3, [1, 20]), ({"k": "bs", "L": 1, "r": [9, 25]}, 2, [1, 5]),
                    ({"k": "ppnr", "w": 4, "max": 3}, 3, [1, 5])]:
        steps = [["detect", q, n], ["detect", None, n], ["detect", q, n], ["copy"], ["detect", None, n], ["back"],
                 ["detect", q, n], ["detect", None, n]]
        if d["k"] == "bs":
            steps = steps[:2] + [["clear"]] + steps[2:] + [["clear"], ["detect", q, n]]
        out.append({"det": d, "steps": steps})
    for t in range(chk.pick(36, 300)):
        d = fixed_dets[t] if t < len(fixed_dets) else gen_det(rng, rng.choice(["interleaved", "bs"]))
        if d["k"] == "ppnr" and d["w"] == 1:
            continue
        ns = rng.sample([2, 3, 4] if d["k"] == "bs" else [2, 3, 4, 5], rng.randint(1, 2))
        cuts = []
        for n in ns:
            vals = [v for v in dethist_cut_values(d, n) if v > 0]
            for a, b in zip([Fraction(0)] + vals, vals):
                cuts.append((a + b) / 2)
        cuts = [c for c in cuts if c > 0]
        qs = [None] + [[c.numerator, c.denominator] for c in rng.sample(cuts, min(len(cuts), 3))]
        hi = max(cuts) if cuts else Fraction(1, 2)
        steps = []
        if rng.random() < 0.6:      # coarse first, then the shipped value: the realistic order
            steps += [["detect", [hi.numerator, hi.denominator], ns[0]], ["detect", None, ns[0]]]
        else:
            steps += [["detect", None, ns[0]], ["detect", [hi.numerator, hi.denominator], ns[0]]]
        on_copy = False
        for _ in range(rng.randint(2, 6)):
            x = rng.random()
            if x < 0.12 and d["k"] == "bs":
                steps.append(["clear"])
            elif x < 0.24:
                steps.append(["back"] if on_copy else ["copy"])
                on_copy = not on_copy
            else:
                steps.append(["detect", copy.deepcopy(rng.choice(qs)), rng.choice(ns + [rng.choice([0, 1])])])
        steps.append(["detect", None, ns[0]])
        out.append({"det": d, "steps": steps})
    return out


# ------------------------------------------------------------------------------------------------
# O. the FAMILY OF COPIES of one detector: obj_i.detect(n) at changing min_p, obj_i.copy(), obj_i.clear_cache()
#    (Model/C08Copy.lean: heap of dictionaries and objects; detect_copy_history_eq_fresh, bs_copy_history_eq_fresh)
# ------------------------------------------------------------------------------------------------
def detheap_valid(steps):
    k = 1
    for st in steps:
        if st[1] >= k:
            return False
        if st[0] == "copy":
            k += 1
    return True


def detheap_canon(cells):
    """partition of the objects by the dictionary they are bound to: index of the first object bound to the same one"""
    first = {}
    return [first.setdefault(c, i) for i, c in enumerate(cells)]


def detheap_observe(case):
    """run the history on the real code: [(canonical output | None, heap structure | None)]"""
    objs = [build_det(case["det"])]
    outs = []
    for st in case["steps"]:
        out = None
        if st[0] == "detect":
            with MinP(None if st[2] is None else float(dethist_minp(st[2]))):
                out = py_out(objs[st[1]].detect(st[3]))
        elif st[0] == "copy":
            objs.append(objs[st[1]].copy())
        elif st[0] == "clear":
            objs[st[1]].clear_cache()
        else:
            raise ValueError(st)
        struct = None
        if all(isinstance(getattr(o, "_cache", None), dict) and hasattr(o, "_cache_min_p") for o in objs):
            struct = {"cells": detheap_canon([id(o._cache) for o in objs]),
                      "marks": [o._cache_min_p for o in objs],
                      "keys": [sorted(o._cache.keys()) for o in objs]}
        outs.append((out, struct))
    return outs


def detheap_oracle(case, outs):
    """the property evaluated directly: whichever object answers and whatever was written into a shared dictionary
    before, detect(n) is the click law with exactly the contributions not above the CURRENT min_p removed"""
    d = case["det"]
    for i, st in enumerate(case["steps"]):
        if st[0] != "detect":
            continue
        exp = dict(asis_kernel(d, st[3], dethist_minp(st[2]), Margin()))
        got = outs[i][0]
        why = cmp_dist({got["state"]: 1.0} if "state" in got else got["dist"], exp)
        if why is not None:
            return i, why
    return None


def run_detheap_case(chk, case):
    d, steps = case["det"], case["steps"]
    if not detheap_valid(steps):
        raise ValueError(f"detheap: step names a missing object: {steps}")
    mg = Margin()
    for st in steps:
        if st[0] == "detect":
            asis_kernel(d, st[3], dethist_minp(st[2]), mg)
    if mg.m < 1e-9:
        chk.count("detheap_skipped", "comparison-too-close")
        return None
    label = f"the copies of ONE {det_label(d)} detector {json.dumps(d)}"
    try:
        outs = detheap_observe(case)
    except Exception as e:
        return ("violation", "detector-history-raises", f"history {steps} on {label} raised {type(e).__name__}: {e}", case)
    bad = detheap_oracle(case, outs)
    if bad is not None:
        i, why = bad

        def fails(c):
            try:
                return detheap_valid(c["steps"]) and detheap_oracle(c, detheap_observe(c)) is not None
            except Exception:
                return False
        small = dict(case, steps=steps[:i + 1])
        changed = True
        while changed:
            changed = False
            for k in range(len(small["steps"]) - 1):
                c = dict(small, steps=small["steps"][:k] + small["steps"][k + 1:])
                if fails(c):
                    small, changed = c, True
                    break
        st = small["steps"][-1]
        shared = any(s[0] == "copy" for s in small["steps"])
        earlier = any(s[0] == "detect" for s in small["steps"][:-1])
        sig = "detector-copy-shared-cache" if shared else ("detector-cache-stale-minp" if earlier else "detect-click-law-minp")
        return ("violation", sig,
                f"{label}: after {small['steps'][:-1]} the call obj{st[1]}.detect({st[3]}) at "
                f"min_p={float(dethist_minp(st[2]))!r} does not return the click law of its description at the current min_p: "
                f"{why}", small)
    lsteps = [[st[0], st[1], core.rat(dethist_minp(st[2])), st[3]] if st[0] == "detect" else [st[0], st[1]] for st in steps]
    req = {"op": "heap", "steps": lsteps}
    if d["k"] == "bs":
        req.update(L=d["L"], r=core.rat(r_float(d)))
    else:
        ld = lean_det(d)
        req.update(wires=ld["w"], max=ld["max"])
    rep = chk.lean.ask(req)
    if "err" in rep:
        return ("broken", "model-vs-code", f"{label}: model rejects the history ({rep['err']})", case)
    msteps = rep["steps"]
    for i, st in enumerate(steps):
        if st[0] != "detect":
            continue
        if msteps[i]["out"] is None:
            return ("broken", "model-vs-code", f"{label}: the model does not answer step {i + 1} {st}", case)
        why = cmp_out(outs[i][0], lean_out(msteps[i]["out"]))
        if why is not None:
            return ("broken", "model-vs-code", f"{label}: step {i + 1} {st} vs model: {why}", dict(case, steps=steps[:i + 1]))
    # the aliasing structure (which objects are bound to the same dictionary, markers, stored photon counts) as the model
    # has it against the private attributes of the real objects.  Counted, not an alarm: a value-preserving rewrite may
    # change the aliasing (e.g. clear_cache() emptying the dictionary in place), and the answers are judged above.
    for i, st in enumerate(steps):
        real = outs[i][1]
        if real is None:
            chk.count("detheap_structure", "unobservable")
            continue
        m = msteps[i]
        ok = (detheap_canon(m["cells"]) == real["cells"] and m["keys"] == real["keys"]
              and len(m["marks"]) == len(real["marks"])
              and all((a is None and b is None) or (a is not None and b is not None and float(Fraction(a)) == float(b))
                      for a, b in zip(m["marks"], real["marks"])))
        chk.count("detheap_structure", "agrees" if ok else "differs")
        if ok:
            chk.branch("heap-structure-compared")
    # branch counters (from the model's heap, which the answers above were compared through)
    chk.branch("heap")
    chk.branch("heap-bs" if d["k"] == "bs" else "heap-interleaved")
    prev = {"cells": [0], "keys": [[]], "marks": [None]}
    writer = {}
    for i, st in enumerate(steps):
        m = msteps[i]
        o = st[1]
        if st[0] == "copy":
            chk.branch("heap-copy")
            if not any(s2[0] == "detect" and s2[3] >= 2 for s2 in steps[:i]):
                chk.branch("heap-copy-before-first-detect")
            if o > 0:
                chk.branch("heap-copy-of-copy")
            if i > 0 and prev["keys"][o] == [] and prev["marks"][o] is not None:
                chk.branch("heap-copy-of-emptied-dictionary")
        elif st[0] == "clear":
            if prev["cells"].count(prev["cells"][o]) > 1:
                chk.branch("heap-unshare-on-clear")
        elif st[3] >= 2 and d["k"] in ("bs", "ppnr") and not (d["k"] == "ppnr" and d["w"] == 1):
            n = st[3]
            rebound = m["cells"][o] != prev["cells"][o]
            if rebound and prev["cells"].count(prev["cells"][o]) > 1:
                chk.branch("heap-unshare-on-sync")
            if not rebound and n in prev["keys"][o]:
                if writer.get((m["cells"][o], n), o) != o:
                    chk.branch("heap-hit-on-entry-written-by-another-object")
            else:
                writer[(m["cells"][o], n)] = o
                if any(j != o and m["cells"][j] == m["cells"][o] for j in range(len(m["cells"]))):
                    chk.branch("heap-write-seen-by-sharer")
        prev = m
    chk.case(("detheap", json.dumps(d, sort_keys=True), json.dumps(steps)), nontrivial=True,
             sample={"detector": d, "steps": steps[:6]})
    return None


def detheap_cases(chk):
    rng = chk.rng
    out = []
    for d, n, n2, q in [({"k": "bs", "L": 2, "r": [1, 2]}, 3, 2, [1, 20]), ({"k": "bs", "L": 1, "r": [9, 25]}, 2, 3, [1, 5]),
                        ({"k": "ppnr", "w": 4, "max": 3}, 3, 4, [1, 5]), ({"k": "ppnr", "w": 3, "max": None}, 4, 5, [1, 20])]:
        steps = [["detect", 0, q, n], ["copy", 0], ["detect", 1, q, n2], ["detect", 0, q, n2], ["detect", 1, None, n],
                 ["detect", 0, q, n], ["copy", 1], ["detect", 2, None, n2], ["detect", 1, q, n2], ["detect", 2, None, n]]
        if d["k"] == "bs":
            # clear_cache() leaves an EMPTY dictionary with the marker still set; a copy taken now shares it
            steps += [["clear", 2], ["copy", 2], ["detect", 2, q, n], ["detect", 3, None, n], ["detect", 1, None, n2],
                      ["detect", 2, q, n], ["detect", 2, None, n]]
        out.append({"det": d, "steps": steps})
        # a copy taken BEFORE the first detect: both objects still carry _cache_min_p = None and share the initial dictionary
        out.append({"det": d, "steps": [["copy", 0], ["detect", 0, q, n], ["detect", 1, None, n], ["detect", 0, q, n],
                                        ["copy", 1], ["detect", 2, q, n], ["detect", 1, None, n]]})
    for t in range(chk.pick(30, 250)):
        d = gen_det(rng, rng.choice(["interleaved", "bs"]))
        if d["k"] == "ppnr" and d["w"] == 1:
            continue
        ns = rng.sample([2, 3, 4] if d["k"] == "bs" else [2, 3, 4, 5], 2)
        cuts = []
        for n in ns:
            vals = [v for v in dethist_cut_values(d, n) if v > 0]
            for a, b in zip([Fraction(0)] + vals, vals):
                cuts.append((a + b) / 2)
        cuts = [c for c in cuts if c > 0]
        qs = [None] + [[c.numerator, c.denominator] for c in rng.sample(cuts, min(len(cuts), 2))]
        steps = [["detect", 0, copy.deepcopy(rng.choice(qs)), ns[0]], ["copy", 0]]
        if rng.random() < 0.35:
            steps.reverse()
        k = 2
        for _ in range(rng.randint(4, 10)):
            x = rng.random()
            o = rng.randrange(k)
            if x < 0.1 and d["k"] == "bs":
                steps.append(["clear", o])
            elif x < 0.25 and k < 4:
                steps.append(["copy", o])
                k += 1
            else:
                steps.append(["detect", o, copy.deepcopy(rng.choice(qs)), rng.choice(ns + ns + [rng.choice([0, 1])])])
        for o in range(k):
            steps.append(["detect", o, None, ns[0]])
        out.append({"det": d, "steps": steps})
    return out


def dispatch(chk, kind, case):
    if kind == "detheap":
        return run_detheap_case(chk, case)
    if kind == "detect":
        return run_detect_case(chk, case)
    if kind == "bs":
        return run_bs_case(chk, case)
    if kind == "bscirc":
        return run_bscirc_case(chk, case)
    if kind == "dtype":
        return run_dtype_case(chk, case["dets"], case.get("none_arg", False))
    if kind == "heralds":
        return run_heralds_case(chk, case)
    if kind == "proc":
        return run_proc_case(chk, case)
    if kind == "detsession":
        return run_detsession_case(chk, case)
    if kind == "hproc":
        return run_hproc_case(chk, case)
    if kind == "simsession":
        return run_simsession_case(chk, case)
    if kind == "hprocsample":
        return run_hprocsample_case(chk, case)
    if kind == "sample":
        return run_sample_case(chk, case)
    if kind == "procsample":
        return run_procsample_case(chk, case)
    if kind == "simthr":
        return run_simthr_case(chk, case)
    if kind == "sampleminp":
        return run_sampleminp_case(chk, case)
    if kind == "dethist":
        return run_dethist_case(chk, case)
    if kind == "mix":
        if case.get("via") == "processor" and case.get("members") is None:
            case = dict(case, members=processor_members(case))
            if case["members"] is None:
                return None
        return run_mix_case(chk, case)
    raise ValueError(kind)


def setup(chk):
    from perceval.utils.logging import get_logger, channel, level
    get_logger().set_level(level.off, channel.user)
    get_logger().set_level(level.off, channel.general)
    chk.lean = core.LeanDriver("C08")


def run(chk: core.Check):
    setup(chk)
    chk.rule = ("exhaustive (wires, max, photons) box of Detector.detect on long-lived and fresh instances; "
                "BSLayeredPPNR over (layers, reflectivity, photons); BSLayeredPPNR.create_circuit() over layers 1..3 x 12 "
                "reflectivities (path weights) and 6-8 Pythagorean reflectivities (exact unitary, Fock law of |n,0..0>); "
                "every detector list over a 7-letter alphabet up to "
                "length 3/4 for get_detection_type; simulate_detectors over every per-mode mixture of "
                "{none, pnr, threshold, interleaved, bs-tree} for m<=2/3 plus random m<=4, every filter 0..n+1/None; "
                "Processor.probs() with detectors; one detector instance through histories mixing detect / filtered one-mode "
                "simulate_detectors / one-mode Processor.probs(); Processor.probs() and Processor.samples() with heralds "
                "(0/1) on modes read by none/PNR/threshold/interleaved/tree detectors, filter, post-selection; one Simulator "
                "through probs_svd with sequences of detector lists (mask on/off) and heralds up to 2; "
                "simulate_detectors_sample and Processor.samples() draws against the support of "
                "the kernel product; simulate_detectors at prob_threshold in {0, 1e-12..0.5} and min_p in {1e-16, 1e-9..0.9} "
                "(general branch m<=4, uniform lists, one mode, exact ties), BSLayeredPPNR.detect and simulate_detectors_sample at "
                "changed min_p; probs_svd on mixtures of 2-6 Fock members (photons lost, vacuum, unrelated states) with heralds, "
                "filter, post-selection, precision in {0, 1e-3..0.5}, and Processor.probs() with brightness 0.3..0.9. "
                "All-PNR mixtures at precision 0.003..0.9: physical_perf*logical_perf*results against the weighted sum of the kept "
                "members' theoretical probabilities. "
                "One interleaved / beam-splitter-tree instance through 4-12 operations: detect(n) at the shipped min_p and at "
                "cut-offs between the probabilities the code compares with min_p, clear_cache(), copy(), back to the original. "
                "The family of copies of one interleaved / tree detector (up to 4 objects) through 10-20 operations "
                "obj_i.detect(n) at changing min_p / obj_i.copy() / obj_i.clear_cache(): every answer against the exact oracle at "
                "the current min_p and against the heap model (op heap); aliasing structure against the model, counted. "
                "distinct = distinct (detector, photons) / (kinds, states, filter) "
                "signatures; non-trivial = a multi-wire or tree detector hit by >=2 photons, resp. a non-PNR list on a "
                "distribution with a >=2-photon state")
    chk.assumptions = [
        "SLOSBackend.prob_distribution() implements the Fock amplitude specification |perm(U[t|s])|^2/(prod s! prod t!) "
        "on BSLayeredPPNR.create_circuit() (external exqalibur kernel, the subject of C02); GIVEN the specification the "
        "multinomial leaf law treeOcc is a theorem (bsTree_leaf_law_from_fock) about the model of create_circuit(), which is "
        "compared with the real compute_unitary() and the real backend distribution on every run",
        "exact comparison of compute_unitary() needs rational beam-splitter amplitudes: done for the Pythagorean "
        "reflectivities (a/h)^2; for the other reflectivities only the first-column moduli (path weights) are compared",
        "global min_p = 1e-16: ProbabilityDistribution.add drops contributions <= min_p; the model does the same; "
        "exact laws are stated for min_p <= 0; for min_p >= 0 the deviation of phys_perf, of the retained mass and of the "
        "(un-)normalised result is bounded by theorems (min_p per add call), and min_p is also exercised at changed values",
        "prob_threshold > 0 / changed min_p: model and implementation are compared exactly unless an order comparison of the "
        "code's algorithm (re-run in exact arithmetic) is closer than 1e-9 relative (1e-7 for the mixed-input path), where the "
        "float result is not determined; such cases are skipped and counted (none met so far); exact ties are exercised "
        "with dyadic numbers only; the proved intervals are evaluated with slacks computed in Python (an upper estimate of "
        "the model's)",
        "mixed inputs: members are un-annotated Fock states; their theoretical distributions are taken from the SLOS backend "
        "(floats read as exact rationals); the oracle (mixture of per-member conditioned laws) is evaluated at precision 0, "
        "cases with precision > 0 are compared with the model only",
        "histories with a changing min_p: the oracle is the exact 'kept iff above the CURRENT min_p' law in Fractions; histories "
        "in which a compared probability is closer than 1e-9 relative to a min_p value are skipped and counted; in the single-instance "
        "histories copy() is judged by the oracle; in the copy-family histories (detheap) copy() is an operation of the heap model "
        "(Model/C08Copy.lean) and the model's aliasing structure (which objects share a dictionary, _cache_min_p, stored photon "
        "counts) is compared with the private attributes of the real objects where they exist: that comparison is COUNTED "
        "(detheap_structure), not an alarm, since a value-preserving rewrite may change the aliasing",
        "simulate_detectors_sample at a changed min_p with an EMPTY per-mode dictionary follows the characterised restart rule "
        "(sample_restarts_after_empty_kernel); this is a quirk at min_p >= 1/(number of readings), not reported as a defect",
        "the all-PNR branch of simulate_detectors returns its input without applying the photon filter "
        "(callers filter upstream); modelled as coded",
        "simulate_detectors_sample / Processor.samples(): only membership of every draw in the support of the proved law "
        "is decided; agreement of the drawn frequencies with the law is a 6-sigma statistical TEST, not a proof",
        "heralded cases: the theoretical distribution is the one the same circuit gives through a detector-free, herald-free "
        "Processor (SLOS, precision 0); perfect source, one Fock input state; photon filter <= photons outside the heralds; "
        "herald incompatible with its detector (value > max_detections): probs_svd returns early with physical_perf = 1 "
        "(as coded; compared with the model of the whole tail, not with the oracle); logical_perf is compared with the exact "
        "oracle and with the model (probsSvd)",
        "Processor.samples() with heralds: support membership is decided, frequencies are a 6-sigma statistical TEST; cases whose "
        "acceptance probability is below 3% are skipped",
    ]
    chk.required_branches = ["ppnr-fold", "ppnr-nofold", "more-photons-than-wires", "threshold", "pnr", "cache-hit",
                             "minp-trim", "bs-tree", "bs-unbalanced", "bs-cache-hit", "bs-leaf-law", "rejected",
                             "bscirc-weights", "bscirc-with-perm", "bscirc-unitary", "bscirc-fock-law", "bscirc-bunched-leaf",
                             "dtype-PNR", "dtype-Threshold", "dtype-PPNR", "dtype-Mixed",
                             "heralds-ok", "heralds-incompatible",
                             "sim-pnr-branch", "sim-threshold-branch", "sim-general-branch", "sim-mixed-kinds",
                             "sim-empty-dist", "filter-drop", "filter-all-dropped", "processor-glue",
                             "sample-pnr", "sample-threshold", "sample-general", "sample-general-with-none",
                             "sample-frequency-test", "processor-samples",
                             # heralds / post-selection read on the detector readings (Processor.probs, Simulator.probs_svd)
                             "processor-heralds", "proc-herald-on-pnr", "proc-herald-on-threshold", "proc-herald-on-ppnr",
                             "proc-herald-ppnr-bunched", "proc-herald-zero", "proc-mask-path", "proc-postselect",
                             "proc-requery", "simulator-session", "sim-herald-on-ppnr", "sim-herald-ppnr-bunched",
                             "proc-herald-saturated", "sim-herald-saturated", "sim-herald-incompatible", "sim-mask-path",
                             "session-mask-then-imperfect", "session-imperfect-then-mask",
                             "model-mask-on", "model-mask-off", "model-full-tail", "model-full-tail-postselect",
                             "model-full-tail-heralds-removed", "model-full-tail-incompatible",
                             "detector-session", "session-one-mode-sim", "session-filter-rejects-reading",
                             "session-detect-after-filtered-sim",
                             "processor-samples-heralds", "hprocsample-frequency-test", "smp-herald-on-ppnr",
                             "smp-herald-ppnr-bunched", "smp-herald-on-threshold",
                             # prob_threshold > 0 / min_p > 0
                             "thr-dropped", "thr-bound-checked", "thr-bound-tight", "thr-uniform-ignored",
                             "thr-one-mode-untouched", "thr-exact-tie", "minp-changed", "minp-kernel-dropped",
                             "minp-add-dropped", "sample-minp-guard-holds", "sample-minp-empty-kernel",
                             "sample-minp-nothing-left", "sample-minp-frequency-test", "bs-minp-changed",
                             "bs-minp-leaf-dropped",
                             # mixed inputs through the detector path
                             "mix-model", "mix-mask-path", "mix-imperfect-detectors", "mix-member-dropped",
                             "mix-member-below-filter", "mix-vacuum-member", "mix-photon-numbers-differ",
                             "mix-threshold-from-precision", "mix-postselect", "mix-heralds", "mix-via-processor",
                             "mix-pnr-law-at-precision", "mix-pnr-law-member-trimmed",
                             # one instance through detect calls at changing min_p
                             "dethist", "dethist-bs", "dethist-interleaved", "dethist-clear", "dethist-copy",
                             "dethist-stale-would-differ", "dethist-minp-lowered", "dethist-minp-raised",
                             # the family of copies of one detector (copy() as a model operation)
                             "heap", "heap-bs", "heap-interleaved", "heap-copy", "heap-copy-of-copy",
                             "heap-copy-before-first-detect", "heap-copy-of-emptied-dictionary",
                             "heap-unshare-on-sync", "heap-unshare-on-clear", "heap-write-seen-by-sharer",
                             "heap-hit-on-entry-written-by-another-object"]
    rng = chk.rng
    for kind, case in load_corpus():
        if kind == "sim":
            handle_sim(chk, case)
        else:
            r = dispatch(chk, kind, case)
            if r is not None:
                chk.fail(r[0], r[1], r[2], {"kind": kind, "case": r[3]})

    def go(kind, cases):
        for case in cases:
            r = dispatch(chk, kind, case)
            if r is not None:
                rp = r[3]
                if kind in ("hproc", "simsession"):
                    rp = shrink_heralded(chk, kind, rp, r[1])
                chk.fail(r[0], r[1], r[2], {"kind": kind, "case": rp})

    go("detect", detect_cases(chk))
    go("bs", bs_cases(chk))
    go("bscirc", bscirc_cases(chk))
    # get_detection_type: exhaustive over short lists
    for ln in range(0, chk.pick(3, 4) + 1):
        for dets in itertools.product(ALPHABET, repeat=ln):
            r = run_dtype_case(chk, list(dets))
            if r is not None:
                chk.fail(r[0], r[1], r[2], {"kind": "dtype", "case": r[3]})
    r = run_dtype_case(chk, [], use_none_arg=True)
    if r is not None:
        chk.fail(r[0], r[1], r[2], {"kind": "dtype", "case": {"dets": [], "none_arg": True}})
    # check_heralds_detectors
    hcases = []
    for _ in range(chk.pick(150, 1500)):
        m = rng.randint(1, 4)
        dets = [rng.choice(ALPHABET + [{"k": "ppnr", "w": 24, "max": 2}, {"k": "bs", "L": 2, "r": [1, 2]}]) for _ in range(m)]
        modes = rng.sample(range(m), rng.randint(0, m))
        hcases.append({"dets": dets, "heralds": [[k, rng.choice([0, 1, 1, 2, 3, 4, 5, 14])] for k in modes]})
    hcases.append({"dets": [], "heralds": [[0, 3]]})
    go("heralds", hcases)
    for case in sim_cases(chk):
        handle_sim(chk, case)
    go("detsession", detsession_cases(chk))
    go("proc", proc_cases(chk))
    go("hproc", hproc_cases(chk))
    go("simsession", simsession_cases(chk))
    go("sample", sample_cases(chk))
    go("procsample", procsample_cases(chk))
    go("hprocsample", hprocsample_cases(chk))
    go("simthr", simthr_cases(chk))
    go("sampleminp", sampleminp_cases(chk))
    go("mix", mix_cases(chk))
    go("dethist", dethist_cases(chk))
    go("detheap", detheap_cases(chk))
    chk.exhaustive = False
    chk.extra["exhaustive_parts"] = {
        "Detector.detect": f"all 0<=max<=w<={chk.pick(8, 14)} and max=None, n<={chk.pick(10, 18)}",
        "get_detection_type": f"all lists of length <= {chk.pick(3, 4)} over 7 detector kinds",
        "simulate_detectors kinds": f"all per-mode mixtures of 5 kinds for m<={chk.pick(2, 3)}",
    }


def load_corpus():
    out = []
    for p in sorted(glob.glob(os.path.join(core.VERIF, "corpus", "C08", "*.json"))):
        d = json.load(open(p))
        out.append((d["kind"], d["case"]))
    return out


def replay(chk, data):
    setup(chk)
    chk.rule = "replay of one stored case"
    rp = data["replay"]
    if rp["kind"] == "sim":
        handle_sim(chk, rp["case"])
    else:
        r = dispatch(chk, rp["kind"], rp["case"])
        if r is not None:
            chk.fail(r[0], r[1], r[2], {"kind": rp["kind"], "case": r[3]})
