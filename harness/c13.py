"""C13 — polarisation-aware simulation equals spatial simulation on doubled modes.

Correspondence (model: `lean/PercevalModel/Model/C13.lean`, driver `lean/Driver/C13.lean`):

* `compute_unitary(use_polarization=None|True|False)` of circuits mixing WP/HWP/QWP/PR/PBS/polarised
  `Unitary` with ordinary components (nested sub-circuits, merged or not) against the doubled model;
* `convert_polarized_state(bs)` (spatial input exactly, preparation matrix numerically);
* `SimulatorFactory.build(c, SLOS|Naive).probs(bs)` and `Processor.with_polarized_input(bs)` + `probs()`
  against the exact Fock-space distribution of `upol · prep` on the prepared input, sub-modes merged;
* `POLARIZATION_MAPPING` / `Polarization(label).project_eh_ev()` against the label table;
* *sessions*: ONE long-lived object (the simulator of `SimulatorFactory.build`, or a `Processor`) serving a
  history of requests — `probs` / `probs_svd` / `evolve` (merged |amplitude|²) with changing inputs (an all-H
  input after a prepared one, the same input again, the vacuum, a rejected input), the circuit replaced
  (`set_circuit`), extended (`add`) or re-tuned in place (`Parameter.set_value`) in between — against the
  model's state machine `sessionStep` run over the same history (proved equal to the stateless answer:
  `session_refines_stateless`, `session_history_independent`); a reply that is wrong in the session but
  right on a fresh object is reported as `answer-depends-on-history`.

* *state-vector path*: `SimulatorFactory.build(c).evolve(bs)` — every output state's amplitude (against the exact
  permanent of `upol · prep` divided by √(∏s!∏t!)) and its P:H / P:V annotations per mode (`polSV`), also after a
  `probs` on the same object and with heralds / post-selection set on the layer (`selectSV`, heralded modes kept);
  evolve queries inside sessions are compared on amplitudes too;
* `convert_polarized_state(bs, use_symbolic, inverse)`: spatial input and matrix against `modeBlockX` (numeric and
  sympy branch; the symbolic branch accepts a second polarisation only if exactly orthogonal); `inverse=True` checked
  directly to be the inverse of the plain matrix;
* *selection*: heralds / post-selection / `min_detected_photons_filter` / detectors on a polarised `Processor`
  (`with_polarized_input` + `probs`) and on `SimulatorFactory.build(c)` + `set_selection` + `probs_svd`, against the
  model's pipeline `polProbs` (= the C04 conditioning specification of the polarised distribution, theorem
  `polarised_selection_spec`) — results and both performances; direct oracle: the documented conditioning applied in
  numpy to the doubled-mode distribution.

* *one component of every class* (BS, PS, PERM, Unitary, Barrier, WP, HWP, QWP, PR, PBS, polarised Unitary) ×
  `compute_unitary(use_polarization=None|True|False)` against `leafUnitary` (`leaf_compute_unitary_resolve / _table`);
* *Processor input bookkeeping*: ONE `Processor` serving a history of `with_input` / `with_polarized_input` /
  `noise = …` / `min_detected_photons_filter` / `clear_input_and_circuit` / `probs()`; after every `probs()` the cached
  `source_distribution` and the photon filter are compared with the model's machine `procStep` (terms evaluated on the
  real code: a fresh `Source` of the noise in force, `SVDistribution(bs)`), and the reply with the polarised simulation
  of the input in force (`proc_refines_stateless`, `proc_polarised_input_exact`).

* *shared component objects* (extension 4): `Circuit.add` stores the object itself; circuits built from a pool of
  long-lived objects held several times (two ranges of one circuit, the same range twice, inside and outside a
  sub-circuit, shared sub-circuits merged or not, `add` / `//` / `@`) through every entry point above, the shared object
  re-tuned in place between two evaluations of the long-lived circuit / simulator / Processor.  The model gets the
  sub-tree once per occurrence (object identity is irrelevant for `unitaryOfPol`).

The native `BasicState` keeps annotation angles in single precision, so the Jones angles are read
*back* from the constructed state; their cos/sin (float64, external functions of the model) are sent
to Lean as exact dyadic rationals.  Leaf matrices of ordinary components come from each leaf's own
`compute_unitary()` (their correctness is C14); the matrices of WP/PR/PBS are the model's.
"""
from __future__ import annotations

import copy
import glob
import itertools
import json
import math
import os
import threading
from fractions import Fraction

import numpy as np

from . import core, gens

LABELS = ["H", "V", "D", "A", "L", "R"]
ORTHO = {"H": "V", "V": "H", "D": "A", "A": "D", "L": "R", "R": "L"}
POL_KINDS = ("WP", "HWP", "QWP", "PR", "PBS", "PU", "PUH")
ANGLE_TOL = 5e-7      # float32 rounding of an angle in [0, 2π): relative 2^-24 → ≤ 3.8e-7


# ------------------------------------------------------------------------------------------------
# specs
# ------------------------------------------------------------------------------------------------
def gen_pol_leaf(rng, maxw):
    ks = ["WP", "WP", "HWP", "QWP", "PR", "PR", "PU", "PUH"]
    if maxw >= 2:
        ks += ["PBS", "PBS", "PU"]
    k = rng.choice(ks)
    if k == "WP":
        return {"t": "WP", "d": gens.gen_cs(rng), "x2": gens.gen_cs(rng)}
    if k in ("HWP", "QWP"):
        return {"t": k, "x2": gens.gen_cs(rng)}
    if k == "PR":
        return {"t": "PR", "d": gens.gen_cs(rng)}
    if k == "PBS":
        return {"t": "PBS"}
    w = rng.randint(1, min(2, maxw))
    if k == "PU":
        return {"t": "PU", "k": w, "rows": gens.qmat_json(gens.cayley_unitary(rng, 2 * w))}
    return {"t": "PUH", "k": w, "seed": rng.randrange(1 << 30)}


def leaf_width(spec):
    t = spec["t"]
    if t in ("WP", "HWP", "QWP", "PR"):
        return 1
    if t == "PBS":
        return 2
    if t in ("PU", "PUH"):
        return spec["k"]
    return gens.leaf_width(spec)


def is_pol(spec):
    return spec["t"] in POL_KINDS


def gen_leaf(rng, maxw, p_pol):
    if rng.random() < p_pol:
        return gen_pol_leaf(rng, maxw)
    return gens.gen_leaf(rng, maxw)


def gen_tree(rng, m, depth, max_ops, p_pol=0.45):
    ops = []
    for _ in range(rng.randint(1, max_ops)):
        if depth > 0 and m >= 2 and rng.random() < 0.3:
            k = rng.randint(1, m)
            # some sub-circuits purely ordinary (Circuit.compute_unitary(use_polarization=True) on a
            # circuit that does not itself require polarisation), some polarised
            sub = gen_tree(rng, k, depth - 1, max(1, max_ops // 2), p_pol=rng.choice([0.0, 0.6]))
            width = k
        else:
            leaf = gen_leaf(rng, m, p_pol)
            sub = {"leaf": leaf}
            width = leaf_width(leaf)
        ops.append({"off": rng.randint(0, m - width), "c": sub, "merge": rng.choice([None, True, False])})
    return {"circ": m, "ops": ops}


def requires(tree):
    if "leaf" in tree:
        return is_pol(tree["leaf"])
    return any(requires(op["c"]) for op in tree["ops"])


def has_empty(tree):
    if "leaf" in tree:
        return False
    return not tree["ops"] or any(has_empty(op["c"]) for op in tree["ops"])


def force_polarised(rng, tree):
    """make sure the circuit contains a polarising component (the simulator layer is chosen on it)"""
    if requires(tree):
        return tree
    if "leaf" in tree:
        return {"leaf": gen_pol_leaf(rng, 1)}
    m = tree["circ"]
    leaf = gen_pol_leaf(rng, m)
    tree["ops"].insert(rng.randint(0, len(tree["ops"])),
                       {"off": rng.randint(0, m - leaf_width(leaf)), "c": {"leaf": leaf}, "merge": None})
    return tree


def tree_size(tree):
    return leaf_width(tree["leaf"]) if "leaf" in tree else tree["circ"]


# ------------------------------------------------------------------------------------------------
# building the real objects + the Lean request
# ------------------------------------------------------------------------------------------------
def half(j):
    """angle/2 from (cos, sin) of the full angle"""
    return gens.cs_angle(j) / 2


VAR_KINDS = ("WP", "HWP", "QWP", "PR", "PS")


def var_values(spec):
    """{parameter suffix: value} of a variable leaf (angles the user would pass to set_value)"""
    t = spec["t"]
    if t == "WP":
        return {"d": gens.cs_angle(spec["d"]), "x": half(spec["x2"])}
    if t in ("HWP", "QWP"):
        return {"x": half(spec["x2"])}
    if t == "PR":
        return {"d": gens.cs_angle(spec["d"])}
    if t == "PS":
        return {"p": gens.cs_angle(spec["phi"])}
    raise ValueError(t)


def build_leaf(spec, reg=None):
    """-> (perceval component, lean json).  With a registry `reg` (long-lived objects of a session) a leaf marked
    `var` is built on named `Parameter`s whose values are set afterwards (and may be re-set later)."""
    import perceval as pcvl
    from perceval.components import WP, HWP, QWP, PR, PBS, PS, Unitary
    t = spec["t"]
    par = None
    if reg is not None and spec.get("var") and t in VAR_KINDS:
        tag = "v%d" % len(reg)
        par = {k: pcvl.P(k + tag) for k in var_values(spec)}
        for k, v in var_values(spec).items():
            par[k].set_value(v)
        reg[tag] = par
        spec["tag"] = tag
    if t == "WP":
        delta, xsi = gens.cs_angle(spec["d"]), half(spec["x2"])
        obj = WP(par["d"], par["x"]) if par else WP(delta, xsi)
        return obj, {"wp": [spec["d"][0], spec["d"][1], spec["x2"][0], spec["x2"][1]]}
    if t in ("HWP", "QWP"):
        import sympy as sp
        d = float(sp.pi / 2) if t == "HWP" else float(sp.pi / 4)
        x = par["x"] if par else half(spec["x2"])
        obj = HWP(x) if t == "HWP" else QWP(x)
        return obj, {"wp": [core.rat(math.cos(d)), core.rat(math.sin(d)), spec["x2"][0], spec["x2"][1]]}
    if t == "PR":
        return PR(par["d"] if par else gens.cs_angle(spec["d"])), {"pr": [spec["d"][0], spec["d"][1]]}
    if t == "PBS":
        return PBS(), {"pbs": True}
    if t == "PU":
        u = gens.qmat_to_np(gens.qmat_from_json(spec["rows"]))
        return Unitary(pcvl.Matrix(u), use_polarization=True), {"pol": spec["k"], "U": core.mat(u.tolist())}
    if t == "PUH":
        u = gens.haar(2 * spec["k"], spec["seed"])
        return Unitary(pcvl.Matrix(u), use_polarization=True), {"pol": spec["k"], "U": core.mat(u.tolist())}
    if t == "PS" and par:
        obj = PS(par["p"])
        return obj, {"plain": 1, "U": gens.leaf_matrix_json(gens.build_leaf(spec))}
    obj = gens.build_leaf(spec)
    return obj, {"plain": obj.m, "U": gens.leaf_matrix_json(obj)}


def strip_tags(node):
    if isinstance(node, dict):
        return {k: strip_tags(v) for k, v in node.items() if k != "tag"}
    if isinstance(node, list):
        return [strip_tags(v) for v in node]
    return node


def copy_tags(src, dst):
    """parameter tags of the long-lived objects, from the first occurrence of a shared object to another one"""
    if "leaf" in src:
        if "tag" in src["leaf"]:
            dst["leaf"]["tag"] = src["leaf"]["tag"]
        return
    for a, b in zip(src["ops"], dst["ops"]):
        copy_tags(a["c"], b["c"])


def build(tree, reg=None, shared=None):
    """-> (perceval circuit/component, lean tree json).  Raises what the real API raises.

    A node carrying `"share": key` is ONE Python object: the first occurrence builds it, every other occurrence of the
    key (same spec) adds that very object again (`Circuit.add` stores the object itself).  The model is a tree of
    leaves, object identity is irrelevant for the matrix: it gets the sub-tree once per occurrence.
    `op["via"]`: the operator the component is added with (`//` = add(merge=True) on a shallow copy, `@` = barrier
    then `//`; default `Circuit.add`)."""
    import perceval as pcvl
    if shared is None:
        shared = {}
    key = tree.get("share")
    if key is not None and key in shared:
        obj, lj, first = shared[key]
        if strip_tags(first) != strip_tags(tree):
            raise ValueError("harness: occurrences of shared object %r have different specs" % key)
        copy_tags(first, tree)
        return obj, lj
    if "leaf" in tree:
        obj, lj = build_leaf(tree["leaf"], reg)
    else:
        obj = pcvl.Circuit(tree["circ"])
        items = []
        for op in tree["ops"]:
            sub, lsub = build(op["c"], reg, shared)
            via = op.get("via")
            if via == "//":
                obj = obj // (op["off"], sub)
            elif via == "@":
                obj = obj @ (op["off"], sub)
                items.append({"off": 0, "c": {"plain": tree["circ"],
                                              "U": core.mat(np.eye(tree["circ"], dtype=complex).tolist())}})
            elif op["merge"] is None:
                obj.add(op["off"], sub)
            else:
                obj.add(op["off"], sub, merge=op["merge"])
            items.append({"off": op["off"], "c": lsub})
        lj = {"circ": tree["circ"], "items": items}
    if key is not None:
        shared[key] = (obj, lj, tree)
    return obj, lj


# ------------------------------------------------------------------------------------------------
# polarised inputs
# ------------------------------------------------------------------------------------------------
def gen_ell(rng):
    """elliptical Jones vector (a/c, (b/c)·(p+iq)/r): half-angle (cos, sin) > 0 and a phase"""
    a, b, c = rng.choice(core.TRIPLES)
    if rng.random() < 0.5:
        a, b = b, a
    return {"k": "ell", "h": [core.rat(Fraction(a, c)), core.rat(Fraction(b, c))], "ph": gens.gen_cs(rng, True)}


def ell_angles(v, ortho=False):
    th = 2 * math.atan2(float(Fraction(v["h"][1])), float(Fraction(v["h"][0])))
    ph = gens.cs_angle(v["ph"]) % (2 * math.pi)
    if ortho:
        th, ph = math.pi - th, (ph + math.pi) % (2 * math.pi)
    return th, ph


def pol_text(v, ortho=False):
    if v["k"] == "label":
        return "{P:%s}" % (ORTHO[v["l"]] if ortho else v["l"])
    th, ph = ell_angles(v, ortho)
    return "{P:(%r,%r)}" % (th, ph)


def gen_pol(rng):
    if rng.random() < 0.4:
        return {"k": "label", "l": rng.choice(LABELS)}
    return gen_ell(rng)


def gen_mode(rng, budget, malformed):
    """content of one spatial mode: {'kind': vac|plain|one|two|nonorth|three, ...}"""
    if budget == 0 or rng.random() < 0.3:
        return {"kind": "vac"}
    if malformed and budget >= 2:
        if budget >= 3 and rng.random() < 0.4:
            return {"kind": "three", "v": gen_pol(rng), "w": gen_ell(rng)}
        return {"kind": "nonorth", "v": gen_pol(rng), "w": gen_ell(rng)}
    r = rng.random()
    if r < 0.08:
        return {"kind": "plain", "n": rng.randint(1, min(2, budget))}
    if r < 0.55 or budget < 2:
        return {"kind": "one", "v": gen_pol(rng), "n": rng.randint(1, min(2, budget))}
    n1 = rng.randint(1, budget - 1)
    n2 = rng.randint(1, min(2, budget - n1))
    return {"kind": "two", "v": gen_pol(rng), "n1": min(n1, 2), "n2": n2}


def mode_text(md):
    k = md["kind"]
    if k == "vac":
        return "0"
    if k == "plain":
        return str(md["n"])
    if k == "one":
        return pol_text(md["v"]) * md["n"]
    if k == "two":
        return pol_text(md["v"]) * md["n1"] + pol_text(md["v"], True) * md["n2"]
    if k == "nonorth":
        return pol_text(md["v"]) + pol_text(md["w"])
    if k == "three":
        return pol_text(md["v"]) + pol_text(md["v"], True) + pol_text(md["w"])
    raise ValueError(k)


def mode_count(md):
    return {"vac": 0, "plain": md.get("n"), "one": md.get("n"), "two": md.get("n1", 0) + md.get("n2", 0),
            "nonorth": 2, "three": 3}[md["kind"]]


def gen_input(rng, m, nmax, malformed=False, vacuum=False):
    if vacuum:
        return [{"kind": "vac"} for _ in range(m)]
    for _ in range(50):
        modes = []
        budget = nmax
        bad_at = rng.randrange(m) if malformed else None
        for k in range(m):
            md = gen_mode(rng, budget, malformed and k == bad_at)
            budget -= mode_count(md)
            modes.append(md)
        if sum(mode_count(md) for md in modes) == 0:
            continue
        if malformed and not any(md["kind"] in ("nonorth", "three") for md in modes):
            continue
        return modes
    return [{"kind": "one", "v": {"k": "label", "l": "D"}, "n": 1}] + [{"kind": "vac"}] * (m - 1)


def state_text(modes):
    return "|" + ",".join(mode_text(md) for md in modes) + ">"


def read_back(bs):
    """per spatial mode: the photons' (θ, φ) as stored by the native state, in the native order"""
    out = []
    idx = 0
    for k in range(bs.m):
        ph = []
        for _ in range(bs[k]):
            z = bs.get_photon_annotation(idx).get("P", 0j)
            idx += 1
            ph.append((float(z.real), float(z.imag)))
        out.append(ph)
    return out


def trig4(th, ph):
    return [float(np.cos(th / 2)), float(np.sin(th / 2)), float(np.cos(ph)), float(np.sin(ph))]


def lean_modes(angles):
    return [[[core.rat(x) for x in trig4(th, ph)] for th, ph in mode] for mode in angles]


def intended_angles(modes, label_turns):
    """multiset of intended (θ, φ) per mode (for the single-precision read-back check)"""
    def ang(v, ortho=False):
        if v["k"] == "label":
            a, b = label_turns[ORTHO[v["l"]] if ortho else v["l"]]
            return a * math.pi / 2, b * math.pi / 2
        return ell_angles(v, ortho)
    out = []
    for md in modes:
        k = md["kind"]
        if k in ("vac",):
            out.append([])
        elif k == "plain":
            out.append([(0.0, 0.0)] * md["n"])
        elif k == "one":
            out.append([ang(md["v"])] * md["n"])
        elif k == "two":
            out.append([ang(md["v"])] * md["n1"] + [ang(md["v"], True)] * md["n2"])
        elif k == "nonorth":
            out.append([ang(md["v"]), ang(md["w"])])
        else:
            out.append([ang(md["v"]), ang(md["v"], True), ang(md["w"])])
    return out


# ------------------------------------------------------------------------------------------------
# direct oracle on the implementation (numpy; the property statement itself)
# ------------------------------------------------------------------------------------------------
def np_double(u):
    m = u.shape[0]
    d = np.zeros((2 * m, 2 * m), dtype=complex)
    d[0::2, 0::2] = u
    d[1::2, 1::2] = u
    return d


def fr(x):
    return float(Fraction(x))


def oracle_doubled(lj):
    """2m × 2m matrix of the property statement from the Lean tree json"""
    if "plain" in lj:
        return np_double(np.array(core.unmat(lj["U"]), dtype=complex))
    if "pol" in lj:
        return np.array(core.unmat(lj["U"]), dtype=complex)
    if "wp" in lj:
        c, s, c2, s2 = (fr(x) for x in lj["wp"])
        return np.array([[c + 1j * s * c2, 1j * s * s2], [1j * s * s2, c - 1j * s * c2]])
    if "pr" in lj:
        c, s = (fr(x) for x in lj["pr"])
        return np.array([[c, s], [-s, c]], dtype=complex)
    if "pbs" in lj:
        return np.array([[0, 0, 1, 0], [0, 1, 0, 0], [1, 0, 0, 0], [0, 0, 0, 1]], dtype=complex)
    m = lj["circ"]
    u = np.eye(2 * m, dtype=complex)
    for it in lj["items"]:
        sub = oracle_doubled(it["c"])
        e = np.eye(2 * m, dtype=complex)
        o = 2 * it["off"]
        e[o:o + sub.shape[0], o:o + sub.shape[0]] = sub
        u = e @ u
    return u


def perm_bf(a):
    n = a.shape[0]
    if n == 0:
        return 1.0
    return sum(np.prod([a[i, p[i]] for i in range(n)]) for p in itertools.permutations(range(n)))


def fock_states(m, n):
    if m == 0:
        return [[]] if n == 0 else []
    return [[k] + r for k in range(n, -1, -1) for r in fock_states(m - 1, n - k)]


def oracle_probs(lj, angles):
    """-> ('ok', {merged state tuple: prob}) or ('inadmissible', reason)"""
    u = oracle_doubled(lj)
    m = u.shape[0] // 2
    prep = np.eye(2 * m, dtype=complex)
    s_in = []
    for k, mode in enumerate(angles):
        vecs, cnt = [], [0, 0]
        for th, ph in mode:
            c, s, p, q = trig4(th, ph)
            v = (c, (p + 1j * q) * s)
            hit = next((i for i, w in enumerate(vecs) if abs(w[0] - v[0]) + abs(w[1] - v[1]) < 1e-12), None)
            if hit is None:
                if len(vecs) == 2:
                    return "inadmissible", "more than two polarisations in a mode"
                if vecs and abs(np.conj(vecs[0][0]) * v[0] + np.conj(vecs[0][1]) * v[1]) > 1e-5:
                    return "inadmissible", "non-orthogonal polarisations in a mode"
                hit = len(vecs)
                vecs.append(v)
            cnt[hit] += 1
        s_in += cnt
        if vecs:
            v1 = vecs[0]
            v2 = vecs[1] if len(vecs) == 2 else (-np.conj(v1[1]), np.conj(v1[0]))
            prep[2 * k:2 * k + 2, 2 * k:2 * k + 2] = [[v1[0], v2[0]], [v1[1], v2[1]]]
    w = u @ prep
    n = sum(s_in)
    cols = [j for j, c in enumerate(s_in) for _ in range(c)]
    norm_in = np.prod([math.factorial(c) for c in s_in])
    out = {}
    for t in fock_states(2 * m, n):
        rows = [i for i, c in enumerate(t) for _ in range(c)]
        amp = perm_bf(w[np.ix_(rows, cols)])
        pr = abs(amp) ** 2 / (norm_in * np.prod([math.factorial(c) for c in t]))
        key = tuple(t[2 * i] + t[2 * i + 1] for i in range(m))
        out[key] = out.get(key, 0.0) + float(pr)
    return "ok", out


# ------------------------------------------------------------------------------------------------
# observation of the real code
# ------------------------------------------------------------------------------------------------
def exc(e):
    return {"err": type(e).__name__, "msg": str(e)[:160]}


def observe_unitary(case):
    retune = case.get("retune")
    try:
        work = copy.deepcopy(case["tree"])
        reg = {} if retune else None
        c, lj = build(work, reg)
    except Exception as e:
        return {"build_err": exc(e)}
    out = {"lean": lj}
    for f in case.get("pre", []):
        # the same circuit object was already asked for its matrix (other flags); replies are not cached
        try:
            c.compute_unitary() if f is None else c.compute_unitary(use_polarization=f)
        except Exception:
            pass
    if retune:
        # a long-lived circuit: parameters of (shared) component objects are set in place after an evaluation; the
        # model gets the tree of the values now in force (a fresh build of that spec)
        try:
            params = {p.name: p for p in c.get_parameters()} if hasattr(c, "get_parameters") else {}
            for rt in retune:
                tag = apply_retune(work, rt["path"], rt["leaf"])
                for key, v in var_values(rt["leaf"]).items():
                    params[key + tag].set_value(v)
            out["lean"] = build(strip_tags(work))[1]
        except Exception as e:
            return {"build_err": exc(e)}
    try:
        flag = case["flag"]
        u = c.compute_unitary() if flag is None else c.compute_unitary(use_polarization=flag)
        out["U"] = np.array(u, dtype=complex)
    except Exception as e:
        out.update(exc(e))
    return out


def observe_probs(case):
    import perceval as pcvl
    from perceval.utils import BasicState, convert_polarized_state
    from perceval.simulators import SimulatorFactory
    c, lj = build(case["tree"])
    bs = BasicState(state_text(case["modes"]))
    angles = read_back(bs)
    out = {"lean": lj, "angles": angles, "counts": list(bs)}
    try:
        sp_in, prep = convert_polarized_state(bs)
        out["conv"] = {"input": list(sp_in), "prep": None if prep is None else np.array(prep, dtype=complex)}
    except Exception as e:
        out["conv"] = exc(e)
    path = case["path"]
    try:
        if path == "processor":
            p = pcvl.Processor(case["backend"], c)
            p.with_polarized_input(bs)
            p.min_detected_photons_filter(0)
            res = p.probs()
            dist = res["results"]
            out["perf"] = (float(res["physical_perf"]), float(res["logical_perf"]))
        else:
            sim = SimulatorFactory.build(c, case["backend"])
            out["layer"] = type(sim).__name__
            dist = sim.probs(bs)
        out["dist"] = {tuple(k): float(v) for k, v in dist.items()}
    except Exception as e:
        out.update(exc(e))
    return out


# ------------------------------------------------------------------------------------------------
# extension: evolve (state-vector path), convert_polarized_state(use_symbolic / inverse), selection
# (heralds / post-selection / photon filter / detectors) on polarised simulators and processors
# ------------------------------------------------------------------------------------------------
PS_OPS = ["==", "<", ">", "<=", ">="]
SV_DROP = 1.5e-6       # min_complex_component = 1e-6 on each of (re, im)


def gen_ps(rng, m, depth):
    """-> (PostSelect source string, Lean json)"""
    if depth == 0 or rng.random() < 0.45:
        modes = sorted(rng.sample(range(m), rng.randint(1, min(3, m))))
        op = rng.choice(PS_OPS)
        k = rng.randint(0, 1) if rng.random() < 0.8 else rng.randint(2, 3)
        return f"[{','.join(map(str, modes))}] {op} {k}", {"c": modes, "op": op, "k": k}
    kind = rng.choice(["and", "or", "or", "xor", "not"])
    a, ja = gen_ps(rng, m, depth - 1)
    if kind == "not":
        return f"!({a})", {"not": ja}
    b, jb = gen_ps(rng, m, depth - 1)
    sym = {"and": "&", "or": "|", "xor": "^"}[kind]
    return f"(({a}) {sym} ({b}))", {kind: [ja, jb]}


def ps_eval(j, t):
    """the post-selection expression evaluated directly (independent of PostSelect and of the Lean driver)"""
    if j is True:
        return True
    if "c" in j:
        x = sum(t[i] for i in j["c"])
        return {"==": x == j["k"], "<": x < j["k"], ">": x > j["k"], "<=": x <= j["k"], ">=": x >= j["k"]}[j["op"]]
    if "and" in j:
        return ps_eval(j["and"][0], t) and ps_eval(j["and"][1], t)
    if "or" in j:
        return ps_eval(j["or"][0], t) or ps_eval(j["or"][1], t)
    if "xor" in j:
        return ps_eval(j["xor"][0], t) != ps_eval(j["xor"][1], t)
    return not ps_eval(j["not"], t)


def gen_heralds(rng, m, modes, allow2):
    """heralds [[mode, expected]]; mostly consistent with what the input puts in the mode (a usual set-up), some not"""
    r = rng.random()
    k = 0 if r < 0.2 else (1 if r < 0.7 or m < 2 else min(2, m - 1 if m > 2 else 1))
    k = min(k, m)
    out = []
    for i in sorted(rng.sample(range(m), k)):
        n_i = mode_count(modes[i])
        if rng.random() < 0.6 and n_i <= (2 if allow2 else 1):
            v = n_i
        else:
            v = rng.choice([0, 1, 1] + ([2] if allow2 else []))
        out.append([i, v])
    return out


def gen_sel(rng, m, modes, path, with_filter=True):
    n = sum(mode_count(md) for md in modes)
    heralds = gen_heralds(rng, m, modes, allow2=(path != "processor"))
    h = sum(v for _, v in heralds)
    ps = psj = None
    if rng.random() < 0.55:
        ps, psj = gen_ps(rng, m, rng.randint(0, 2))
    sel = {"heralds": heralds, "ps": ps, "psj": psj if psj is not None else True,
           "keep": False if path == "processor" else rng.random() < 0.5}
    if not with_filter:
        # evolve: only keep_heralds(True) (the simulators' default) is modelled — with False the native
        # BasicState.remove_modes does not keep the annotations in place and amplitudes of states differing only in a
        # dropped photon's polarisation are added
        sel["keep"] = True
        return sel
    r = rng.random()
    if r < 0.2:
        v = 0
    elif r < 0.4 and n >= h:
        v = n - h
    elif r < 0.54 and n >= h and path == "processor":
        v = None                      # Processor.check_min_detected_photons_filter sets n - Σ heralds itself
    elif r < 0.68:
        v = rng.randint(1, max(1, n))
    elif r < 0.9 and 1 <= h <= n:
        v = rng.randint(n - h + 1, n)     # v ≤ n, Σ heralds ≤ n, but v + Σ heralds > n
    else:
        v = n + 1
    sel["v"] = v
    dets = None
    if path == "processor" and rng.random() < 0.3 and len(heralds) < m:   # (a detector on a processor whose modes
        # are all heralded changes the circuit size: Experiment.add, not this property)
        dets = {str(i): rng.choice(["thr", "ppnr", "pnr"]) for i in range(m) if rng.random() < 0.6}
    sel["dets"] = dets or None
    return sel


def sel_numbers(case, n):
    sel = case["sel"]
    h = sum(v for _, v in sel["heralds"])
    v = sel.get("v", 0)
    v_eff = n - h if v is None else v
    return v_eff, h


def parse_annotated(st):
    """annotated output state of evolve -> (((nH, nV) per mode), anomaly or None)"""
    key = []
    idx = 0
    bad = None
    for k in range(st.m):
        nh = nv = 0
        for _ in range(st[k]):
            a = str(st.get_photon_annotation(idx))
            idx += 1
            if a == "P:H":
                nh += 1
            elif a == "P:V":
                nv += 1
            else:
                bad = bad or f"photon {idx - 1} of {st} carries annotation '{a}'"
        key.append((nh, nv))
    return tuple(key), bad


def read_sv(sv):
    out, bad = [], None
    for st, amp in sv:
        key, b = parse_annotated(st)
        bad = bad or b
        out.append((key, complex(amp)))
    return out, bad


def observe_evolve(case):
    import perceval as pcvl
    from perceval.utils import BasicState, PostSelect
    from perceval.simulators import SimulatorFactory
    c, lj = build(case["tree"])
    bs = BasicState(state_text(case["modes"]))
    out = {"lean": lj, "angles": read_back(bs), "counts": list(bs)}
    try:
        sim = SimulatorFactory.build(c, case["backend"])
        out["layer"] = type(sim).__name__
        sel = case.get("sel")
        if sel:
            sim.set_selection(postselect=PostSelect(sel["ps"]) if sel["ps"] else None,
                              heralds={int(i): v for i, v in sel["heralds"]})
            sim.keep_heralds(sel["keep"])
        if case.get("pre"):
            sim.probs(bs)             # the same object answered probs first (the inner circuit is re-written per query)
        sv, bad = read_sv(sim.evolve(bs))
        out["sv"] = sv
        if bad:
            out["anomaly"] = bad
    except Exception as e:
        out.update(exc(e))
    return out


def observe_convert(case):
    import sympy as sp
    from perceval.utils import BasicState, convert_polarized_state
    bs = BasicState(state_text(case["modes"]))
    out = {"angles": read_back(bs), "counts": list(bs)}

    def conv(inverse):
        sp_in, prep = convert_polarized_state(bs, use_symbolic=case["symbolic"], inverse=inverse)
        if case["symbolic"]:
            a = np.array([[complex(sp.N(e)) for e in row] for row in prep.tolist()], dtype=complex)
        else:
            a = np.array(prep, dtype=complex)
        return list(sp_in), a
    try:
        out["input"], out["prep"] = conv(case["inverse"])
        if case["inverse"]:
            out["plain_prep"] = conv(False)[1]
    except Exception as e:
        out.update(exc(e))
    return out


def build_detector(kind):
    import perceval as pcvl
    if kind == "thr":
        return pcvl.Detector.threshold()
    if kind == "ppnr":
        return pcvl.Detector.ppnr(3, 1)
    return pcvl.Detector.pnr()


def observe_select(case):
    import perceval as pcvl
    from perceval.utils import BasicState, PostSelect
    from perceval.simulators import SimulatorFactory
    c, lj = build(case["tree"])
    bs = BasicState(state_text(case["modes"]))
    sel = case["sel"]
    out = {"lean": lj, "angles": read_back(bs), "counts": list(bs)}
    try:
        if case["path"] == "processor":
            p = pcvl.Processor(case["backend"], c)
            for i, v in sel["heralds"]:
                p.add_herald(int(i), v)
            if sel["ps"]:
                p.set_postselection(PostSelect(sel["ps"]))
            for i, kind in (sel.get("dets") or {}).items():
                p.add(int(i), build_detector(kind))
            p.with_polarized_input(bs)
            if sel["v"] is not None:
                p.min_detected_photons_filter(sel["v"])
            res = p.probs()
        else:
            sim = SimulatorFactory.build(c, case["backend"])
            out["layer"] = type(sim).__name__
            sim.set_selection(min_detected_photons_filter=sel["v"],
                              postselect=PostSelect(sel["ps"]) if sel["ps"] else None,
                              heralds={int(i): v for i, v in sel["heralds"]})
            sim.keep_heralds(sel["keep"])
            res = sim.probs_svd(pcvl.SVDistribution(bs))
        out["dist"] = {tuple(k): float(v) for k, v in res["results"].items()}
        out["perf"] = (float(res["physical_perf"]), float(res["logical_perf"]))
    except Exception as e:
        out.update(exc(e))
    return out


# ---- direct oracles (numpy) -------------------------------------------------------------------------------------
def oracle_prepare(angles, symbolic=False):
    """-> ('ok', spatial input, preparation matrix) or ('inadmissible', reason): the statement's preparation"""
    m = len(angles)
    prep = np.eye(2 * m, dtype=complex)
    s_in = []
    for k, mode in enumerate(angles):
        vecs, cnt = [], [0, 0]
        for th, ph in mode:
            c, s, p, q = trig4(th, ph)
            v = (c, (p + 1j * q) * s)
            hit = next((i for i, w in enumerate(vecs) if abs(w[0] - v[0]) + abs(w[1] - v[1]) < 1e-12), None)
            if hit is None:
                if len(vecs) == 2:
                    return "inadmissible", "more than two polarisations in a mode", None
                if vecs and abs(np.conj(vecs[0][0]) * v[0] + np.conj(vecs[0][1]) * v[1]) > 1e-5:
                    return "inadmissible", "non-orthogonal polarisations in a mode", None
                hit = len(vecs)
                vecs.append(v)
            cnt[hit] += 1
        s_in += cnt
        if vecs:
            v1 = vecs[0]
            v2 = vecs[1] if len(vecs) == 2 else (-np.conj(v1[1]), np.conj(v1[0]))
            prep[2 * k:2 * k + 2, 2 * k:2 * k + 2] = [[v1[0], v2[0]], [v1[1], v2[1]]]
    return "ok", s_in, prep


def oracle_sv(lj, angles, sel=None):
    """-> ('ok', {annotated key: amplitude}) with heralds / post-selection applied and re-normalised"""
    status, s_in, prep = oracle_prepare(angles)
    if status != "ok":
        return status, s_in
    w = oracle_doubled(lj) @ prep
    m = w.shape[0] // 2
    n = sum(s_in)
    cols = [j for j, c in enumerate(s_in) for _ in range(c)]
    norm_in = np.prod([math.factorial(c) for c in s_in])
    out = {}
    for t in fock_states(2 * m, n):
        rows = [i for i, c in enumerate(t) for _ in range(c)]
        amp = perm_bf(w[np.ix_(rows, cols)]) / math.sqrt(norm_in * np.prod([math.factorial(c) for c in t]))
        key = tuple((t[2 * i], t[2 * i + 1]) for i in range(m))
        if sel:
            sp_t = [a + b for a, b in key]
            if not (all(sp_t[int(i)] == v for i, v in sel["heralds"]) and ps_eval(sel["psj"], sp_t)):
                continue
            if not sel["keep"]:
                drop = {int(i) for i, _ in sel["heralds"]}
                key = tuple(kv for i, kv in enumerate(key) if i not in drop)
        out[key] = out.get(key, 0) + complex(amp)       # `result += ampli * state`
    if sel:
        nrm = math.sqrt(sum(abs(a) ** 2 for a in out.values()))
        out = {k: a / nrm for k, a in out.items()} if nrm > 1e-12 else {}
    return "ok", out


def oracle_select(lj, angles, case):
    """the documented conditioning applied to the statement's distribution -> ('ok', results, phys, logic)"""
    status, spec = oracle_probs(lj, angles)
    if status != "ok":
        return status, spec, None, None
    sel = case["sel"]
    n = sum(len(md) for md in angles)
    v_eff, h = sel_numbers(case, n)
    thr = v_eff + h
    phys = sum(p for t, p in spec.items() if sum(t) >= thr)
    kept = {}
    for t, p in spec.items():
        if sum(t) >= thr and all(t[int(i)] == v for i, v in sel["heralds"]) and ps_eval(sel["psj"], list(t)):
            key = t if sel["keep"] else tuple(x for i, x in enumerate(t) if i not in {int(j) for j, _ in sel["heralds"]})
            kept[key] = kept.get(key, 0.0) + p
    mass = sum(kept.values())
    res = {k: p / mass for k, p in kept.items()} if mass > 1e-13 else {}
    return "ok", res, phys, (mass / phys if phys > 1e-13 else None)


# ---- judging ---------------------------------------------------------------------------------------------------
def cclose(a, b):
    return abs(a - b) <= core.TOL + core.TOL * abs(b)


def model_sv(entries, R=1.0):
    """model entries [[key, perm, norm2], …] -> ({key: amplitude}, keys that several non-zero entries share)"""
    out, cnt = {}, {}
    for key, pamp, norm2 in entries:
        k = tuple((a, b) for a, b in key)
        z = complex(float(Fraction(pamp[0])), float(Fraction(pamp[1]))) / math.sqrt(float(Fraction(norm2)) * R)
        out[k] = out.get(k, 0) + z
        if abs(z) > 1e-12:
            cnt[k] = cnt.get(k, 0) + 1
    return out, {k for k, c in cnt.items() if c > 1}


def compare_sv(real, expected):
    """-> None or a description of the first difference"""
    got = {}
    for k, a in real:
        got[k] = got.get(k, 0) + a
    for k, a in got.items():
        if k not in expected and abs(a) > 1e-9:
            return f"output state {list(k)} (photons (P:H, P:V) per mode) is not an output of the model"
    for k, z in expected.items():
        if k not in got and abs(z) <= SV_DROP:
            continue          # the native StateVector drops components below global_params['min_complex_component']
        if not cclose(got.get(k, 0j), z):
            return f"amplitude of {list(k)} = {got.get(k, 0j)!r}, exact {z!r}"
    return None


def judge_evolve(chk, case, obs, rep):
    replay = {"case": case, "state": state_text(case["modes"])}
    sel = case.get("sel")
    if "err" in rep:
        return ("broken", "model-rejects", f"model rejects ({rep['err']}) an admissible evolve case", replay)
    why = None
    skip = False
    if "err" in obs:
        why = f"evolve raised {obs['err']}: {obs['msg']}"
    elif "anomaly" in obs:
        why = obs["anomaly"]
    else:
        if sel:
            R = float(Fraction(rep["sel"]["R"]))
            if R <= 1e-13:
                chk.branch("evolve-nothing-retained")
                expected, shared = {}, set()
            else:
                expected, shared = model_sv(rep["sel"]["sv"], R)
            if shared or not sel["keep"]:
                skip = True       # keep_heralds(False) is outside the model (see gen_sel)
        else:
            expected, shared = model_sv(rep["sv"])
        if not skip:
            why = compare_sv(obs["sv"], expected)
            if why is None and any(a > 0 and b > 0 and abs(z) > 1e-6 for k, z in obs["sv"] for a, b in k):
                chk.branch("evolve-bunched-annotations")
    if why is None:
        return None
    status, spec = oracle_sv(obs["lean"], obs["angles"], sel)
    if status != "ok":
        return ("broken", "oracle-inadmissible", f"direct oracle calls the input inadmissible ({spec}); {why}", replay)
    what = f"factory({case['backend']}).evolve({state_text(case['modes'])})" + (f" with selection {sel}" if sel else "")
    if "err" in obs:
        return ("violation", "evolve-raises", f"{what} raised {obs['err']} ({obs['msg']})", replay)
    if "anomaly" in obs:
        return ("violation", "evolve-annotations", f"{what}: {obs['anomaly']}", replay)
    got = {}
    for k, a in obs["sv"]:
        got[k] = got.get(k, 0) + a
    bad = [k for k in set(got) | set(spec) if abs(got.get(k, 0) - spec.get(k, 0)) > 1e-6]
    if bad:
        k = bad[0]
        pg, ps_ = {}, {}
        for kk, a in got.items():
            t = tuple(x + y for x, y in kk)
            pg[t] = pg.get(t, 0.0) + abs(a) ** 2
        for kk, a in spec.items():
            t = tuple(x + y for x, y in kk)
            ps_[t] = ps_.get(t, 0.0) + abs(a) ** 2
        same_probs = all(abs(pg.get(t, 0) - ps_.get(t, 0)) < 1e-6 for t in set(pg) | set(ps_))
        same_moduli = all(abs(abs(got.get(kk, 0)) - abs(spec.get(kk, 0))) < 1e-6 for kk in set(got) | set(spec))
        sig = "evolve-phases-differ" if same_moduli else ("evolve-annotations" if same_probs else
                                                          "evolve-amplitudes-differ")
        return ("violation", sig, f"{what}: amplitude of the output with (P:H, P:V) photons per mode {list(k)} is "
                f"{got.get(k, 0)!r}, the doubled-mode specification gives {spec.get(k, 0)!r} ({len(bad)} entries differ"
                f"{'; the |amplitude|² per spatial state agree' if same_probs else ''})", replay)
    return ("broken", "model-vs-code", "Lean model and implementation disagree on evolve but the direct oracle holds: "
            + why, replay)


def judge_convert(chk, case, obs, rep):
    replay = {"case": case, "state": state_text(case["modes"])}
    tag = f"convert_polarized_state({state_text(case['modes'])}, use_symbolic={case['symbolic']}, inverse={case['inverse']})"
    if "err" in rep:
        chk.branch("convert-symbolic-rejected" if case["symbolic"] else "convert-rejected")
        if obs.get("err") == rep["err"]:
            return None
        status, s_in, prep = oracle_prepare(obs["angles"])
        if status == "inadmissible":
            return ("violation", "inadmissible-input-accepted", f"{tag} gave {obs.get('err', 'a result')} for an input "
                    f"with {s_in}; expected {rep['err']}", replay)
        if case["symbolic"] and "err" not in obs:
            # the symbolic branch accepts a second polarisation only when `orth == 0` exactly
            pm = obs["prep"]
            if np.max(np.abs(pm @ pm.conj().T - np.eye(pm.shape[0]))) > 1e-9:
                return ("violation", "symbolic-prep-not-unitary", f"{tag} returned a non-unitary preparation matrix",
                        replay)
        return ("broken", "model-rejects", f"model rejects ({rep['err']}), code gave {obs.get('err', 'a result')}", replay)
    why = None
    if "err" in obs:
        why = f"raised {obs['err']}: {obs['msg']}"
    else:
        mp = np.array(core.unmat(rep["prep"]), dtype=complex)
        if obs["input"] != rep["input"]:
            why = f"spatial input {obs['input']} vs model {rep['input']}"
        elif obs["prep"].shape != mp.shape or not np.allclose(obs["prep"], mp, rtol=core.TOL, atol=core.TOL):
            why = "preparation matrix differs from the model's"
    if why is None:
        return None
    status, s_in, prep = oracle_prepare(obs["angles"])
    if status != "ok":
        return ("broken", "oracle-inadmissible", f"direct oracle calls the input inadmissible ({s_in}); {why}", replay)
    if "err" in obs:
        two = any(len({a for a in mode}) > 1 for mode in obs["angles"])
        if case["symbolic"] and two:
            return ("broken", "model-vs-code", f"{tag} {why}; the model accepted two polarisations as exactly orthogonal",
                    replay)
        return ("violation", "convert-raises", f"{tag} {why} on an admissible input", replay)
    if obs["input"] != s_in:
        return ("violation", "spatial-input-differs", f"{tag}: spatial input {obs['input']}, expected {s_in}", replay)
    if case["inverse"]:
        pp = obs.get("plain_prep")
        if pp is None or pp.shape != obs["prep"].shape or \
                not np.allclose(obs["prep"] @ pp, np.eye(pp.shape[0]), atol=1e-8):
            return ("violation", "inverse-prep-not-inverse", f"{tag}: the matrix returned with inverse=True is not the "
                    "inverse of the matrix returned without", replay)
        target = np.linalg.inv(prep)
    else:
        target = prep
    if not np.allclose(obs["prep"], target, atol=1e-7):
        return ("violation", "prep-differs", f"{tag}: preparation matrix differs from the Jones-vector specification by "
                f"{float(np.max(np.abs(obs['prep'] - target))):.3g}", replay)
    return ("broken", "model-vs-code", f"Lean model and implementation disagree but the direct oracle holds: {why}",
            replay)


def judge_select(chk, case, obs, rep):
    replay = {"case": case, "state": state_text(case["modes"])}
    sel = case["sel"]
    n = sum(obs["counts"])
    v_eff, h = sel_numbers(case, n)
    corner = v_eff <= n and h <= n < v_eff + h
    if corner:
        chk.branch("select-filter-corner")
    elif n < v_eff + h:
        chk.branch("select-filter-rejects")
    if "err" in rep:
        return ("broken", "model-rejects", f"model rejects ({rep['err']}) an admissible selection case", replay)
    why = None
    model = {tuple(k): float(Fraction(p)) for k, p in rep["results"]}
    mphys, mlogic = float(Fraction(rep["phys"])), float(Fraction(rep["logic"]))
    if float(Fraction(rep["spec"]["retained"])) > 1e-12:
        chk.branch("select-retained")
    else:
        chk.branch("select-nothing-retained")
    if "err" in obs:
        why = f"raised {obs['err']}: {obs['msg']}"
    else:
        dist = obs["dist"]
        for t in set(dist) | set(model):
            if not core.close(dist.get(t, 0.0), model.get(t, 0.0)):
                why = f"P{list(t)} = {dist.get(t, 0.0)!r}, exact {model.get(t, 0.0)!r}"
                break
        if why is None and not core.close(obs["perf"][0], mphys):
            why = f"physical_perf {obs['perf'][0]!r}, exact {mphys!r}"
        if why is None and mphys > 0 and not core.close(obs["perf"][1], mlogic):
            why = f"logical_perf {obs['perf'][1]!r}, exact {mlogic!r}"
    if why is None:
        return None
    status, res, phys, logic = oracle_select(obs["lean"], obs["angles"], case)
    if status != "ok":
        return ("broken", "oracle-inadmissible", f"direct oracle calls the input inadmissible ({res}); {why}", replay)
    what = (f"{case['path']}({case['backend']}) on {state_text(case['modes'])} with heralds {sel['heralds']}, "
            f"post-selection {sel['ps']!r}, min_detected_photons_filter({sel.get('v')}), "
            f"keep_heralds={sel['keep']}" + (f", detectors {sel['dets']}" if sel.get("dets") else ""))
    if "err" in obs:
        return ("violation", "selection-raises", f"{what} raised {obs['err']} ({obs['msg']})", replay)
    dist = obs["dist"]
    bad = [t for t in set(dist) | set(res) if abs(dist.get(t, 0.0) - res.get(t, 0.0)) > 1e-6]
    perf_bad = abs(obs["perf"][0] - phys) > 1e-6 or (logic is not None and abs(obs["perf"][1] - logic) > 1e-6)
    if bad or perf_bad:
        if corner and not res and (dist or obs["perf"][0] > 1e-6):
            return ("violation", "herald-photon-filter-ignored",
                    f"{what}: {n} photons enter, min_detected_photons_filter({v_eff}) counts the non-heralded modes only and "
                    f"the heralds expect {h} more, so no output state qualifies (physical performance 0); the polarisation "
                    f"layer returned {len(dist)} states with physical_perf {obs['perf'][0]:.6g} (its threshold is "
                    f"max({v_eff}, {h}) instead of {v_eff} + {h})", replay)
        if bad:
            t = bad[0]
            return ("violation", "selection-differs",
                    f"{what}: P{list(t)} = {dist.get(t, 0.0):.9f}, the conditioned doubled-mode specification gives "
                    f"{res.get(t, 0.0):.9f} ({len(bad)} states differ)", replay)
        return ("violation", "selection-performance",
                f"{what}: performances {obs['perf']}, the specification gives ({phys:.9f}, {logic})", replay)
    return ("broken", "model-vs-code", "Lean model and implementation disagree on a selection but the direct oracle "
            "holds: " + why, replay)


# ------------------------------------------------------------------------------------------------
# judging
# ------------------------------------------------------------------------------------------------
def lean_sel(sel, v_eff=0):
    return {"heralds": [[int(i), v] for i, v in sel["heralds"]], "ps": sel["psj"], "minDet": v_eff,
            "minPhotons": 0, "keepHeralds": sel["keep"]}


def lean_req(case, obs):
    kind = case["kind"]
    if kind == "unitary":
        return {"op": "unitary", "tree": obs["lean"], "flag": case["flag"]}
    if kind == "convert":
        return {"op": "convert", "modes": lean_modes(obs["angles"]), "symbolic": case["symbolic"],
                "inverse": case["inverse"]}
    if kind == "evolve":
        req = {"op": "evolve", "tree": obs["lean"], "modes": lean_modes(obs["angles"]), "fixed": True}
        if case.get("sel"):
            req["cond"] = lean_sel(case["sel"])
        return req
    if kind == "select":
        v_eff, _ = sel_numbers(case, sum(obs["counts"]))
        return {"op": "select", "tree": obs["lean"], "modes": lean_modes(obs["angles"]), "fixed": True,
                "filterFixed": True, "sel": lean_sel(case["sel"], v_eff)}
    return {"op": "probs", "tree": obs["lean"], "modes": lean_modes(obs["angles"]), "fixed": True}


OBSERVERS = {"unitary": lambda c: observe_unitary(c), "probs": lambda c: observe_probs(c),
             "evolve": lambda c: observe_evolve(c), "convert": lambda c: observe_convert(c),
             "select": lambda c: observe_select(c)}


def judge_unitary(chk, case, obs, rep):
    replay = {"case": case}
    if "build_err" in obs:
        return ("broken", "build-raises", f"the generator's circuit could not be built: {obs['build_err']}", replay)
    empty = has_empty(case["tree"])
    if "err" in rep:
        if "err" in obs and obs["err"] == rep["err"]:
            chk.branch("flag-false-rejected")
            return None
        if "err" in obs:
            return ("broken", "error-class", f"real code raised {obs['err']}, model {rep['err']}", replay)
        return ("violation", "polarised-circuit-gives-spatial-matrix",
                "compute_unitary(use_polarization=False) returned a matrix for a circuit containing "
                "polarising components", replay)
    model_u = np.array(core.unmat(rep["U"]), dtype=complex)
    if "err" not in obs and obs["U"].shape == model_u.shape and \
            np.allclose(obs["U"], model_u, rtol=core.TOL, atol=core.TOL):
        if not np.allclose(obs["U"] @ obs["U"].conj().T, np.eye(model_u.shape[0]), atol=1e-8):
            return ("violation", "doubled-matrix-not-unitary", "the reported matrix is not unitary", replay)
        return None
    # disagreement: the property statement evaluated directly
    if rep["doubled"]:
        spec = oracle_doubled(obs["lean"])
        if "err" in obs:
            sig = "empty-circuit-not-doubled" if empty else "doubled-matrix-raises"
            return ("violation", sig, f"compute_unitary(use_polarization={case['flag']}) raised {obs['err']} "
                    f"({obs['msg']}) on an admissible circuit", replay)
        if obs["U"].shape != spec.shape or not np.allclose(obs["U"], spec, atol=1e-7):
            sig = "empty-circuit-not-doubled" if empty else "doubled-matrix-not-product"
            d = "shape %s vs %s" % (obs["U"].shape, spec.shape) if obs["U"].shape != spec.shape else \
                "max difference %.3g" % float(np.max(np.abs(obs["U"] - spec)))
            return ("violation", sig, "the reported matrix differs from the ordered product of the doubled / "
                    f"polarised leaf blocks embedded at doubled ranges ({d})", replay)
    return ("broken", "model-vs-code", "Lean model and implementation disagree on compute_unitary but the direct "
            "oracle holds", replay)


def classify_input(case):
    kinds = {md["kind"] for md in case["modes"]}
    if kinds <= {"vac"}:
        return "vacuum"
    if "two" in kinds:
        return "two"
    return "single"


def judge_probs(chk, case, obs, rep):
    replay = {"case": case, "state": state_text(case["modes"])}
    cls = classify_input(case)
    # 0. single-precision read-back of the angles the user wrote
    want = intended_angles(case["modes"], chk.extra["label_turns"])
    for k, (got, exp) in enumerate(zip(obs["angles"], want)):
        rest = list(exp)
        for th, ph in got:
            hit = next((i for i, (a, b) in enumerate(rest)
                        if abs(a - th) <= ANGLE_TOL and (abs(b - ph) <= ANGLE_TOL or abs(math.sin(th / 2)) < 1e-6)), None)
            if hit is None:
                return ("violation", "annotation-angles", f"mode {k}: the state stores polarisation angles "
                        f"({th}, {ph}) which are not the requested ones {exp} (beyond single precision)", replay)
            rest.pop(hit)
    if "err" in rep:
        # the model rejects: non-orthogonal / more than two polarisations
        chk.branch("non-orthogonal-rejected" if any(md["kind"] == "nonorth" for md in case["modes"])
                   else "three-vectors-rejected")
        conv = obs["conv"]
        if isinstance(conv, dict) and conv.get("err") == rep["err"] and obs.get("err") == rep["err"]:
            return None
        status, _ = oracle_probs(obs["lean"], obs["angles"])
        if status == "inadmissible":
            return ("violation", "inadmissible-input-accepted",
                    f"input with non-orthogonal or more than two polarisations in one mode: conversion gave "
                    f"{conv if 'err' in conv else 'a result'}, simulation {obs.get('err', 'a result')}; "
                    f"expected {rep['err']}", replay)
        return ("broken", "model-rejects", f"model rejects ({rep['err']}) an input the direct oracle admits", replay)
    states = [tuple(t) for t in rep["states"]]
    exact = [float(Fraction(p)) for p in rep["probs"]]
    ok = True
    sv_only = False
    why = ""
    conv = obs["conv"]
    if "err" in conv:
        ok, why = False, f"convert_polarized_state raised {conv['err']}"
    else:
        if conv["input"] != rep["input"]:
            ok, why = False, f"spatial input {conv['input']} vs model {rep['input']}"
        elif conv["prep"] is None:
            ok, why = False, "preparation matrix is None"
        else:
            mp = np.array(core.unmat(rep["prep"]), dtype=complex)
            if conv["prep"].shape != mp.shape or not np.allclose(conv["prep"], mp, rtol=core.TOL, atol=core.TOL):
                ok, why = False, "preparation matrix differs from the model's"
    if ok and "err" in obs:
        ok, why = False, f"simulation raised {obs['err']}: {obs['msg']}"
    if ok:
        dist = obs["dist"]
        extra = [k for k in dist if k not in states]
        if extra:
            ok, why = False, f"output states outside the (m, n) space: {extra[:3]}"
        else:
            for t, p in zip(states, exact):
                if not core.close(dist.get(t, 0.0), p):
                    ok, why = False, f"P{list(t)} = {dist.get(t, 0.0)!r}, exact {p!r}"
                    break
        if ok and "perf" in obs and not (core.close(obs["perf"][0], 1.0) and core.close(obs["perf"][1], 1.0)):
            ok, why = False, f"performances {obs['perf']} for a lossless, unconditioned set-up"
        if ok and "sv" in obs and "sv" in rep:
            # evolve within a session: amplitudes and P:H / P:V annotations, not only the merged |amplitude|²
            chk.branch("session-evolve-amplitudes")
            bad_sv = obs.get("anomaly") or compare_sv(obs["sv"], model_sv(rep["sv"])[0])
            if bad_sv:
                ok, why, sv_only = False, bad_sv, True
    if ok:
        return None
    if sv_only:
        status, spec = oracle_sv(obs["lean"], obs["angles"])
        got = {}
        for k, a in obs["sv"]:
            got[k] = got.get(k, 0) + a
        if status == "ok" and ("anomaly" in obs or
                               any(abs(got.get(k, 0) - spec.get(k, 0)) > 1e-6 for k in set(got) | set(spec))):
            same_moduli = all(abs(abs(got.get(k, 0)) - abs(spec.get(k, 0))) < 1e-6 for k in set(got) | set(spec))
            return ("violation", "evolve-annotations" if "anomaly" in obs else
                    ("evolve-phases-differ" if same_moduli else "evolve-amplitudes-differ"),
                    f"{case['path']}({case['backend']}).evolve({state_text(case['modes'])}): {why}; the |amplitude|² "
                    "summed per spatial state agree with probs", replay)
        return ("broken", "model-vs-code", "Lean model and implementation disagree on evolve amplitudes but the direct "
                "oracle holds: " + why, replay)
    # disagreement → the property statement evaluated directly (numpy)
    status, spec = oracle_probs(obs["lean"], obs["angles"])
    if status != "ok":
        return ("broken", "oracle-inadmissible", f"direct oracle calls the input inadmissible ({spec}); {why}", replay)
    defect = None
    if cls == "two" and isinstance(conv.get("prep"), np.ndarray):
        pm = conv["prep"]
        defect = float(np.max(np.abs(pm @ pm.conj().T - np.eye(pm.shape[0]))))
        if defect <= 1e-9:
            defect = None
    if defect is not None:
        # one defect, two symptoms: the block built from the two given (single-precision) vectors is not unitary;
        # Unitary(upol @ prep) then raises, or (when the deviation slips under np.allclose) a non-unitary matrix is used
        sym = f"the simulation raised {obs['err']} ({obs['msg']})" if "err" in obs else \
            "the simulation ran on a non-unitary matrix"
        return ("violation", "prep-two-polarisations-not-unitary",
                f"{case['path']}({case['backend']}).probs({state_text(case['modes'])}): the preparation matrix of "
                f"convert_polarized_state is off-unitary by {defect:.3g} for two orthogonal polarisations in one mode; "
                f"{sym}; the property gives a distribution of total mass {sum(spec.values()):.9f}", replay)
    if "err" in obs or "err" in conv:
        what = obs.get("err") or conv.get("err")
        msg = obs.get("msg") or conv.get("msg")
        sig = {"vacuum": "vacuum-input-raises"}.get(cls, "simulation-raises")
        return ("violation", sig, f"{case['path']}({case['backend']}).probs({state_text(case['modes'])}) raised "
                f"{what} ({msg}); the property gives a distribution of total mass "
                f"{sum(spec.values()):.9f}", replay)
    dist = obs["dist"]
    bad = [(t, dist.get(t, 0.0), p) for t, p in spec.items() if abs(dist.get(t, 0.0) - p) > 1e-6]
    bad += [(t, v, 0.0) for t, v in dist.items() if t not in spec and v > 1e-6]
    if bad:
        t, a, b = bad[0]
        return ("violation", "distribution-differs",
                f"{case['path']}({case['backend']}): P{list(t)} = {a:.9f} but the doubled-mode specification gives "
                f"{b:.9f} ({len(bad)} states differ)", replay)
    if isinstance(conv.get("prep"), np.ndarray) and conv["input"] != rep["input"]:
        return ("broken", "model-vs-code", "convert_polarized_state disagrees with the model on the spatial input "
                "but the distribution matches the direct oracle: " + why, replay)
    return ("broken", "model-vs-code", "Lean model and implementation disagree but the direct oracle holds: " + why,
            replay)


def judge(chk, case, rep=None, obs=None):
    if obs is None:
        obs = OBSERVERS[case["kind"]](case)
    if "build_err" in obs:
        return judge_unitary(chk, case, obs, {})
    if rep is None:
        rep = chk.lean.ask(lean_req(case, obs))
    return {"unitary": judge_unitary, "probs": judge_probs, "evolve": judge_evolve, "convert": judge_convert,
            "select": judge_select}[case["kind"]](chk, case, obs, rep)


# ------------------------------------------------------------------------------------------------
# shrinking
# ------------------------------------------------------------------------------------------------
def shrink(chk, case, sig):
    def fails(c):
        try:
            r = judge(chk, c)
        except Exception:
            return False
        return r is not None and r[1] == sig

    cur = copy.deepcopy(case)
    budget = 120
    if cur["kind"] == "convert":
        changed = True
        while changed and budget > 0:
            changed = False
            for k, md in enumerate(cur["modes"]):
                if md["kind"] == "vac" or budget <= 0:
                    continue
                cand = copy.deepcopy(cur)
                cand["modes"][k] = {"kind": "vac"}
                budget -= 1
                if fails(cand):
                    cur, changed = cand, True
                    break
        return cur

    def paths(t, pre=()):
        if t is None or "leaf" in t:
            return
        yield pre
        for i, op in enumerate(t["ops"]):
            yield from paths(op["c"], pre + (i,))

    def at(t, p):
        for i in p:
            t = t["ops"][i]["c"]
        return t

    changed = True
    while changed and budget > 0:
        changed = False
        for p in list(paths(cur.get("tree"))):
            node = at(cur["tree"], p)
            for i in range(len(node["ops"])):
                if budget <= 0:
                    break
                cand = copy.deepcopy(cur)
                del at(cand["tree"], p)["ops"][i]
                stale = False
                for rt in cand.get("retune", []):
                    q = rt["path"]
                    if tuple(q[:len(p)]) == tuple(p) and len(q) > len(p):
                        if q[len(p)] == i:
                            stale = True
                        elif q[len(p)] > i:
                            q[len(p)] -= 1
                if stale:
                    continue                  # the re-tuned leaf itself
                if cand["kind"] in SIM_KINDS and not requires(cand["tree"]):
                    continue
                if not has_empty(cur["tree"]) and has_empty(cand["tree"]):
                    continue
                budget -= 1
                if fails(cand):
                    cur, changed = cand, True
                    break
            if changed:
                break
        if not changed and cur["kind"] in SIM_KINDS:
            for k, md in enumerate(cur["modes"]):
                if md["kind"] == "vac" or budget <= 0:
                    continue
                cand = copy.deepcopy(cur)
                cand["modes"][k] = {"kind": "vac"}
                if classify_input(cand) != classify_input(cur):
                    continue
                budget -= 1
                if fails(cand):
                    cur, changed = cand, True
                    break
    return cur


# ------------------------------------------------------------------------------------------------
# bookkeeping
# ------------------------------------------------------------------------------------------------
def walk_leaves(tree, depth=0):
    if "leaf" in tree:
        yield tree["leaf"], depth
        return
    for op in tree["ops"]:
        yield from walk_leaves(op["c"], depth + 1)


def tree_sig(tree):
    if "leaf" in tree:
        return tree["leaf"]["t"]
    return (tree["circ"], tuple((op["off"], bool(op["merge"]), tree_sig(op["c"])) for op in tree["ops"]))


def input_sig(modes):
    def one(md):
        k = md["kind"]
        if k in ("vac", "plain"):
            return (k, md.get("n", 0))
        v = md["v"]
        tag = v["l"] if v["k"] == "label" else "ell"
        return (k, tag, md.get("n", 0), md.get("n1", 0), md.get("n2", 0))
    return tuple(one(md) for md in modes)


def count_case(chk, case):
    if case["kind"] == "convert":
        chk.count("kind", "convert")
        chk.branch("convert-symbolic" if case["symbolic"] else "convert-numeric")
        if case["inverse"]:
            chk.branch("convert-inverse")
            if any(md["kind"] == "two" for md in case["modes"]) and not case["symbolic"]:
                chk.branch("convert-inverse-two")
            if case["symbolic"]:
                chk.branch("convert-symbolic-inverse")
        ell = any(md["kind"] in ("one", "two") and (md["v"]["k"] == "ell" or (md["v"].get("l") or "H") in "DALR")
                  for md in case["modes"])
        return ("C", case["symbolic"], case["inverse"], input_sig(case["modes"])), ell
    tree = case["tree"]
    kinds = set()
    for leaf, _ in walk_leaves(tree):
        kinds.add(leaf["t"])
        chk.count("leaf_kind", leaf["t"])
        b = {"WP": "wp", "HWP": "hwp", "QWP": "qwp", "PR": "pr", "PBS": "pbs", "PU": "pol-unitary",
             "PUH": "pol-unitary"}.get(leaf["t"], "plain-leaf")
        chk.branch(b)
    if "circ" in tree:
        for op in tree["ops"]:
            if "circ" in op["c"]:
                chk.branch("nested-pol-subcircuit" if requires(op["c"]) else "nested-plain-subcircuit")
                chk.branch("merged" if op["merge"] else "nested")
    if has_empty(tree):
        chk.branch("empty-circuit")
    shapes = share_shapes(tree)
    if shapes and (case["kind"] != "unitary" or case["flag"] is True or (case["flag"] is None and requires(tree))):
        # (only evaluations on doubled modes count)
        for s in shapes:
            chk.branch(s)
            chk.count("shared_shape", s)
        chk.branch("shared-" + (case["kind"] if case["kind"] != "probs" else
                                ("processor" if case["path"] == "processor" else "probs")))
        for rt in case.get("retune", []):
            key = node_at(tree, rt["path"]).get("share")
            if key is not None and shared_key_count(tree, key) > 1:
                chk.branch("shared-object-retuned")
    chk.count("m", tree_size(tree))
    chk.count("kind", case["kind"])
    nontrivial = any(k in POL_KINDS for k in kinds) and any(k in ("BS", "U", "UH", "PERM") for k in kinds)
    if case["kind"] == "unitary":
        chk.branch({None: "flag-none", True: "flag-true", False: "flag-false"}[case["flag"]])
        if case.get("pre"):
            chk.branch("unitary-recomputed")
        return ("U", case["flag"], tree_sig(tree)), nontrivial
    if case["kind"] == "probs":
        chk.branch({"processor": "processor"}.get(case["path"], "factory-" + case["backend"].lower()))
    elif case["kind"] == "evolve":
        chk.branch("evolve-stateless")
        chk.branch("evolve-" + case["backend"].lower())
        if case.get("pre"):
            chk.branch("evolve-after-probs")
        if any(md["kind"] == "two" for md in case["modes"]):
            chk.branch("evolve-two-polarisations")
        sel = case.get("sel")
        if sel:
            chk.branch("evolve-selection")
            if sel["heralds"]:
                chk.branch("evolve-heralds")
            if sel["ps"]:
                chk.branch("evolve-ps")
    else:
        sel = case["sel"]
        chk.branch("select-" + case["path"])
        if sel["heralds"]:
            chk.branch("select-heralds")
        if sel["ps"]:
            chk.branch("select-ps")
        if sel.get("v") is None:
            chk.branch("select-auto-filter")
        if sel.get("dets"):
            chk.branch("select-detectors")
        if sel["keep"] and sel["heralds"]:
            chk.branch("select-keep-heralds")
        chk.count("select_filter", str(sel.get("v")))
    n = 0
    ell = False
    for md in case["modes"]:
        n += mode_count(md)
        k = md["kind"]
        chk.branch({"vac": "vacuum-mode", "plain": "unannotated", "one": "single", "two": "two-orthogonal",
                    "nonorth": "non-orthogonal", "three": "three-vectors"}[k])
        if k in ("one", "two"):
            chk.branch("label" if md["v"]["k"] == "label" else "elliptical")
            ell = ell or md["v"]["k"] == "ell" or md["v"].get("l") in ("D", "A", "L", "R")
            if md.get("n", 1) > 1 or md.get("n1", 1) > 1 or md.get("n2", 1) > 1:
                chk.branch("repeated-photon")
    if classify_input(case) == "vacuum":
        chk.branch("vacuum")
    chk.count("photons", n)
    if case["kind"] == "evolve":
        sel = case.get("sel")
        return ("E", case["backend"], tree_sig(tree), input_sig(case["modes"]),
                None if not sel else (str(sel["heralds"]), sel["ps"], sel["keep"])), (nontrivial and ell)
    if case["kind"] == "select":
        sel = case["sel"]
        return ("L", case["path"], case["backend"], tree_sig(tree), input_sig(case["modes"]),
                (str(sel["heralds"]), sel["ps"], sel.get("v"), sel["keep"], str(sel.get("dets")))), (nontrivial and ell)
    return ("P", case["path"], case["backend"], tree_sig(tree), input_sig(case["modes"])), (nontrivial and ell)


def report(chk, case, res):
    kind, sig, what, replay = res
    small = case
    if not case.get("corpus"):
        try:
            small = shrink(chk, case, sig)
        except Exception:
            small = case
    rp = {"case": small}
    if "modes" in small:
        rp["state"] = state_text(small["modes"])
    chk.fail(kind, sig, what, rp)


# ------------------------------------------------------------------------------------------------
# sessions: ONE long-lived object (a simulator of SimulatorFactory.build, or a Processor) serving a
# history of requests — queries with different inputs, the circuit replaced / extended / re-tuned in
# between.  The property is per (circuit, input): every reply must be the stateless one.
# ------------------------------------------------------------------------------------------------
QUERY_OPS = ("probs", "svd", "evolve")
SIM_KINDS = ("probs", "evolve", "select")
H_POL = {"k": "label", "l": "H"}


def leaf_paths(tree, pre=()):
    """paths (op indices) of the leaves of a circuit tree"""
    if "leaf" in tree:
        yield pre, tree["leaf"]
        return
    for i, op in enumerate(tree["ops"]):
        yield from leaf_paths(op["c"], pre + (i,))


def node_at(tree, path):
    for i in path:
        tree = tree["ops"][i]["c"]
    return tree


def mark_vars(rng, tree, p=0.3):
    for nd in all_nodes(tree):
        # (the leaves of a shared object are marked once, when the object is created: gen_shared_tree)
        if "leaf" in nd and "share" not in nd and nd["leaf"]["t"] in VAR_KINDS and rng.random() < p:
            nd["leaf"]["var"] = True
    return tree


def regen_leaf(rng, leaf):
    """same component, new angles"""
    new = dict(leaf)
    for k in ("d", "x2", "phi"):
        if k in new:
            new[k] = gens.gen_cs(rng)
    return new


def annotated(modes):
    return any(md["kind"] in ("one", "two", "nonorth", "three") for md in modes)


def for_processor(modes):
    """with_polarized_input needs an annotated photon: write one unannotated mode as {P:H} (same state)"""
    if annotated(modes):
        return modes
    out = copy.deepcopy(modes)
    for k, md in enumerate(out):
        if md["kind"] == "plain":
            out[k] = {"kind": "one", "v": dict(H_POL), "n": md["n"]}
            return out
    return [{"kind": "one", "v": dict(H_POL), "n": 1}] + out[1:]


def all_h_version(rng, modes, allow_plain):
    """the same occupation, every photon horizontal (written {P:H} or left unannotated)"""
    out = []
    for md in modes:
        n = mode_count(md)
        if n == 0:
            out.append({"kind": "vac"})
        elif allow_plain and n <= 2 and rng.random() < 0.3:
            out.append({"kind": "plain", "n": n})
        else:
            out.append({"kind": "one", "v": dict(H_POL), "n": n})
    return out


def gen_session(chk, rng, max_m, max_depth, max_ops, nmax, max_steps, shared=False):
    m = rng.choice(list(range(2, max_m + 1)) * 3 + [1])
    if shared:
        # the circuit of the long-lived object holds component objects several times (extension 4)
        m = max(m, 2)
        tree = mark_vars(rng, gen_shared_tree(rng, m, rng.randint(0, max_depth), rng.randint(1, max(1, max_ops // 2)),
                                              p_var=0.8))
    else:
        tree = mark_vars(rng, force_polarised(rng, gen_tree(rng, m, rng.randint(0, max_depth), rng.randint(1, max_ops))))
    path = rng.choice(["factory", "factory", "factory", "processor", "processor"])
    proc = path == "processor"
    steps = []
    prev = None             # the previous query's modes (same circuit size)
    cur = copy.deepcopy(tree)
    nq = rng.randint(2, max_steps)
    while sum(st["op"] in QUERY_OPS for st in steps) < nq:
        r = rng.random()
        if steps and r < (0.42 if shared else 0.27):
            # the circuit in force changes between two queries
            kinds = ["add", "add"]
            if not proc:
                kinds += ["set", "set"]
            vars_ = [(pth, lf) for pth, lf in leaf_paths(cur) if lf.get("var")]
            if vars_:
                kinds += ["retune"] * 3
            pool = [op["c"] for op in cur["ops"] if op["c"].get("share") is not None]
            if shared:
                sh = [(pth, lf) for pth, lf in vars_ if node_at(cur, pth).get("share") is not None]
                if sh:
                    vars_ = sh
                    kinds += ["retune"] * 4
                kinds = [x for x in kinds if x != "set"]
                if pool:
                    kinds += ["add-shared"] * 2
            k = rng.choice(kinds)
            if k == "add-shared":
                # the same object once more, at another place of the long-lived circuit
                node = rng.choice(pool)
                op = {"off": rng.randint(0, m - tree_size(node)), "c": copy.deepcopy(node), "merge": None}
                steps.append({"op": "add", "item": op})
                cur["ops"].append(copy.deepcopy(op))
                continue
            if k == "set":
                m2 = m if rng.random() < 0.75 else rng.choice(list(range(1, max_m + 1)))
                new = mark_vars(rng, force_polarised(rng, gen_tree(rng, m2, rng.randint(0, max_depth),
                                                                   rng.randint(1, max_ops))))
                steps.append({"op": "set", "tree": new})
                cur = copy.deepcopy(new)
                if m2 != m:
                    m, prev = m2, None
            elif k == "add":
                leaf = gen_leaf(rng, m, 0.5)
                op = {"off": rng.randint(0, m - leaf_width(leaf)), "c": {"leaf": leaf}, "merge": None}
                steps.append({"op": "add", "item": op})
                cur["ops"].append(copy.deepcopy(op))
            else:
                pth, lf = rng.choice(vars_)
                new = regen_leaf(rng, lf)
                steps.append({"op": "retune", "path": list(pth), "leaf": new})
                apply_retune(cur, pth, new)
            continue
        r = rng.random()
        if prev is not None and r < 0.30:
            modes = all_h_version(rng, prev, allow_plain=not proc)
        elif prev is not None and r < 0.40:
            modes = copy.deepcopy(prev)
        elif not proc and r < 0.44:
            modes = gen_input(rng, m, nmax, vacuum=True)
        elif r < 0.51:
            modes = gen_input(rng, m, nmax, malformed=True)
        else:
            modes = gen_input(rng, m, nmax)
        if proc:
            modes = for_processor(modes)
            op = "probs"
        else:
            op = rng.choice(["probs", "probs", "probs", "svd", "evolve"])
        steps.append({"op": op, "modes": modes})
        prev = modes
    return {"kind": "session", "path": path, "backend": rng.choice(["SLOS", "Naive"]), "tree": tree, "steps": steps}


def session_trees(case):
    """the circuit in force (spec tree) before each step, and after the last"""
    cur = copy.deepcopy(case["tree"])
    out = []
    for st in case["steps"]:
        out.append(copy.deepcopy(cur))
        if st["op"] == "set":
            cur = copy.deepcopy(st["tree"])
        elif st["op"] == "add":
            cur["ops"].append(copy.deepcopy(st["item"]))
        elif st["op"] == "retune":
            apply_retune(cur, st["path"], st["leaf"])
    out.append(cur)
    return out


def observe_query(obj, kind, op, bs):
    """one query on the long-lived object -> observation in the format of observe_probs"""
    import perceval as pcvl
    from perceval.utils import convert_polarized_state
    out = {"angles": read_back(bs), "counts": list(bs)}
    try:
        sp_in, prep = convert_polarized_state(bs)
        out["conv"] = {"input": list(sp_in), "prep": None if prep is None else np.array(prep, dtype=complex)}
    except Exception as e:
        out["conv"] = exc(e)
    try:
        if kind == "processor":
            obj.with_polarized_input(bs)
            obj.min_detected_photons_filter(0)
            res = obj.probs()
            dist = {tuple(k): float(v) for k, v in res["results"].items()}
            out["perf"] = (float(res["physical_perf"]), float(res["logical_perf"]))
        elif op == "svd":
            res = obj.probs_svd(pcvl.SVDistribution(bs))
            dist = {tuple(k): float(v) for k, v in res["results"].items()}
            out["perf"] = (float(res["physical_perf"]), float(res["logical_perf"]))
        elif op == "evolve":
            dist = {}
            sv, bad = read_sv(obj.evolve(bs))
            for key, amp in sv:
                t = tuple(a + b for a, b in key)
                dist[t] = dist.get(t, 0.0) + abs(amp) ** 2
            out["sv"] = sv
            if bad:
                out["anomaly"] = bad
        else:
            dist = {tuple(k): float(v) for k, v in obj.probs(bs).items()}
        out["dist"] = dist
    except Exception as e:
        out.update(exc(e))
    return out


def observe_session(case):
    """-> list of per-step observations (None for a step that is not a query, {'set_err':…} if it raised)"""
    import perceval as pcvl
    from perceval.utils import BasicState
    from perceval.simulators import SimulatorFactory
    trees = session_trees(case)
    ljs = [build(t)[1] for t in trees]          # model side: fresh objects of the spec in force at each step
    reg = {}
    shared = {}                                 # the long-lived component objects held several times
    work = copy.deepcopy(case["tree"])          # carries the parameter tags of the long-lived objects
    c, _ = build(work, reg, shared)
    proc = case["path"] == "processor"
    obj = pcvl.Processor(case["backend"], c) if proc else SimulatorFactory.build(c, case["backend"])
    out = []
    for k, st in enumerate(case["steps"]):
        op = st["op"]
        if op in QUERY_OPS:
            o = observe_query(obj, case["path"], op, BasicState(state_text(st["modes"])))
            o["lean"] = ljs[k]
            out.append(o)
            continue
        try:
            if op == "set":
                work = copy.deepcopy(st["tree"])
                reg, shared = {}, {}
                c, _ = build(work, reg, shared)
                obj.set_circuit(c)
            elif op == "add":
                item = copy.deepcopy(st["item"])
                sub, _ = build(item["c"], reg, shared)
                work["ops"].append(item)
                if proc:
                    obj.add(item["off"], sub)
                else:
                    c.add(item["off"], sub)
                    obj.set_circuit(c)
            else:
                vals = var_values(st["leaf"])
                params = obj.get_circuit_parameters() if proc else {p.name: p for p in c.get_parameters()}
                tag = apply_retune(work, st["path"], st["leaf"])     # (every occurrence of a shared object)
                for key, v in vals.items():
                    params[key + tag].set_value(v)
                if not proc:
                    obj.set_circuit(c)           # the documented way to make a simulator see new parameter values
            out.append(None)
        except Exception as e:
            out.append({"set_err": exc(e)})
    return out, ljs


def session_req(case, obs, ljs):
    steps = [{"set": ljs[0]}]
    for k, st in enumerate(case["steps"]):
        if st["op"] in QUERY_OPS:
            steps.append({"q": lean_modes(obs[k]["angles"])})
        else:
            steps.append({"set": ljs[k + 1]})
    return {"op": "session", "fixed": True, "steps": steps}


def step_case(case, trees, k):
    st = case["steps"][k]
    path = case["path"] if st["op"] == "probs" else case["path"] + "." + st["op"]
    return {"kind": "probs", "tree": trees[k], "modes": st["modes"], "path": path, "backend": case["backend"]}


def is_identity(a):
    return isinstance(a, np.ndarray) and a.shape[0] == a.shape[1] and np.allclose(a, np.eye(a.shape[0]), atol=1e-12)


def judge_session(chk, case, obs=None, rep=None, count=False):
    """-> None or (kind, signature, what, replay, failing step)"""
    if obs is None:
        obs, ljs = observe_session(case)
        rep = chk.lean.ask(session_req(case, obs, ljs))
    if "err" in rep:
        return ("broken", "session-model-rejects", f"the model driver rejected the session: {rep['err']}",
                {"case": case}, 0)
    outs = rep["outs"][1:]
    trees = session_trees(case)
    prev = None            # (prep identity?, input signature, photons, rejected?) of the previous query
    changed = False        # circuit changed since the previous query
    for k, st in enumerate(case["steps"]):
        o, r = obs[k], outs[k]
        if st["op"] not in QUERY_OPS:
            changed = True
            if o is not None:
                e = o["set_err"]
                return ("violation", "circuit-change-raises",
                        f"step {k + 1} ({st['op']}) of a session on one {case['path']} object raised {e['err']} "
                        f"({e['msg']}) for an admissible circuit", {"case": case}, k)
            if r is not None:
                return ("broken", "session-model-rejects", f"model rejects the circuit of step {k + 1}: {r}",
                        {"case": case}, k)
            continue
        if r is None:
            return ("broken", "session-model-rejects", f"model gave no reply to the query of step {k + 1}",
                    {"case": case}, k)
        pc = step_case(case, trees, k)
        if count:
            conv = o["conv"]
            ident = is_identity(conv.get("prep")) if isinstance(conv, dict) else False
            rejected = "err" in r
            n = sum(o["counts"])
            key = json.dumps(o["angles"])
            if prev is not None:
                if not changed:
                    if ident and not rejected and prev[0] is False and not prev[3] and n > 0:
                        chk.branch("session-h-after-prepared" + ("-processor" if case["path"] == "processor" else ""))
                    if ident is False and prev[0] is False and key != prev[1] and not rejected and not prev[3]:
                        chk.branch("session-preparation-changes")
                    if key == prev[1] and not rejected:
                        chk.branch("session-same-input-again")
                else:
                    chk.branch("session-circuit-changed")
                    if key == prev[1] and not rejected:
                        chk.branch("session-same-input-new-circuit")
                if n != prev[2]:
                    chk.branch("session-photon-number-changes")
                if prev[3] and not rejected:
                    chk.branch("session-after-rejected-input")
            chk.branch("session-" + ("processor" if case["path"] == "processor" else "factory-" + st["op"]))
            chk.count("session_query", st["op"])
            prev = (ident if not rejected else None, key, n, rejected)
            changed = False
        res = judge_probs(chk, pc, o, r)
        if res is None:
            continue
        kind, sig, what, _ = res
        # is it the history?  the same (circuit, input) on a fresh object
        try:
            if st["op"] == "evolve":
                fresh = judge(chk, {"kind": "evolve", "tree": pc["tree"], "modes": pc["modes"],
                                    "backend": case["backend"]})
            else:
                fresh = judge(chk, dict(pc, path=case["path"]))
        except Exception:
            fresh = res
        if fresh is None:
            sig = "answer-depends-on-history"
            what = (f"query {k + 1} of a session on ONE {case['path']} object "
                    f"({', '.join(s['op'] for s in case['steps'][:k + 1])}): {what}; a fresh object gives the right "
                    f"answer for the same circuit and input {state_text(st['modes'])}")
        return (kind, sig, what, {"case": case, "failing_step": k + 1}, k)
    return None


def shrink_session(chk, case, sig, k):
    def fails(c):
        try:
            r = judge_session(chk, c)
        except Exception:
            return None
        return r if r is not None and r[1] == sig else None

    cur = copy.deepcopy(case)
    cur["steps"] = cur["steps"][:k + 1]
    if fails(cur) is None:
        return case
    budget = 40
    changed = True
    while changed and budget > 0:
        changed = False
        for i in range(len(cur["steps"]) - 1):
            cand = copy.deepcopy(cur)
            st = cand["steps"].pop(i)
            if st["op"] in ("add", "retune") and any(s["op"] == "retune" for s in cand["steps"][i:]):
                continue                      # paths of later re-tunings refer to this history
            budget -= 1
            if fails(cand) is not None:
                cur, changed = cand, True
                break
        if not changed:
            # remove components of the initial circuit that no later step refers to
            if any(s["op"] == "retune" for s in cur["steps"]):
                break
            for i in range(len(cur["tree"]["ops"])):
                if budget <= 0:
                    break
                cand = copy.deepcopy(cur)
                del cand["tree"]["ops"][i]
                if not requires(cand["tree"]):
                    continue
                budget -= 1
                if fails(cand) is not None:
                    cur, changed = cand, True
                    break
    return cur


def count_session(chk, case):
    tree = case["tree"]
    kinds = set()
    for leaf, _ in walk_leaves(tree):
        kinds.add(leaf["t"])
    for st in case["steps"]:
        if st["op"] in ("set", "add", "retune"):
            chk.branch("session-" + st["op"])
    trees = session_trees(case)
    for k, st in enumerate(case["steps"]):
        later_query = any(s2["op"] in QUERY_OPS for s2 in case["steps"][k + 1:])
        if st["op"] in QUERY_OPS:
            shapes = share_shapes(trees[k])
            if shapes:
                chk.branch("shared-session")
                for s in shapes:
                    chk.branch(s)
                    chk.count("shared_shape", s)
        elif st["op"] == "retune" and later_query and any(s2["op"] in QUERY_OPS for s2 in case["steps"][:k]):
            key = node_at(trees[k], st["path"]).get("share")
            if key is not None and shared_key_count(trees[k], key) > 1:
                chk.branch("shared-object-retuned")
                chk.branch("shared-session-retuned")
        elif st["op"] == "add" and later_query and st["item"]["c"].get("share") is not None and \
                shared_key_count(trees[k], st["item"]["c"]["share"]) > 0:
            chk.branch("shared-session-added-again")
    chk.count("kind", "session")
    chk.count("session_steps", len(case["steps"]))
    nontrivial = any(k in POL_KINDS for k in kinds) and any(k in ("BS", "U", "UH", "PERM") for k in kinds)
    sig = ("S", case["path"], case["backend"], tree_sig(tree),
           tuple((st["op"], input_sig(st["modes"]) if "modes" in st else None) for st in case["steps"]))
    return sig, nontrivial


def prepare_sessions(cases):
    obs_list, reqs = [], []
    for case in cases:
        obs, ljs = observe_session(case)
        obs_list.append(obs)
        reqs.append(session_req(case, obs, ljs))
    return obs_list, reqs


def handle_sessions(chk, cases):
    obs_list, reqs = prepare_sessions(cases)
    finish_sessions(chk, cases, obs_list, chk.lean.ask_many(reqs))


def finish_sessions(chk, cases, obs_list, reps):
    for case, obs, rep in zip(cases, obs_list, reps):
        sig, nontrivial = count_session(chk, case)
        chk.case(sig, nontrivial=nontrivial,
                 sample={"kind": "session", "path": case["path"] + ":" + case["backend"], "m": case["tree"]["circ"],
                         "steps": [st["op"] + (":" + state_text(st["modes"]) if "modes" in st else "")
                                   for st in case["steps"]][:8]})
        res = judge_session(chk, case, obs, rep, count=True)
        if res is None:
            continue
        kind, sig, what, replay, k = res
        small = case
        if not case.get("corpus"):
            try:
                small = shrink_session(chk, case, sig, k)
                again = judge_session(chk, small) if small is not case else None
                if again is not None and again[1] == sig:
                    what = again[2]
            except Exception:
                small = case
        chk.fail(kind, sig, what, {"case": small,
                                   "steps": [st["op"] + (":" + state_text(st["modes"]) if "modes" in st else "")
                                             for st in small["steps"]]})


# ------------------------------------------------------------------------------------------------
# wave 9: the SHAPE of the input handed to probs / probs_svd / evolve of the polarisation layer
# (`PolarizationSimulator._prepare_input` before the conversion) against `dispatch` / `shapeEnv`
# ------------------------------------------------------------------------------------------------
SHAPE_KINDS = ["bs", "svd-single", "sv1", "sv2", "svd-superposition", "svd-two", "svd-empty", "svd-mixed",
               "bs", "svd-single"]
LAYER_REFUSAL = "Polarization simulator can only process BasicState inputs"


def gen_distinct_inputs(rng, m, nmax, k, malformed_first=False):
    """k polarised Fock states on m modes with pairwise different photon-count patterns (distinct native states)"""
    out, seen = [], set()
    for _ in range(400):
        if len(out) == k:
            break
        modes = gen_input(rng, m, nmax, malformed=(malformed_first and not out))
        key = tuple(mode_count(md) for md in modes)
        if key in seen:
            continue
        seen.add(key)
        out.append(modes)
    return out


def gen_shape_case(chk, rng, idx, max_m, max_depth, max_ops, nmax):
    m = rng.choice([2, 2, 3][:max(1, max_m - 1)] + [min(2, max_m)])
    tree = force_polarised(rng, gen_tree(rng, m, rng.randint(0, max_depth), rng.randint(1, max_ops)))
    sk = SHAPE_KINDS[idx % len(SHAPE_KINDS)]
    sizes = {"bs": [1], "svd-single": [1], "sv1": [1], "sv2": [2], "svd-superposition": [2], "svd-two": [1, 1],
             "svd-empty": [], "svd-mixed": [2, 1]}[sk]
    flat = gen_distinct_inputs(rng, m, nmax, sum(sizes),
                               malformed_first=(idx % 20 in (2, 3, 4, 7)) or rng.random() < 0.1)
    if len(flat) < sum(sizes):
        sk, sizes = "bs", [1]
        flat = gen_distinct_inputs(rng, m, nmax, 1)
    if sk in ("bs", "svd-single") and (idx % 20 in (11, 18) or rng.random() < 0.05):
        flat = [gen_input(rng, m, nmax, vacuum=True)]      # the vacuum is a BasicState like any other
    comps, at = [], 0
    for s in sizes:
        comps.append(flat[at:at + s])
        at += s
    if sk.startswith("svd"):
        entry = "svd" if rng.random() < 0.8 else rng.choice(["probs", "evolve"])
    else:
        entry = rng.choice(["probs", "evolve"]) if rng.random() < 0.85 else "svd"
    if idx % 20 == 8 and sk == "bs":
        entry = "svd"                      # accepted by the layer, refused by the wrapped simulator's entry point
    elif idx % 20 == 9 and sk == "svd-single":
        entry = rng.choice(["probs", "evolve"])
    elif idx % 20 == 11 and sk == "svd-single":
        entry = "svd"
    elif idx % 20 == 0 and sk == "bs":
        entry = "evolve"
    return {"kind": "shape", "tree": tree, "backend": rng.choice(["SLOS", "Naive"]), "shape": sk, "comps": comps,
            "entry": entry, "pre": rng.random() < 0.5, "base": gen_input(rng, m, nmax)}


def build_shape(case):
    import perceval as pcvl
    from perceval.utils import BasicState, StateVector
    sk = case["shape"]
    states = [[BasicState(state_text(md)) for md in sv] for sv in case["comps"]]
    if sk == "bs":
        return states[0][0], states
    svs = []
    for comp in states:
        sv = StateVector(comp[0])
        for b in comp[1:]:
            sv = sv + StateVector(b)
        svs.append(sv)
    if sk in ("sv1", "sv2"):
        return svs[0], states
    svd = pcvl.SVDistribution()
    for sv in svs:
        svd[sv] = 1.0 / len(svs)
    return svd, states


def observe_shape(case):
    from perceval.utils import BasicState, convert_polarized_state
    from perceval.simulators import SimulatorFactory
    c, lj = build(case["tree"])
    sim = SimulatorFactory.build(c, case["backend"])
    bs0 = BasicState(state_text(case["base"]))
    out = {"lean": lj, "steps": []}
    if case["pre"]:
        out["steps"].append(observe_query(sim, "factory", "probs", bs0))
    obj, states = build_shape(case)
    o = {"comp_angles": [[read_back(b) for b in sv] for sv in states]}
    if states and states[0]:
        cand = states[0][0]
        o.update({"angles": read_back(cand), "counts": list(cand)})
        try:
            sp_in, prep = convert_polarized_state(cand)
            o["conv"] = {"input": list(sp_in), "prep": None if prep is None else np.array(prep, dtype=complex)}
        except Exception as e:
            o["conv"] = exc(e)
    try:
        entry = case["entry"]
        if entry == "svd":
            res = sim.probs_svd(obj)
            dist = {tuple(k): float(v) for k, v in res["results"].items()}
            o["perf"] = (float(res["physical_perf"]), float(res["logical_perf"]))
        elif entry == "evolve":
            dist = {}
            sv, bad = read_sv(sim.evolve(obj))
            for key, amp in sv:
                tk = tuple(a + b for a, b in key)
                dist[tk] = dist.get(tk, 0.0) + abs(amp) ** 2
        else:
            dist = {tuple(k): float(v) for k, v in sim.probs(obj).items()}
        o["dist"] = dist
    except Exception as e:
        o.update(exc(e))
    out["steps"].append(o)
    out["steps"].append(observe_query(sim, "factory", "probs", bs0))
    for st in out["steps"]:
        st["lean"] = lj
    return out


def shape_req(case, obs):
    steps = [{"set": obs["lean"]}]
    shaped = obs["steps"][-2]
    comps = [[lean_modes(a) for a in sv] for sv in shaped["comp_angles"]]
    sk = case["shape"]
    item = {"bs": comps[0][0]} if sk == "bs" else ({"sv": comps[0]} if sk in ("sv1", "sv2") else {"svd": comps})
    base = {"bs": lean_modes(obs["steps"][-1]["angles"])}
    if case["pre"]:
        steps.append(base)
    steps += [item, base]
    return {"op": "shaped", "fixed": True, "steps": steps}


def judge_shape(chk, case, obs=None, rep=None, count=False):
    """-> None | (kind, signature, what, replay)"""
    if obs is None:
        obs = observe_shape(case)
    if rep is None:
        rep = chk.lean.ask(shape_req(case, obs))
    replay = {"case": case}
    if "err" in rep or "outs" not in rep:
        return ("broken", "model-rejects", f"driver refused a shaped session: {rep.get('err')}", replay)
    outs, wraps = rep["outs"][1:], rep["wrap"][1:]
    if len(outs) != len(obs["steps"]):
        return ("broken", "model-vs-code", "driver answered another number of steps", replay)
    sk, entry = case["shape"], case["entry"]
    base_case = {"kind": "probs", "tree": case["tree"], "modes": case["base"], "path": "factory",
                 "backend": case["backend"]}
    k_shaped = len(outs) - 2
    what_in = f"{entry}({sk} of {[[state_text(md) for md in sv] for sv in case['comps']]})"
    for k, (o, r, w) in enumerate(zip(obs["steps"], outs, wraps)):
        if k != k_shaped:
            res = judge_probs(chk, base_case, o, r)
            if res is not None:
                after = k > k_shaped
                return (res[0], ("shape-request-changes-object:" if after else "") + res[1],
                        (f"on one simulator, probs({state_text(case['base'])}) after {what_in}: " if after else "")
                        + res[2], replay)
            if k > k_shaped and count:
                chk.branch("shape-query-after-shaped-request")
            continue
        refused_by_layer = o.get("err") == "NotImplementedError" and LAYER_REFUSAL in o.get("msg", "")
        if isinstance(r, dict) and r.get("err") == "NotImplementedError":
            # the model refuses the SHAPE (before any conversion)
            if refused_by_layer:
                if count:
                    chk.branch({"sv1": "shape-sv-rejected", "sv2": "shape-sv-rejected",
                                "svd-superposition": "shape-svd-superposition-rejected",
                                "svd-two": "shape-svd-several-rejected", "svd-mixed": "shape-svd-several-rejected",
                                "svd-empty": "shape-svd-empty-rejected"}[sk])
                    if isinstance(o.get("conv"), dict) and "err" in o["conv"]:
                        chk.branch("shape-rejected-before-conversion")
                continue
            if "err" not in o:
                # the statement, directly: a polarised simulation is defined for ONE polarised Fock state; an answer to
                # a superposition / a mixture can only have been computed from one of its components
                return ("violation", "superposition-input-answered",
                        f"{what_in} returned a result; the layer converts one BasicState only "
                        "(documented refusal: NotImplementedError)", replay)
            return ("broken", "shape-error-class", f"{what_in} raised {o['err']} ({o.get('msg')}), the layer's "
                    "documented refusal is NotImplementedError", replay)
        if sk not in ("bs", "svd-single"):
            return ("broken", "model-accepts-shape", f"the model accepts {what_in}", replay)
        cand_case = dict(base_case, modes=case["comps"][0][0])
        if w is not None and w != (entry == "svd"):
            # accepted by the layer, handed to an entry point of the wrapped simulator that takes the other form:
            # the wrapped simulator's own type error (class not specified)
            if "err" in o and not refused_by_layer:
                if count:
                    chk.branch("shape-entry-mismatch")
                continue
            if refused_by_layer:
                return ("violation", "single-state-input-refused", f"{what_in} refused by the layer", replay)
            return ("broken", "mismatched-entry-answered", f"{what_in} returned a result", replay)
        if refused_by_layer:
            return ("violation", "single-state-input-refused",
                    f"{what_in} raised NotImplementedError; a one-state distribution / a BasicState is the "
                    "documented input of the polarised simulation", replay)
        res = judge_probs(chk, cand_case, o, r)
        if res is not None:
            return (res[0], res[1], f"{what_in}: " + res[2], replay)
        if count:
            chk.branch("shape-bs" if sk == "bs" else "shape-svd-single")
            if sk == "svd-single" and sum(o["counts"]) == 0:
                chk.branch("shape-svd-single-vacuum")
            if entry == "evolve":
                chk.branch("shape-evolve")
    return None


def run_shapes(chk, rng, n, max_m, max_depth, max_ops, nmax):
    cases = [gen_shape_case(chk, rng, i, max_m, max_depth, max_ops, nmax) for i in range(n)]
    handle_shapes(chk, cases)


def handle_shapes(chk, cases):
    obs = [observe_shape(c) for c in cases]
    reps = chk.lean.ask_many([shape_req(c, o) for c, o in zip(cases, obs)])
    for case, o, rep in zip(cases, obs, reps):
        chk.count("kind", "shape")
        chk.count("shape", case["shape"] + ":" + case["entry"])
        chk.case(("Sh", case["shape"], case["entry"], case["pre"], tree_sig(case["tree"])),
                 nontrivial=case["shape"] != "bs",
                 sample={"kind": "shape", "shape": case["shape"], "entry": case["entry"]})
        res = judge_shape(chk, case, o, rep, count=True)
        if res is None:
            continue
        small = case
        if case["pre"] and not case.get("corpus"):
            try:
                cand = dict(case, pre=False)
                again = judge_shape(chk, cand)
                if again is not None and again[1] == res[1]:
                    small, res = cand, again
            except Exception:
                small = case
        chk.fail(res[0], res[1], res[2], {"case": small})


# ------------------------------------------------------------------------------------------------
# label table
# ------------------------------------------------------------------------------------------------
STANDARD = {"H": (1, 0), "V": (0, 1), "D": (1, 1), "A": (1, -1), "L": (1, 1j), "R": (1, -1j)}   # D…R: × 1/√2


def check_labels(chk):
    import sympy as sp
    from perceval.utils import BasicState
    from perceval.utils.polarization import POLARIZATION_MAPPING, Polarization
    rep = chk.lean.ask({"op": "labels"})
    chk.extra["label_turns"] = {k: tuple(v) for k, v in rep.items()}
    chk.case(("labels",), nontrivial=False)
    if sorted(POLARIZATION_MAPPING) != sorted(rep):
        chk.fail("violation", "label-table", f"labels {sorted(POLARIZATION_MAPPING)} vs {sorted(rep)}", {"labels": True})
        return
    for lab, (a, b) in rep.items():
        th, ph = POLARIZATION_MAPPING[lab]
        if sp.simplify(th - a * sp.pi / 2) != 0 or sp.simplify(ph - b * sp.pi / 2) != 0:
            chk.fail("violation", "label-table", f"POLARIZATION_MAPPING[{lab}] = ({th}, {ph}), model ({a}π/2, {b}π/2)",
                     {"labels": True})
        eh, ev = Polarization(lab).project_eh_ev()
        sh, sv = STANDARD[lab]
        nrm = 1.0 if lab in "HV" else math.sqrt(2)
        if abs(complex(eh) - sh / nrm) > 1e-12 or abs(complex(ev) - sv / nrm) > 1e-12:
            chk.fail("violation", "label-jones-vector",
                     f"Polarization('{lab}').project_eh_ev() = ({eh}, {ev}) is not the standard Jones vector "
                     f"({sh}, {sv})/{nrm:.6f}", {"labels": True})
        (ang,), = read_back(BasicState("|{P:%s}>" % lab))
        c, s, p, q = trig4(*ang)
        if abs(c - sh / nrm) > ANGLE_TOL or abs((p + 1j * q) * s - sv / nrm) > ANGLE_TOL:
            chk.fail("violation", "label-jones-vector",
                     f"BasicState('|{{P:{lab}}}>') stores angles {ang} whose Jones vector is not ({sh}, {sv})/{nrm:.6f}",
                     {"labels": True})
        chk.branch("label-table")


# ------------------------------------------------------------------------------------------------
# ------------------------------------------------------------------------------------------------
# extension 3a: `compute_unitary(use_polarization=flag)` on ONE component of every class (`leafUnitary`)
# ------------------------------------------------------------------------------------------------
LEAF_CLASSES = ("BS", "PS", "PERM", "U", "UH", "Barrier", "WP", "HWP", "QWP", "PR", "PBS", "PU", "PUH")


def gen_leaf_of(rng, cls):
    if cls in POL_KINDS:
        for _ in range(200):
            lf = gen_pol_leaf(rng, 2)
            if lf["t"] == cls:
                return lf
        raise RuntimeError("no leaf of class " + cls)
    return gens.gen_leaf(rng, 3, kinds=(cls,))


def observe_leaf(case):
    obj, lj = build_leaf(copy.deepcopy(case["leaf"]))
    out = {"lean": lj, "m": obj.m, "requires": bool(obj.requires_polarization)}
    try:
        flag = case["flag"]
        u = obj.compute_unitary() if flag is None else obj.compute_unitary(use_polarization=flag)
        out["U"] = np.array(u, dtype=complex)
    except Exception as e:
        out.update(exc(e))
    return out


def judge_leaf(chk, case, obs=None, rep=None):
    """-> None | (kind, signature, what, replay)"""
    if obs is None:
        obs = observe_leaf(case)
    if rep is None:
        rep = chk.lean.ask({"op": "leaf", "kind": obs["lean"], "flag": case["flag"]})
    replay = {"case": case}
    cls, flag = case["leaf"]["t"], case["flag"]
    pol = cls in POL_KINDS
    if obs["requires"] != pol:
        return ("violation", "leaf-requires-polarization", f"{cls}.requires_polarization is {obs['requires']}", replay)
    if not pol and len(obs["lean"]["U"]) != obs["m"]:
        # (the harness reads an ordinary component's own matrix through compute_unitary() without flag)
        return ("violation", "leaf-doubling-wrong", f"{cls}.compute_unitary() of a component without polarisation "
                f"support on {obs['m']} mode(s) has {len(obs['lean']['U'])} rows", replay)
    if "err" in rep:
        if rep["err"] != "AssertionError":
            return ("broken", "model-rejects", f"model rejects a single {cls}: {rep['err']}", replay)
        if obs.get("err") == "AssertionError":
            chk.branch("leaf-pol-false-rejected")
            return None
        if "err" in obs:
            return ("broken", "error-class", f"real code raised {obs['err']}, model AssertionError", replay)
        return ("violation", "polarised-circuit-gives-spatial-matrix",
                f"{cls}.compute_unitary(use_polarization=False) returned a matrix for a polarising component", replay)
    model_u = np.array(core.unmat(rep["U"]), dtype=complex)
    # the statement, directly: a polarising class reports its own 2m × 2m matrix; any other class its own m × m matrix
    # for None / False and that matrix acting identically on both polarisations for True
    own = oracle_doubled(obs["lean"]) if pol else np.array(core.unmat(obs["lean"]["U"]), dtype=complex)
    spec = own if (pol or flag is not True) else np_double(own)
    if "err" not in obs and obs["U"].shape == model_u.shape and np.allclose(obs["U"], model_u, rtol=core.TOL, atol=core.TOL):
        chk.branch("leaf-pol-own" if pol else ("leaf-ordinary-doubled" if flag is True else "leaf-ordinary-plain"))
        if model_u.shape != spec.shape or not np.allclose(model_u, spec, atol=1e-9):
            return ("broken", "model-vs-oracle", "the model's single-component matrix is not the statement's", replay)
        return None
    if "err" in obs:
        return ("violation", "leaf-doubling-raises", f"{cls}.compute_unitary(use_polarization={flag}) raised "
                f"{obs['err']} ({obs['msg']})", replay)
    if obs["U"].shape != spec.shape or not np.allclose(obs["U"], spec, atol=1e-7):
        d = "shape %s vs %s" % (obs["U"].shape, spec.shape) if obs["U"].shape != spec.shape else \
            "max difference %.3g" % float(np.max(np.abs(obs["U"] - spec)))
        return ("violation", "leaf-doubling-wrong", f"{cls}.compute_unitary(use_polarization={flag}) is not "
                + ("the component's own matrix" if spec is own else "matrix_double of the component's own matrix "
                   "(the same action on both polarisations)") + f" ({d})", replay)
    return ("broken", "model-vs-code", "Lean model and implementation disagree on a single component but the direct "
            "oracle holds", replay)


def run_leaves(chk, rng, reps):
    cases = [{"kind": "leaf", "leaf": gen_leaf_of(rng, cls), "flag": flag}
             for _ in range(reps) for cls in LEAF_CLASSES for flag in (None, True, False)]
    obs = [observe_leaf(c) for c in cases]
    answers = chk.lean.ask_many([{"op": "leaf", "kind": o["lean"], "flag": c["flag"]} for c, o in zip(cases, obs)])
    for case, o, rep in zip(cases, obs, answers):
        chk.count("kind", "leaf")
        chk.count("leaf_class", case["leaf"]["t"])
        chk.case(("F", case["leaf"]["t"], case["flag"], leaf_width(case["leaf"])), nontrivial=case["flag"] is not None,
                 sample={"kind": "leaf", "class": case["leaf"]["t"], "flag": case["flag"]})
        res = judge_leaf(chk, case, o, rep)
        if res is not None:
            chk.fail(res[0], res[1], res[2], res[3])


# ------------------------------------------------------------------------------------------------
# extension 3b: the input bookkeeping of ONE `Processor` (with_input / with_polarized_input / noise /
# min_detected_photons_filter / clear_input_and_circuit / probs) against the model's machine `procStep`
# ------------------------------------------------------------------------------------------------
NOISE_CHOICES = [None, {}, {"brightness": 0.6}, {"transmittance": 0.5}, {"g2": 0.1}, {"indistinguishability": 0.7},
                 {"brightness": 0.8, "g2": 0.05}]


def make_noise(params):
    from perceval.utils import NoiseModel
    return None if params is None else NoiseModel(**params)


def canon_tags(text):
    """distinguishability tags `_:k` of a noisy source are names: renumber them in order of appearance in the state"""
    import re
    seen = {}
    return re.sub(r"_:(\d+)", lambda mt: "_:t%d" % seen.setdefault(mt.group(1), len(seen)), text)


def canon_svd(svd):
    if svd is None:
        return None
    acc = {}
    for sv, p in svd.items():
        k = canon_tags(str(sv))
        acc[k] = acc.get(k, 0.0) + float(p)
    return sorted(acc.items())


def same_svd(a, b):
    if a is None or b is None:
        return a is None and b is None
    return len(a) == len(b) and all(x[0] == y[0] and abs(x[1] - y[1]) <= 1e-12 for x, y in zip(a, b))


def gen_proc(chk, rng, max_m, max_depth, max_ops, nmax):
    m = pick_m(rng, max_m)
    tree = force_polarised(rng, gen_tree(rng, m, rng.randint(0, max_depth), rng.randint(1, max_ops)))
    plains = []
    for _ in range(rng.randint(1, 2)):
        cnt = [0] * m
        for _ in range(rng.randint(1, nmax)):
            cnt[rng.randrange(m)] += 1
        plains.append(cnt)
    pols = [for_processor(gen_input(rng, m, nmax)) for _ in range(rng.randint(1, 2))]
    noises = [rng.choice(NOISE_CHOICES[:2])] + [rng.choice(NOISE_CHOICES) for _ in range(2)]
    if rng.random() < 0.3:
        noises[0] = rng.choice(NOISE_CHOICES)
    steps = []
    have_input = False
    for _ in range(rng.randint(4, 9)):
        r = rng.random()
        if not have_input or r < 0.22:
            if rng.random() < 0.65:
                steps.append({"pol": rng.randrange(len(pols))})
            else:
                steps.append({"in": rng.randrange(len(plains))})
            have_input = True
        elif r < 0.47:
            steps.append({"noise": rng.randrange(len(noises))})
        elif r < 0.57:
            steps.append({"min": rng.choice([0, 0, 1, 2, nmax])})
        elif r < 0.62:
            steps.append({"clear": True})
            have_input = False
        else:
            steps.append({"q": True})
    steps.append({"q": True})
    return {"kind": "proc", "tree": tree, "backend": rng.choice(["SLOS", "Naive"]), "plains": plains, "pols": pols,
            "noises": noises, "steps": steps}


def observe_proc(case):
    import perceval as pcvl
    from perceval.utils import BasicState
    c, lj = build(copy.deepcopy(case["tree"]))
    pol_bs = [BasicState(state_text(md)) for md in case["pols"]]
    out = {"lean": lj, "pol_angles": [read_back(bs) for bs in pol_bs], "pol_n": [bs.n for bs in pol_bs],
           "pol_canon": [canon_svd(pcvl.SVDistribution(bs)) for bs in pol_bs], "outs": [], "perfect": [], "gen": {}}
    for z, params in enumerate(case["noises"]):
        out["perfect"].append(bool(pcvl.Source.from_noise_model(make_noise(params)).is_perfect()))
        for k, cnt in enumerate(case["plains"]):
            svd = pcvl.Source.from_noise_model(make_noise(params)).generate_distribution(BasicState(cnt))
            single = None
            if len(svd) == 1:
                sv = list(svd.keys())[0]
                if len(sv) == 1:
                    single = list(sv[0])
            out["gen"][(z, k)] = {"canon": canon_svd(svd), "single": single}
    p = pcvl.Processor(case["backend"], c, noise=make_noise(case["noises"][0]))
    for st in case["steps"]:
        try:
            if "in" in st:
                p.with_input(BasicState(case["plains"][st["in"]]))
                out["outs"].append(None)
            elif "pol" in st:
                p.with_polarized_input(pol_bs[st["pol"]])
                out["outs"].append(None)
            elif "noise" in st:
                p.noise = make_noise(case["noises"][st["noise"]])
                out["outs"].append(None)
            elif "min" in st:
                p.min_detected_photons_filter(st["min"])
                out["outs"].append(None)
            elif "clear" in st:
                p.clear_input_and_circuit()
                p.add(0, c)
                out["outs"].append(None)
            else:
                o = {}
                try:
                    res = p.probs()
                    o["dist"] = {tuple(k): float(v) for k, v in res["results"].items()}
                    o["perf"] = (float(res["physical_perf"]), float(res["logical_perf"]))
                except Exception as e:
                    o.update(exc(e))
                # what the object holds after the query (the check of the filter comes first: nothing is read if it raised)
                if o.get("err") != "ValueError":
                    o["min"] = p.experiment.min_photons_filter
                    o["sd"] = canon_svd(p.source_distribution)
                out["outs"].append(o)
        except Exception as e:
            out["outs"].append(exc(e))
    return out


def proc_req(case, obs):
    return {"op": "proc", "nS": [sum(c) for c in case["plains"]], "nI": obs["pol_n"], "perfect": obs["perfect"],
            "hsum": 0, "z0": 0, "steps": case["steps"]}


def proc_expect(chk, case, obs, term, v):
    """what the simulator must answer when handed the model's term with photon filter v
    -> ('err', class) | ('sim', lean tree, angles, pseudo selection case)"""
    if term is None:
        return ("err", None)             # nothing to simulate: any exception of the simulator
    if "single" in term:
        angles = obs["pol_angles"][term["single"]]
        modes = case["pols"][term["single"]]
    else:
        z, k = term.get("gen") or term["genpol"]
        if "genpol" in term:
            return ("broken", "the model sends a polarised state through the source")
        g = obs["gen"][(z, k)]
        if g["single"] is None:
            return ("err", "NotImplementedError")
        angles = [[(0.0, 0.0)] * cnt for cnt in g["single"]]
        modes = [{"kind": "vac"} if cnt == 0 else {"kind": "plain", "n": cnt} for cnt in g["single"]]
    pseudo = {"sel": {"heralds": [], "ps": None, "psj": True, "keep": False, "v": v}, "modes": modes}
    return ("sim", obs["lean"], angles, pseudo)


def judge_proc(chk, case, obs=None, rep=None, count=False):
    if obs is None:
        obs = observe_proc(case)
    if rep is None:
        rep = chk.lean.ask(proc_req(case, obs))
    replay = {"case": case}
    if "err" in rep:
        return ("broken", "model-rejects", f"model rejects a processor history: {rep['err']}", replay)
    last_input = None
    noise_since_input = False
    for k, (st, real, mod) in enumerate(zip(case["steps"], obs["outs"], rep["outs"])):
        where = f"step {k} ({json.dumps(st)}) of {json.dumps(case['steps'])}"
        if "pol" in st or "in" in st:
            if count and last_input is not None and ("pol" in st) != ("pol" in last_input):
                chk.branch("proc-pol-after-plain" if "pol" in st else "proc-plain-after-pol")
            last_input, noise_since_input = st, False
        elif "noise" in st:
            noise_since_input = True
        elif "clear" in st:
            last_input = None
            if count:
                chk.branch("proc-clear")
        if "q" not in st:
            if real is not None:
                return ("broken", "setter-raises", f"{where}: raised {real}", replay)
            if mod is not None:
                return ("broken", "model-vs-code", f"{where}: model replied {mod}", replay)
            continue
        if mod is None:
            return ("broken", "model-vs-code", f"{where}: model gave no reply", replay)
        if "err" in mod:
            # check_min_detected_photons_filter refuses (no value, and no perfect source / no input)
            if real.get("err") == mod["err"]:
                if count:
                    chk.branch("proc-auto-filter-refused")
                continue
            return ("broken", "error-class", f"{where}: real code {real.get('err', 'answered')}, model {mod['err']}", replay)
        if real.get("err") == "ValueError" and "min_detected_photons" in real.get("msg", ""):
            return ("broken", "model-vs-code", f"{where}: the filter check refused, the model answers", replay)
        term, v = mod["dist"], mod["min"]
        # 1. what the object hands to the simulator: the cached input distribution and the photon filter
        if term is None:
            want_sd = None
        elif "single" in term:
            want_sd = obs["pol_canon"][term["single"]]
        elif "gen" in term:
            want_sd = obs["gen"][tuple(term["gen"])]["canon"]
        else:
            want_sd = "source(polarised)"
        if "sd" in real and not same_svd(real["sd"], want_sd):
            pol = last_input is not None and "pol" in last_input
            if pol:
                return ("violation", "polarised-input-through-source",
                        f"{where}: the processor was given the polarised input {state_text(case['pols'][last_input['pol']])} "
                        f"and hands the simulator {real['sd']!r} instead of that state (noise models "
                        f"{case['noises']})", replay)
            # direct oracle for an ordinary input: a fresh source of the noise in force
            return ("violation", "stale-input-distribution",
                    f"{where}: source_distribution is {real['sd']!r}; a fresh source of the noise model in force on the "
                    f"input in force gives {want_sd!r}", replay)
        if real.get("min") is not None and real["min"] != v:
            return ("broken", "model-vs-code", f"{where}: photon filter {real['min']}, model {v}", replay)
        if count:
            if last_input is not None and noise_since_input:
                chk.branch("proc-pol-after-noise" if "pol" in last_input else "proc-plain-after-noise")
            chk.branch("proc-query")
        # 2. the reply of probs()
        exp = proc_expect(chk, case, obs, term, v)
        if exp[0] == "broken":
            return ("broken", "model-vs-code", f"{where}: {exp[1]}", replay)
        if exp[0] == "err":
            if "err" not in real or (exp[1] is not None and real["err"] != exp[1]):
                return ("broken", "error-class", f"{where}: expected {exp[1] or 'an exception'}, got "
                        f"{real.get('err', 'an answer')}", replay)
            if count:
                chk.branch("proc-noisy-source-rejected" if exp[1] else "proc-no-input")
            continue
        _, lj, angles, pseudo = exp
        r2 = chk.lean.ask({"op": "select", "tree": lj, "modes": lean_modes(angles), "fixed": True, "filterFixed": True,
                           "sel": lean_sel(pseudo["sel"], v)})
        if "err" in r2:
            if "err" in real:
                continue
            return ("broken", "model-rejects", f"{where}: model rejects the simulation ({r2['err']})", replay)
        model = {tuple(t): float(Fraction(pr)) for t, pr in r2["results"]}
        mphys, mlogic = float(Fraction(r2["phys"])), float(Fraction(r2["logic"]))
        why = None
        if "err" in real:
            why = f"raised {real['err']}: {real['msg']}"
        else:
            for t in set(real["dist"]) | set(model):
                if not core.close(real["dist"].get(t, 0.0), model.get(t, 0.0)):
                    why = f"P{list(t)} = {real['dist'].get(t, 0.0)!r}, exact {model.get(t, 0.0)!r}"
                    break
            if why is None and not core.close(real["perf"][0], mphys):
                why = f"physical_perf {real['perf'][0]!r}, exact {mphys!r}"
            if why is None and mphys > 0 and not core.close(real["perf"][1], mlogic):
                why = f"logical_perf {real['perf'][1]!r}, exact {mlogic!r}"
        if why is None:
            if count and "single" in term:
                chk.branch("proc-polarised-simulated")
            continue
        status, res, phys, logic = oracle_select(lj, angles, pseudo)
        if status == "ok" and "err" not in real:
            bad = [t for t in set(real["dist"]) | set(res) if abs(real["dist"].get(t, 0.0) - res.get(t, 0.0)) > 1e-6]
            if bad or abs(real["perf"][0] - phys) > 1e-6:
                return ("violation", "processor-input-not-simulated",
                        f"{where}: probs() is not the polarised simulation of the input in force with photon filter {v}: "
                        f"{why}", replay)
        if status == "ok" and "err" in real:
            return ("violation", "processor-probs-raises", f"{where}: {why}", replay)
        return ("broken", "model-vs-code", f"{where}: {why}", replay)
    return None


def shrink_proc(chk, case, sig):
    def fails(c):
        try:
            r = judge_proc(chk, c)
        except Exception:
            return False
        return r is not None and r[1] == sig
    cur = copy.deepcopy(case)
    cur["steps"] = gens.shrink_list(cur["steps"], lambda st: fails({**cur, "steps": st}), max_rounds=40)
    return cur


def run_procs(chk, rng, n, max_m, max_depth, max_ops, nmax):
    cases = [gen_proc(chk, rng, max_m, max_depth, max_ops, nmax) for _ in range(n)]
    handle_procs(chk, cases)


def handle_procs(chk, cases):
    obs = [observe_proc(c) for c in cases]
    answers = chk.lean.ask_many([proc_req(c, o) for c, o in zip(cases, obs)])
    for case, o, rep in zip(cases, obs, answers):
        chk.count("kind", "proc")
        chk.count("proc_steps", len(case["steps"]))
        pat = tuple(next(iter(st)) for st in case["steps"])
        chk.case(("R", case["backend"], tree_sig(case["tree"]), pat),
                 nontrivial=any("noise" in st for st in case["steps"]) and any("pol" in st for st in case["steps"]),
                 sample={"kind": "proc", "steps": case["steps"], "noises": case["noises"]})
        res = judge_proc(chk, case, o, rep, count=True)
        if res is not None:
            small = case
            if not case.get("corpus"):
                try:
                    small = shrink_proc(chk, case, res[1])
                except Exception:
                    small = case
            chk.fail(res[0], res[1], res[2], {"case": small})


def pick_m(rng, max_m):
    """mostly the larger sizes (one spatial mode has no mode mixing)"""
    return rng.choice([1] + list(range(2, max_m + 1)) * 3 + [max_m] * 2)


def gen_case(chk, rng, max_m, max_depth, max_ops, nmax):
    r = rng.random()
    m = pick_m(rng, max_m)
    if r < 0.34:
        # compute_unitary
        if rng.random() < 0.12:
            tree = {"leaf": gen_leaf(rng, max_m, 0.6)}
        else:
            tree = gen_tree(rng, m, rng.randint(0, max_depth), rng.randint(1, max_ops),
                            p_pol=rng.choice([0.0, 0.3, 0.5]))
        if rng.random() < 0.06 and "circ" in tree:
            # an empty (sub-)circuit: top level, or nested unmerged
            if rng.random() < 0.3:
                tree = {"circ": m, "ops": []}
            else:
                k = rng.randint(1, m)
                tree["ops"].insert(rng.randint(0, len(tree["ops"])),
                                   {"off": rng.randint(0, m - k), "c": {"circ": k, "ops": []}, "merge": False})
                if rng.random() < 0.7:
                    force_polarised(rng, tree)
        flag = rng.choice([None, None, True, True, True, False])
        case = {"kind": "unitary", "tree": tree, "flag": flag}
        if rng.random() < 0.2:
            case["pre"] = [rng.choice([None, True, False]) for _ in range(rng.randint(1, 2))]
        return case
    m = pick_m(rng, max_m)
    if rng.random() < 0.06:
        tree = {"leaf": gen_pol_leaf(rng, 2)}
        m = leaf_width(tree["leaf"])
    else:
        tree = force_polarised(rng, gen_tree(rng, m, rng.randint(0, max_depth), rng.randint(1, max_ops)))
    malformed = rng.random() < 0.1
    vacuum = rng.random() < 0.03
    modes = gen_input(rng, m, nmax, malformed=malformed, vacuum=vacuum)
    path = rng.choice(["factory", "factory", "processor"])
    if path == "processor" and not any(md["kind"] in ("one", "two", "nonorth", "three") for md in modes):
        path = "factory"       # with_polarized_input requires a polarised state
    return {"kind": "probs", "tree": tree, "modes": modes, "path": path, "backend": rng.choice(["SLOS", "Naive"])}


def gen_case_ext(chk, rng, max_m, max_depth, max_ops, nmax):
    """cases of the extension: evolve (amplitudes + annotations), convert_polarized_state(use_symbolic, inverse),
    selection (heralds / post-selection / photon filter / detectors) on a polarised simulator or Processor"""
    r = rng.random()
    if r < 0.22:
        m = rng.randint(1, max_m + 1)
        malformed = rng.random() < 0.28
        modes = gen_input(rng, m, nmax + 1, malformed=malformed, vacuum=rng.random() < 0.04)
        return {"kind": "convert", "modes": modes, "symbolic": rng.random() < 0.4, "inverse": rng.random() < 0.6}
    m = pick_m(rng, max_m)
    tree = force_polarised(rng, gen_tree(rng, m, rng.randint(0, max_depth), rng.randint(1, max_ops)))
    backend = rng.choice(["SLOS", "Naive"])
    if r < 0.55:
        modes = gen_input(rng, m, nmax, vacuum=rng.random() < 0.03)
        case = {"kind": "evolve", "tree": tree, "modes": modes, "backend": backend}
        if rng.random() < 0.4:
            case["sel"] = gen_sel(rng, m, modes, "factory", with_filter=False)
        if rng.random() < 0.2:
            case["pre"] = True
        return case
    path = rng.choice(["processor", "processor", "factory"])
    modes = gen_input(rng, m, nmax)
    if path == "processor":
        modes = for_processor(modes)
    return {"kind": "select", "tree": tree, "modes": modes, "path": path, "backend": backend,
            "sel": gen_sel(rng, m, modes, path)}


# ------------------------------------------------------------------------------------------------
# extension 4: SHARED component objects.  `Circuit.add` stores the component object itself, so one WP / PBS / BS /
# sub-circuit object may sit at several places of a circuit (and of its sub-circuits).  The property is about the
# circuit, not about object identity: the doubled matrix is the product over the occurrences, each embedded at ITS
# range, with the parameter values in force at the time of the evaluation.
# ------------------------------------------------------------------------------------------------
def all_nodes(tree):
    yield tree
    if "circ" in tree:
        for op in tree["ops"]:
            yield from all_nodes(op["c"])


def share_all(node, keys):
    """give every node of a pool object a share key (all of it is one long-lived object graph)"""
    for nd in all_nodes(node):
        if "share" not in nd:
            nd["share"] = next(keys)
    return node


def hosts(tree, width, pre=(), depth=0):
    """circuit nodes (path, node, depth) that are not (part of) a shared object and can hold a component of `width`"""
    if "leaf" in tree or "share" in tree:
        return
    if tree["circ"] >= width:
        yield pre, tree, depth
    for i, op in enumerate(tree["ops"]):
        yield from hosts(op["c"], width, pre + (i,), depth + 1)


def gen_occurrence(rng, host_m, node, avoid=None):
    w = tree_size(node)
    offs = [o for o in range(host_m - w + 1) if o != avoid] or [avoid]
    via = rng.choice([None, None, None, "//", "@"])
    occ = {"off": rng.choice(offs), "c": copy.deepcopy(node), "merge": rng.choice([None, True, False])}
    if via:
        occ.update(merge=True, via=via)          # `//` and `@` are add(..., merge=True)
    return occ


def gen_shared_tree(rng, m, depth, max_ops, p_var=0.5, polarised=True):
    """a circuit built from a pool of 1-2 long-lived objects (polarising leaf, ordinary leaf, sub-circuit), each added
    2-3 times: at two different ranges of one circuit, twice at the same range, inside a sub-circuit and outside it"""
    keys = itertools.count(1)
    tree = gen_tree(rng, m, depth, max_ops)
    pool = []
    for _ in range(rng.choice([1, 1, 2])):
        wmax = max(1, m - 1)
        r = rng.random()
        if r < 0.55:
            node = {"leaf": gen_pol_leaf(rng, wmax)}
            for _ in range(3 if p_var >= 0.8 else 0):      # (long-lived circuits: mostly tunable objects)
                if node["leaf"]["t"] not in VAR_KINDS:
                    node = {"leaf": gen_pol_leaf(rng, wmax)}
        elif r < 0.75:
            node = {"leaf": gens.gen_leaf(rng, wmax, kinds=("BS", "PS", "PS", "U", "PERM"))}
        else:
            k = rng.randint(1, wmax)
            node = gen_tree(rng, k, 0, 3, p_pol=0.6)
            if pool and tree_size(pool[0]) <= k and rng.random() < 0.6:
                # the sub-circuit object holds an earlier pool object (which also sits outside it)
                node["ops"].insert(rng.randint(0, len(node["ops"])), gen_occurrence(rng, k, pool[0]))
        for nd in all_nodes(node):
            if "leaf" in nd and "share" not in nd and nd["leaf"]["t"] in VAR_KINDS and rng.random() < p_var:
                nd["leaf"]["var"] = True
        pool.append(share_all(node, keys))
    for node in pool:
        w = tree_size(node)
        first = None            # (host path, offset) of the first occurrence
        for j in range(rng.choice([2, 2, 3])):
            hs = list(hosts(tree, w))
            r = rng.random()
            if first is not None and r < 0.55:
                cand = [h for h in hs if h[0] == first[0]]            # same circuit level as the first occurrence
            elif r < 0.8:
                cand = [h for h in hs if h[2] > 0]                    # inside a sub-circuit
                if not cand and m >= 2:
                    k = rng.randint(w, m)
                    sub = {"circ": k, "ops": [{"off": rng.randint(0, k - lw), "c": {"leaf": lf}, "merge": None}
                                              for lf in [gen_leaf(rng, k, 0.4) for _ in range(rng.randint(0, 2))]
                                              for lw in [leaf_width(lf)]]}
                    tree["ops"].insert(rng.randint(0, len(tree["ops"])),
                                       {"off": rng.randint(0, m - k), "c": sub, "merge": rng.choice([None, False, True])})
                    cand = [h for h in hosts(tree, w) if h[1] is sub]
            else:
                cand = hs[:1]
            pth, host, _ = rng.choice(cand or hs[:1])
            same_host = first is not None and pth == first[0]
            avoid = first[1] if same_host and rng.random() < 0.75 else None
            occ = gen_occurrence(rng, host["circ"], node, avoid)
            if same_host and avoid is None and rng.random() < 0.5:
                occ["off"] = first[1]                                  # twice at the same range
            pos = rng.randint(0, len(host["ops"]))
            host["ops"].insert(pos, occ)
            if first is None:
                first = (pth, occ["off"])
    if polarised:
        force_polarised(rng, tree)
    return tree


def share_shapes(tree):
    """names of the sharing shapes present in a circuit tree (for the required branches)"""
    occ = {}          # key -> [(id of the holding circuit node, offset, depth, node)]

    def walk(node, depth):
        if "leaf" in node:
            return
        for op in node["ops"]:
            k = op["c"].get("share")
            if k is not None:
                occ.setdefault(k, []).append((id(node), op["off"], depth, op["c"], op))
            walk(op["c"], depth + 1)
    walk(tree, 0)
    out = set()
    for k, lst in occ.items():
        if len(lst) < 2:
            continue
        node = lst[0][3]
        out.add("shared-subcircuit" if "circ" in node else
                ("shared-polarising" if is_pol(node["leaf"]) else "shared-ordinary"))
        for a, b in itertools.combinations(lst, 2):
            if a[0] == b[0]:
                out.add("shared-object-two-ranges" if a[1] != b[1] else "shared-object-same-range")
                if a[1] != b[1] and "circ" in node and (a[4]["merge"] or b[4]["merge"]):
                    out.add("shared-subcircuit-merged-two-ranges")
            else:
                out.add("shared-object-nested")
        for _, _, _, _, op in lst:
            if op.get("via"):
                out.add("shared-via-floordiv" if op["via"] == "//" else "shared-via-matmul")
    return out


def shared_key_count(tree, key):
    return sum(1 for nd in all_nodes(tree) if nd.get("share") == key)


def apply_retune(tree, path, new):
    """the leaf at `path` gets new angles — and so does every other occurrence of the same (shared) object"""
    node = node_at(tree, path)
    key = node.get("share")
    targets = [node] if key is None else [nd for nd in all_nodes(tree) if nd.get("share") == key and "leaf" in nd]
    for nd in targets:
        tag = nd["leaf"].get("tag")
        nd["leaf"] = copy.deepcopy(new)
        if tag is not None:
            nd["leaf"]["tag"] = tag
    return node["leaf"].get("tag")


def gen_retunes(rng, tree, shared_only=True):
    """re-tunings of variable leaves (of a shared object when there is one)"""
    vars_ = [(pth, node_at(tree, pth)) for pth, lf in leaf_paths(tree) if lf.get("var")]
    sh = [(p, nd) for p, nd in vars_ if nd.get("share") is not None and shared_key_count(tree, nd["share"]) > 1]
    pick = sh if (sh and shared_only) else vars_
    if not pick:
        return []
    out = []
    for _ in range(rng.randint(1, 2)):
        pth, nd = rng.choice(pick)
        out.append({"path": list(pth), "leaf": regen_leaf(rng, nd["leaf"])})
    return out


def gen_case_shared(chk, rng, max_m, max_depth, max_ops, nmax):
    m = rng.choice([2, 3, 3] + ([4] if max_m >= 4 else []))
    r = rng.random()
    if r < 0.45:
        tree = gen_shared_tree(rng, m, rng.randint(0, max_depth), rng.randint(1, max_ops // 2),
                               polarised=rng.random() < 0.85)
        case = {"kind": "unitary", "tree": tree, "flag": True if not requires(tree) else rng.choice([True, True, None])}
        if rng.random() < 0.55:
            rt = gen_retunes(rng, tree)
            if rt:
                # a long-lived circuit: evaluated, a shared object re-tuned in place, evaluated again
                case["pre"] = [rng.choice([None, True])]
                case["retune"] = rt
        elif rng.random() < 0.25:
            case["pre"] = [rng.choice([None, True])]
        return case
    tree = gen_shared_tree(rng, m, rng.randint(0, max_depth), rng.randint(1, max_ops // 2))
    backend = rng.choice(["SLOS", "Naive"])
    if r < 0.75:
        modes = gen_input(rng, m, nmax)
        path = rng.choice(["factory", "factory", "processor"])
        if path == "processor":
            modes = for_processor(modes)
        return {"kind": "probs", "tree": tree, "modes": modes, "path": path, "backend": backend}
    if r < 0.88:
        return {"kind": "evolve", "tree": tree, "modes": gen_input(rng, m, nmax), "backend": backend}
    path = rng.choice(["processor", "factory"])
    modes = gen_input(rng, m, nmax)
    if path == "processor":
        modes = for_processor(modes)
    return {"kind": "select", "tree": tree, "modes": modes, "path": path, "backend": backend,
            "sel": gen_sel(rng, m, modes, path)}


class LockedLean:
    """the Lean driver behind a lock: one request stream, used by the pipeline thread and by judge/shrink"""

    def __init__(self, drv):
        self._d = drv
        self._lock = threading.RLock()

    def ask(self, req):
        with self._lock:
            return self._d.ask(req)

    def ask_many(self, reqs):
        with self._lock:
            return self._d.ask_many(reqs)

    def close(self):
        self._d.close()

    @property
    def n(self):
        return self._d.n


def pipelined(chk, batches, prepare, finish):
    """prepare(batch) -> (ctx, reqs) runs the real code; finish(chk, batch, ctx, reps) judges.  The model's replies
    for batch k are computed by the Lean driver while the real code runs for batch k+1 (same results as the
    sequential loop: all cases are generated beforehand, judging stays in order)."""
    def start(reqs):
        box = {}

        def work():
            try:
                box["reps"] = chk.lean.ask_many(reqs)
            except BaseException as e:      # re-raised in the main thread (LeanError -> 'broken lean-driver')
                box["exc"] = e
        th = threading.Thread(target=work, daemon=True)
        th.start()
        return th, box

    def join(job):
        th, box = job
        th.join()
        if "exc" in box:
            raise box["exc"]
        return box["reps"]

    flying = None          # (batch, ctx, job)
    for batch in batches:
        ctx, reqs = prepare(batch)
        done = None
        if flying is not None:
            done = (flying[0], flying[1], join(flying[2]))
        flying = (batch, ctx, start(reqs))
        if done is not None:
            finish(chk, *done)
    if flying is not None:
        finish(chk, flying[0], flying[1], join(flying[2]))


def prepare_batch(cases):
    obs_list = []
    reqs = []
    idx = []
    for i, case in enumerate(cases):
        obs = OBSERVERS[case["kind"]](case)
        obs_list.append(obs)
        if "build_err" not in obs:
            idx.append(i)
            reqs.append(lean_req(case, obs))
    return (obs_list, idx), reqs


def handle_batch(chk, cases):
    ctx, reqs = prepare_batch(cases)
    finish_batch(chk, cases, ctx, chk.lean.ask_many(reqs))


def finish_batch(chk, cases, ctx, reps):
    obs_list, idx = ctx
    rep_of = dict(zip(idx, reps))
    for i, case in enumerate(cases):
        sig, nontrivial = count_case(chk, case)
        if case["kind"] == "convert":
            sample = {"kind": "convert", "state": state_text(case["modes"]), "symbolic": case["symbolic"],
                      "inverse": case["inverse"]}
        else:
            sample = {"kind": case["kind"], "m": tree_size(case["tree"]),
                      "leaves": [lf["t"] for lf, _ in walk_leaves(case["tree"])][:8]}
            if case["kind"] in SIM_KINDS:
                sample["state"] = state_text(case["modes"])
                sample["path"] = case.get("path", "factory") + ":" + case["backend"]
                if case.get("sel"):
                    sample["sel"] = {k: v for k, v in case["sel"].items() if k != "psj"}
            else:
                sample["flag"] = case["flag"]
        chk.case(sig, nontrivial=nontrivial, sample=sample)
        res = judge(chk, case, rep=rep_of.get(i, {}), obs=obs_list[i])
        if res is not None:
            report(chk, case, res)


def silence():
    try:
        from perceval.utils.logging import get_logger, channel, level
        for ch in (channel.user, channel.general, channel.resources):
            get_logger().set_level(level.off, ch)
    except Exception:  # noqa: BLE001
        pass


def load_corpus():
    out = []
    for p in sorted(glob.glob(os.path.join(core.VERIF, "corpus", "C13", "*.json"))):
        c = json.load(open(p))["case"]
        c["corpus"] = os.path.basename(p)
        out.append(c)
    return out


def run(chk: core.Check):
    import perceval as pcvl
    pcvl.random_seed(chk.seed)
    silence()
    chk.rule = ("random circuits mixing WP/HWP/QWP/PR/PBS/polarised Unitary with BS/PS/PERM/Unitary/Barrier (nested "
                "sub-circuits, merged or not, polarised or purely ordinary) × compute_unitary(use_polarization="
                "None|True|False), and × polarised inputs (labels, elliptical rational Jones vectors, one or two "
                "orthogonal polarisations per mode, repeated and unannotated photons, vacuum; 10% inadmissible) through "
                "SimulatorFactory(SLOS|Naive).probs and Processor.with_polarized_input+probs; plus sessions: one "
                "long-lived simulator / Processor object serving 2-6 queries (probs, probs_svd, evolve; all-H after "
                "prepared, repeated, vacuum, inadmissible inputs) with set_circuit / add / Parameter.set_value in "
                "between, every reply compared with the model's state machine and the stateless specification; "
                "compute_unitary re-asked on the same circuit object; plus evolve (amplitudes and P:H/P:V annotations of "
                "every output state, with / without heralds and post-selection on the layer, after a probs on the same "
                "object), convert_polarized_state(use_symbolic, inverse) incl. inadmissible inputs, and selection "
                "(0-2 heralds, post-selection expressions of depth <= 2, min_detected_photons_filter in {0, n-h, auto, "
                "random, v+h>n corner, n+1}, threshold/PPNR/PNR detectors) on polarised Processors and simulators; "
                "plus every component class x use_polarization flag on ONE component, and Processor histories "
                "(with_input / with_polarized_input / noise / min_detected_photons_filter / clear / probs) against the "
                "model's bookkeeping machine; plus SHARED component objects: circuits built from a pool of 1-2 long-lived "
                "objects (polarising / ordinary leaf, sub-circuit) each added 2-3 times (two ranges of one circuit, the same "
                "range twice, inside and outside a sub-circuit; add / `//` / `@`) through compute_unitary, probs, Processor, "
                "evolve, selection, re-tuned in place between two evaluations, and sessions on such circuits (the shared "
                "object re-tuned / added once more between queries); distinct = distinct "
                "(path, circuit shape, input pattern / step pattern); non-trivial = circuit has a polarising and an "
                "ordinary mode-mixing component and (for simulations) a non-H/V polarisation")
    chk.assumptions = [
        "ordinary leaves' k×k matrices are taken from each leaf's own compute_unitary() (their correctness is C14)",
        "cos/sin of the stored (single-precision) Jones angles and of HWP/QWP's constant are computed by the harness in "
        "float64 and sent to the model as exact dyadic rationals (trigonometric functions are external to the model)",
        "the inner spatial simulation is specified by the Fock-space permanent formula (C02)",
        "1/sqrt in the re-orthonormalisation is evaluated by the driver with one Newton step (error < 1e-24)",
        "evolve: the model carries perm(W[t|s]) and the squared normalisation exactly; the harness takes the square root; "
        "an output state absent from the native StateVector is accepted when the exact |amplitude| <= 1.5e-6 "
        "(global_params['min_complex_component'] = 1e-6 drops such components)",
        "evolve with heralds: only keep_heralds(True) is modelled and compared (with False the native "
        "BasicState.remove_modes does not keep annotations in place and amplitudes differing only in a dropped photon's "
        "polarisation are added)",
        "selection: when the physical performance is 0 the logical performance is not compared (unspecified)",
        "symbolic conversion: sympy expressions are evaluated to complex numbers with sympy.N before comparison",
        "processor histories: Source.generate_distribution is taken as a function of (noise model, input) up to renaming "
        "of the distinguishability tags (evaluated on a fresh Source); no heralds, ordinary BasicState inputs only",
    ]
    chk.required_branches = [
        "wp", "hwp", "qwp", "pr", "pbs", "pol-unitary", "plain-leaf", "nested-plain-subcircuit",
        "nested-pol-subcircuit", "merged", "nested", "flag-none", "flag-true", "flag-false", "flag-false-rejected",
        "elliptical", "label", "two-orthogonal", "single", "repeated-photon", "unannotated", "vacuum",
        "non-orthogonal-rejected", "three-vectors-rejected", "factory-slos", "factory-naive", "processor",
        "empty-circuit", "label-table", "unitary-recomputed",
        # one long-lived object serving a history of requests
        "session-h-after-prepared", "session-h-after-prepared-processor", "session-preparation-changes", "session-same-input-again",
        "session-circuit-changed", "session-same-input-new-circuit", "session-photon-number-changes",
        "session-after-rejected-input", "session-set", "session-add", "session-retune",
        "session-factory-probs", "session-factory-svd", "session-factory-evolve", "session-processor",
        # extension: state-vector path, conversion flags, selection
        "evolve-stateless", "evolve-slos", "evolve-naive", "evolve-two-polarisations", "evolve-selection",
        "evolve-heralds", "evolve-ps", "evolve-after-probs", "evolve-nothing-retained", "evolve-bunched-annotations",
        "session-evolve-amplitudes",
        "convert-numeric", "convert-symbolic", "convert-inverse", "convert-inverse-two", "convert-symbolic-inverse",
        "convert-symbolic-rejected", "convert-rejected",
        "select-processor", "select-factory", "select-heralds", "select-ps", "select-auto-filter", "select-detectors",
        "select-keep-heralds", "select-filter-corner", "select-filter-rejects", "select-retained",
        "select-nothing-retained",
        # extension 3: one component of every class x flag; the Processor's input bookkeeping
        "leaf-pol-own", "leaf-ordinary-doubled", "leaf-ordinary-plain", "leaf-pol-false-rejected",
        "proc-query", "proc-pol-after-noise", "proc-plain-after-noise", "proc-auto-filter-refused", "proc-clear",
        "proc-pol-after-plain", "proc-plain-after-pol", "proc-noisy-source-rejected", "proc-polarised-simulated",
        # extension 4: ONE component object held several times by a polarised circuit
        "shared-object-two-ranges", "shared-object-same-range", "shared-object-nested", "shared-object-retuned",
        "shared-subcircuit", "shared-subcircuit-merged-two-ranges", "shared-polarising", "shared-ordinary",
        "shared-via-floordiv", "shared-via-matmul", "shared-unitary", "shared-probs", "shared-processor",
        "shared-evolve", "shared-select", "shared-session", "shared-session-retuned", "shared-session-added-again",
        # wave 9: the shape of the input (BasicState / StateVector / SVDistribution) handed to the layer
        "shape-bs", "shape-svd-single", "shape-evolve", "shape-sv-rejected", "shape-svd-superposition-rejected",
        "shape-svd-several-rejected", "shape-svd-empty-rejected", "shape-rejected-before-conversion",
        "shape-query-after-shaped-request", "shape-entry-mismatch", "shape-svd-single-vacuum"]
    chk.lean = LockedLean(core.LeanDriver("C13"))
    check_labels(chk)
    rng = chk.rng
    n = chk.pick(600, 4300)          # (thorough: 200 cases / 40 sessions moved to extension 4 below)
    max_m = chk.pick(3, 4)
    max_depth = chk.pick(2, 3)
    max_ops = chk.pick(6, 10)
    nmax = 3
    corpus = load_corpus()
    if corpus:
        handle_batch(chk, [c for c in corpus if c["kind"] not in ("session", "proc", "leaf", "shape")])
        handle_shapes(chk, [c for c in corpus if c["kind"] == "shape"])
        handle_sessions(chk, [c for c in corpus if c["kind"] == "session"])
        handle_procs(chk, [c for c in corpus if c["kind"] == "proc"])
    cases = [gen_case(chk, rng, max_m, max_depth, max_ops, nmax) for _ in range(n)]
    cases += [gen_case_ext(chk, rng, max_m, max_depth, max_ops, nmax) for _ in range(chk.pick(300, 2600))]
    ns = chk.pick(120, 560)
    sessions = [gen_session(chk, rng, max_m, max_depth, max_ops, nmax, chk.pick(4, 6)) for _ in range(ns)]
    pipelined(chk, [cases[i:i + 100] for i in range(0, len(cases), 100)], prepare_batch, finish_batch)
    pipelined(chk, [sessions[i:i + 30] for i in range(0, len(sessions), 30)], prepare_sessions, finish_sessions)
    # extension 3 (generated after everything else: the cases above are the same as before for a given seed)
    run_leaves(chk, rng, chk.pick(2, 10))
    run_procs(chk, rng, chk.pick(70, 500), max_m, max_depth, max_ops, nmax)
    # extension 4 (generated last, for the same reason)
    shared_cases = [gen_case_shared(chk, rng, max_m, max_depth, max_ops, nmax) for _ in range(chk.pick(110, 200))]
    handle_batch(chk, shared_cases)
    handle_sessions(chk, [gen_session(chk, rng, max_m, max_depth, max_ops, nmax, chk.pick(4, 5), shared=True)
                          for _ in range(chk.pick(24, 40))])
    # wave 9 (generated last): the shape of the input handed to the layer
    run_shapes(chk, rng, chk.pick(40, 300), max_m, max_depth, max_ops, nmax)


def replay(chk, data):
    chk.lean = core.LeanDriver("C13")
    silence()
    chk.rule = "replay of one stored case"
    check_labels(chk)
    rp = data["replay"]
    if "case" not in rp:
        return
    case = rp["case"]
    case["corpus"] = "replay"
    if case["kind"] == "session":
        handle_sessions(chk, [case])
    elif case["kind"] == "proc":
        handle_procs(chk, [case])
    elif case["kind"] == "shape":
        handle_shapes(chk, [case])
    elif case["kind"] == "leaf":
        res = judge_leaf(chk, case)
        if res is not None:
            chk.fail(res[0], res[1], res[2], res[3])
    else:
        handle_batch(chk, [case])
