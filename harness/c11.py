"""C11 — circuit transformations have exactly their advertised algebraic effect.

Correspondence between the real Perceval code and the Lean model (`Model/C11.lean`, `Model/C11Lists.lean`):

* inverse  : `Circuit.inverse(v, h)` / `<component>.inverse(v, h)` on construction programs with nested
             sub-circuits at non-zero offsets, beam splitters with five independent rational-exact angles,
             and component objects held several times; compared: `compute_unitary()` after inversion against
             the model's exact matrix (which the theorems `circuit_hinv` / `circuit_vinv` tie to the inverse /
             the flipped matrix), and the iteration ranges exactly.
* perms    : `extend_perm`, `perm_compose`, `reduce_perm`, `invert_permutation` exhaustively on small
             permutations; `PERM.break_in_2_mode_perms` (exact swap sequence) and `decompose_perms` (matrix).
* nest     : `decompose_perms(circuit, merge)` for BOTH values of merge as the object it returns (driver op
             `decompnest`, Model/C11Nest.lean): `_components` with one level of nesting against the model's list
             (nested Circuit(n) of swaps / merged swaps / the empty sub-circuit `Circuit.add` keeps), the iteration
             against the flattened view; directly: merge=False keeps one component per input component on its range,
             each sub-circuit with the matrix of its PERM.
* simplify : every iteration of `simplify` (state after k components = `simplify(first k components)`) is
             checked against the specification step: deterministic branches exactly, the non-successive
             PERM branch by recovering the heuristic's choice from the output and testing `ValidChoice`;
             final matrix against the exact product of the original leaves; both `display` modes.
* flatten  : `Processor.flatten(max_depth)`, `non_unitary_circuit()` (loss channels and time delays: block boundaries,
             block matrices, the block put back on its range against the model's product of the run; `_has_td`
             early return), `linear_circuit()` refused exactly with a non-unitary component,
             `linear_circuit(flatten=True)`, `copy()`.
* copy     : `Circuit.copy()` / `Processor.copy()` / `Experiment.copy()` (also `copy(subs=...)`) on nested circuits
             whose leaf and sub-circuit OBJECTS are held several times: the real object graph is walked and sent to
             the model (`Model/C11Deep.lean`, driver op `deepcopy`); compared: the identities of the copy's objects
             (one new object per occurrence), nesting and modes, the matrix, and the matrices of original and copy
             after an in-place `inverse(h=True)` of a leaf object of the copy resp. of the original.
* chain    : histories on ONE object (`Model/C11Chain.lean`, driver op `chain`): every ordered pair of the nine
             transformations inverse(v) / inverse(h) / inverse(v,h) / Circuit.copy / Processor.copy / simplify /
             decompose_perms / linear_circuit(flatten=True) / non_unitary_circuit (and longer histories); the matrix law
             of every step is evaluated on the object the previous step left (a view of a component that step A left
             behind - the name-indexed parameter table, a cached vector - shows only in what step B reads).
* perm runs: runs of consecutive PERMs in every relation of their mode ranges (same range, same size shifted,
             nested, overlapping, disjoint) through simplify and perm_compose.
* heuristic: every non-successive PERM step of `simplify` has to be THE result of the exact model of
             `_generate_compatible_perm` / `_update_perm` / `_search_empty_space` (`Model/C11Heur.lean`).

* wide     : every family also draws wide instances (simplify / decompose_perms on 9..40 modes with permutations as
             wide as the circuit and the in-between components clustered around a focus mode; inverse / flatten on
             9..20 modes; helpers and bubble sort on random permutations of up to 40 modes) - width-dependent behaviour
             (set iteration order, string vs numeric order, index arithmetic) does not show on 8 modes or fewer.

Direct oracles (property evaluated on the real code, numpy only) classify every disagreement.
"""
from __future__ import annotations

import copy
from fractions import Fraction
import glob
import itertools
import json
import math
import os

# small matrices only: BLAS/OpenMP worker threads cost more (system time) than they give
for _v in ("OMP_NUM_THREADS", "OPENBLAS_NUM_THREADS", "MKL_NUM_THREADS"):
    os.environ.setdefault(_v, "1")

import numpy as np  # noqa: E402

from . import core, gens  # noqa: E402

FIXED = True   # the main model is the repaired behaviour


class ImplHang(Exception):
    """the implementation did not return within the time limit"""


class time_limit:
    """`with time_limit(s):` - raise ImplHang in the main thread when the body (a call into the real code that
    takes milliseconds on the unchanged tree) has not returned after `s` seconds: a loop of the implementation
    that no longer terminates is reported for the input at hand instead of hanging the whole run."""

    def __init__(self, seconds):
        self.seconds = seconds
        self.armed = False

    def _raise(self, signum, frame):
        raise ImplHang(f"no result after {self.seconds} s")

    def __enter__(self):
        import signal
        import threading
        if threading.current_thread() is threading.main_thread() and hasattr(signal, "setitimer"):
            self.old = signal.signal(signal.SIGALRM, self._raise)
            signal.setitimer(signal.ITIMER_REAL, self.seconds)
            self.armed = True
        return self

    def __exit__(self, *exc):
        if self.armed:
            import signal
            signal.setitimer(signal.ITIMER_REAL, 0)
            signal.signal(signal.SIGALRM, self.old)
        return False


HANG_LIMIT = 20      # seconds; simplify on the circuits generated here takes well under 0.1 s


# ------------------------------------------------------------------------------------------------
# leaves
# ------------------------------------------------------------------------------------------------
INV_KINDS = ("BS", "BS", "BS", "PS", "PERM", "U", "UH", "Barrier")


# Sizes at which container / integer representations change behaviour (hash-table sizes of small-int sets, word
# and digit boundaries): wide circuits put components across them.
BOUNDARIES = (8, 16, 32)
WIDE_MIN = 9          # a circuit is "wide" from 9 modes on (beyond the first hash-table size of a CPython set)


def gen_perm_vec(rng, n):
    """a permutation of n modes: uniform, or a few transpositions, or a rotation (many fixed points / long cycles)"""
    p = list(range(n))
    r = rng.random()
    if r < 0.6 or n < 3:
        rng.shuffle(p)
    elif r < 0.8:
        for _ in range(rng.randint(1, 3)):
            i, j = rng.randrange(n), rng.randrange(n)
            p[i], p[j] = p[j], p[i]
    else:
        k = rng.randint(1, n - 1)
        p = p[k:] + p[:k]
    return p


def gen_leaf(rng, maxw, kinds=INV_KINDS):
    if maxw > 5 and rng.random() < 0.2 and ("PERM" in kinds or "UH" in kinds):
        # components wider than the shared generator makes them (PERM <= 5, Unitary <= 4 there)
        if "UH" not in kinds or rng.random() < 0.7:
            return {"t": "PERM", "perm": gen_perm_vec(rng, rng.randint(6, maxw))}
        return {"t": "UH", "n": rng.randint(5, min(maxw, 8)), "seed": rng.randrange(1 << 30)}
    spec = gens.gen_leaf(rng, maxw, kinds=kinds)
    if spec["t"] == "BS" and rng.random() < 0.25:
        # the situations the existing tests cover: default / equal phases
        one = [core.rat(1), core.rat(0)]
        if rng.random() < 0.5:
            spec.update(tl=one, bl=one, tr=one, br=one)
        else:
            spec.update(bl=spec["tl"], tr=spec["tl"], br=spec["tl"])
    return spec


def lean_leaf(spec, obj=None):
    t = spec["t"]
    if t == "BS":
        th = spec["theta"]
        return {"bs": {"conv": spec["conv"], "c": th[0], "s": th[1], "tl": spec["tl"], "bl": spec["bl"],
                       "tr": spec["tr"], "br": spec["br"]}}
    if t == "PS":
        return {"ps": spec["phi"]}
    if t == "PERM":
        return {"perm": list(spec["perm"])}
    if t == "Barrier":
        return {"barrier": spec["m"]}
    if t in ("LC", "TD"):
        return {"un": 1, "U": [[[str(1000 + spec["id"]), "0"]]]}
    if obj is None:
        obj = gens.build_leaf(spec)
    return {"un": obj.m, "U": gens.leaf_matrix_json(obj)}


def np_u(c):
    return np.array(c.compute_unitary(use_symbolic=False), dtype=complex)


def xform_np(u, v, h):
    if v:
        u = np.flip(u)
    if h:
        u = np.linalg.inv(u)
    return u


def close_np(a, b):
    return a.shape == b.shape and np.allclose(a, b, rtol=core.TOL, atol=core.TOL)


# ------------------------------------------------------------------------------------------------
# A. inversion
# ------------------------------------------------------------------------------------------------
def gen_inv_node(rng, m, depth, max_ops, pool, counter):
    """A circuit node of size m; `pool` collects nodes that may be referenced again (shared objects)."""
    ops = []
    for _ in range(rng.randint(1, max_ops)):
        cands = [n for n in pool if n["size"] <= m]
        r = rng.random()
        if cands and r < 0.22:
            node = {"ref": rng.choice(cands)["id"]}
            size = next(n["size"] for n in pool if n["id"] == node["ref"])
            is_circ = next("circ" in n for n in pool if n["id"] == node["ref"])
        elif depth > 0 and m >= 2 and r < 0.5:
            k = rng.randint(1, m)
            node = gen_inv_node(rng, k, depth - 1, max(1, max_ops // 2), pool, counter)
            size, is_circ = k, True
        else:
            spec = gen_leaf(rng, m)
            counter[0] += 1
            node = {"id": counter[0], "leaf": spec, "size": gens.leaf_width(spec)}
            pool.append(node)
            size, is_circ = node["size"], False
        off = rng.randint(0, m - size)
        how = rng.choice(["nest", "nest", "merge", "fd"]) if is_circ else rng.choice(["nest", "fd"])
        ops.append({"off": off, "node": node, "how": how})
    counter[0] += 1
    node = {"id": counter[0], "circ": m, "ops": ops, "size": m}
    pool.append(node)
    return node


def gen_inv_case(rng, chk):
    r = rng.random()
    flags = [(True, False), (False, True), (True, True)]
    ncalls = 1 if rng.random() < 0.7 else rng.randint(2, 3)
    seq = [list(rng.choice(flags)) for _ in range(ncalls)]
    if ncalls == 3 and rng.random() < 0.5:
        seq = [[False, True]] * 3          # three horizontal inversions in a row
    if r < 0.12:
        # a lone component
        spec = gen_leaf(rng, 4, kinds=("BS", "BS", "BS", "PS", "PERM", "U"))
        return {"seq": seq, "top": {"id": 1, "leaf": spec, "size": gens.leaf_width(spec)}}
    if r < 0.22:
        # the same object added twice (`Circuit(2) // b // b`)
        spec = gen_leaf(rng, 2, kinds=("BS", "PS", "PERM"))
        w = gens.leaf_width(spec)
        m = rng.randint(w, w + 2)
        leaf = {"id": 1, "leaf": spec, "size": w}
        ops = [{"off": rng.randint(0, m - w), "node": leaf, "how": "fd"}]
        for _ in range(rng.randint(1, 2)):
            ops.append({"off": rng.randint(0, m - w), "node": {"ref": 1}, "how": rng.choice(["fd", "nest"])})
        return {"seq": seq, "top": {"id": 2, "circ": m, "ops": ops, "size": m}}
    m = rng.randint(2, chk.pick(6, 8))
    if rng.random() < 0.1:
        m = rng.randint(WIDE_MIN, chk.pick(14, 20))
    pool, counter = [], [0]
    top = gen_inv_node(rng, m, rng.randint(0, chk.pick(2, 3)), rng.randint(1, chk.pick(6, 10)), pool, counter)
    return {"seq": seq, "top": top}


class Builder:
    """Builds Perceval objects from a node spec; a node id is built once (shared object afterwards)."""

    def __init__(self, share=True):
        self.share = share
        self.objs = {}
        self.specs = {}

    def index(self, node):
        if "ref" in node:
            return
        self.specs[node["id"]] = node
        if "circ" in node:
            for op in node["ops"]:
                self.index(op["node"])

    def build(self, node):
        import perceval as pcvl
        if "ref" in node:
            node = self.specs[node["ref"]]
        if self.share and node["id"] in self.objs:
            return self.objs[node["id"]]
        if "leaf" in node:
            obj = self.make_leaf(node)
        else:
            obj = pcvl.Circuit(node["circ"])
            for op in node["ops"]:
                sub = self.build(op["node"])
                if op["how"] == "nest":
                    obj.add(op["off"], sub, merge=False)
                elif op["how"] == "merge":
                    obj.add(tuple(range(op["off"], op["off"] + sub.m)), sub, merge=True)
                else:
                    obj //= (op["off"], sub)
        self.objs[node["id"]] = obj
        return obj

    def make_leaf(self, node):
        return gens.build_leaf(node["leaf"])

    def lean(self, node):
        """the tree the references denote (merge / `//` splice the sub-circuit's own items)"""
        if "ref" in node:
            node = self.specs[node["ref"]]
        if "leaf" in node:
            return lean_leaf(node["leaf"])
        items = []
        for op in node["ops"]:
            sub = self.lean(op["node"])
            if op["how"] != "nest" and "circ" in sub and sub["items"]:
                items.extend([[o + op["off"], c] for o, c in sub["items"]])
            else:
                items.append([op["off"], sub])
        return {"circ": node["circ"], "items": items}


def count_occurrences(node, specs, acc):
    if "ref" in node:
        node = specs[node["ref"]]
    acc[node["id"]] = acc.get(node["id"], 0) + 1
    if "circ" in node:
        for op in node["ops"]:
            count_occurrences(op["node"], specs, acc)


def leaf_specs(node, specs, out):
    if "ref" in node:
        node = specs[node["ref"]]
    if "leaf" in node:
        out[node["id"]] = node["leaf"]
    else:
        for op in node["ops"]:
            leaf_specs(op["node"], specs, out)


def has_nested_offset(node, specs, depth=0):
    if "ref" in node:
        node = specs[node["ref"]]
    if "leaf" in node:
        return False
    for op in node["ops"]:
        sub = specs[op["node"]["ref"]] if "ref" in op["node"] else op["node"]
        if "circ" in sub and op["how"] == "nest" and (op["off"] > 0 or has_nested_offset(sub, specs)):
            return True
    return False


def xform_seq(u, seq):
    for v, h in seq:
        u = xform_np(u, v, h)
    return u


def observe_inverse(case, share=True):
    b = Builder(share)
    b.index(case["top"])
    c = b.build(case["top"])
    u0 = np_u(c)
    for v, h in case["seq"]:
        c.inverse(v=v, h=h)
    u1 = np_u(c)
    flat = [[r[0], len(r)] for r, _ in c]
    return b, u0, u1, flat


def leaf_oracle(spec, seq):
    """the property on one fresh component: None if it holds, else a description"""
    obj = gens.build_leaf(spec)
    u0 = np_u(obj)
    for k, (v, h) in enumerate(seq, 1):
        try:
            obj.inverse(v=v, h=h)
        except ValueError as e:
            if "out of bound" in str(e):
                return None
            return f"raises {type(e).__name__} at call {k}"
        except Exception as e:
            return f"raises {type(e).__name__} at call {k}: {str(e)[:80]}"
    return None if close_np(np_u(obj), xform_seq(u0, seq)) else "wrong matrix"


def classify_inverse(case, b, problem):
    """which defect makes `inverse` fail on this program (direct oracles on fresh objects)"""
    seq = case["seq"]
    calls = ", ".join(f"inverse(v={v}, h={h})" for v, h in seq)
    specs = {}
    leaf_specs(case["top"], b.specs, specs)
    for sp in specs.values():
        why = leaf_oracle(sp, seq)
        if why is None:
            continue
        if sp["t"] == "BS":
            eq = sp["tl"] == sp["bl"] == sp["tr"] == sp["br"]
            sig = "bs-inverse-theta" if eq else "bs-inverse-phases"
            return ("violation", sig, f"BS.{sp['conv']}: {calls} does not yield the advertised matrix ({why}; "
                    f"enclosing circuit: {problem})", {"case": case})
        if sp["t"] == "PS" and why.startswith("raises"):
            return ("violation", "ps-inverse-repeated", f"PS: {calls} {why}", {"case": case})
        return ("violation", f"{sp['t']}-inverse", f"{sp['t']}: {calls}: {why}", {"case": case})
    occ = {}
    count_occurrences(case["top"], b.specs, occ)
    if any(n > 1 for n in occ.values()):
        try:
            _, v0, v1, _ = observe_inverse(case, share=False)
            fine = close_np(v1, xform_seq(v0, seq))
        except Exception:
            fine = False
        if fine:
            return ("violation", "shared-object-inverted-twice",
                    f"Circuit: {calls}: a component object held several times is inverted once per occurrence "
                    f"({problem}); the same circuit built from distinct objects inverts correctly", {"case": case})
    return ("violation", "circuit-inverse", f"Circuit: {calls} does not have its advertised effect ({problem})",
            {"case": case})


def judge_inverse(chk, case):
    seq = case["seq"]
    b = Builder()
    b.index(case["top"])
    try:
        b, u0, u1, flat = observe_inverse(case)
    except ValueError as e:
        if "out of bound" in str(e):
            chk.branch("skipped-C14-wrap")
            return None
        return classify_inverse(case, b, f"raises ValueError: {str(e)[:80]}")
    except (RuntimeError, AssertionError, NotImplementedError, AttributeError, TypeError, KeyError) as e:
        return classify_inverse(case, b, f"raises {type(e).__name__}: {str(e)[:80]}")
    tree = b.lean(case["top"])
    rep = chk.lean.ask({"op": "inverse", "fixed": FIXED, "seq": seq, "tree": tree})
    if "err" in rep:
        return ("broken", "model-rejects", f"the model rejects a program the real API accepted ({rep['err']})",
                {"case": case})
    mu = np.array(core.unmat(rep["U"]), dtype=complex)
    ok_u = close_np(u1, mu)
    ok_flat = rep["flat"] == flat
    if ok_u and ok_flat:
        return None
    # ---- direct oracle on the implementation
    want = xform_seq(u0, seq)
    if not close_np(u1, want):
        return classify_inverse(case, b, f"matrix deviates by {float(np.max(np.abs(u1 - want))):.3g}")
    if not ok_flat:
        return ("violation", "inverse-ranges", f"ranges after inverse {flat} differ from the mirrored ranges "
                f"{rep['flat']}", {"case": case})
    return ("broken", "model-vs-code", "model and implementation disagree on inverse but the direct oracle holds",
            {"case": case})


def shrink_inverse(chk, case, sig):
    cur = copy.deepcopy(case)
    if "circ" not in cur["top"]:
        return cur
    budget = 60
    changed = True
    while changed and budget > 0:
        changed = False
        ops = cur["top"]["ops"]
        for i in range(len(ops)):
            if len(ops) <= 1:
                break
            cand = copy.deepcopy(cur)
            del cand["top"]["ops"][i]
            budget -= 1
            try:
                r = judge_inverse(chk, cand)
            except Exception:
                r = None
            if r is not None and r[1] == sig:
                cur = cand
                changed = True
                break
    return cur


def handle_inverse(chk, case):
    b = Builder()
    b.index(case["top"])
    occ = {}
    count_occurrences(case["top"], b.specs, occ)
    shared = any(n > 1 for n in occ.values())
    specs = {}
    leaf_specs(case["top"], b.specs, specs)
    for s in specs.values():
        chk.count("inv_leaf", s["t"])
        if s["t"] == "BS":
            uneq = len({json.dumps(s[k]) for k in ("tl", "bl", "tr", "br")}) == 4
            chk.branch("bs-four-unequal-phases" if uneq else "bs-some-equal-phases")
            chk.count("bs_conv", s["conv"])
    for v, h in case["seq"]:
        chk.branch("inv-" + ("v" if v else "") + ("h" if h else ""))
    if len(case["seq"]) >= 3:
        chk.branch("inv-three-calls")
    if shared:
        chk.branch("inv-shared-object")
    if "leaf" in case["top"]:
        chk.branch("inv-lone-component")
    nested = has_nested_offset(case["top"], b.specs)
    if nested:
        chk.branch("inv-nested-offset")
    if case["top"]["size"] >= WIDE_MIN:
        chk.branch("inv-wide")
        if any(gens.leaf_width(s) > 5 for s in specs.values()):
            chk.branch("inv-wide-component")
    res = judge_inverse(chk, case)
    chk.case(("inv", json.dumps(case, sort_keys=True)[:2000]), nontrivial=(shared or nested or len(specs) >= 3),
             sample={"part": "inverse", "seq": case["seq"], "leaves": [s["t"] for s in specs.values()][:6],
                     "shared": shared})
    if res is not None:
        kind, sig, what, replay = res
        small = shrink_inverse(chk, case, sig) if kind == "violation" else case
        chk.fail(kind, sig, what, {"part": "inverse", "case": small})


# ------------------------------------------------------------------------------------------------
# B. permutation helpers, bubble sort, decompose_perms
# ------------------------------------------------------------------------------------------------
def perm_matrix(perm, r0=0, m=None):
    n = len(perm)
    m = m if m is not None else r0 + n
    u = np.eye(m)
    u[r0:r0 + n, r0:r0 + n] = 0
    for i, vv in enumerate(perm):
        u[r0 + vv, r0 + i] = 1
    return u


# relation of the mode ranges of two permutations that meet in `perm_compose` / in the successive branch of
# `_simplify_perm` (first mode o, size n each)
PAIR_RELATIONS = ("same-range", "same-size-shifted-overlap", "same-size-disjoint", "nested", "diff-size-overlap",
                  "diff-size-disjoint")


def pair_relation(o1, n1, o2, n2):
    a1, b1, a2, b2 = o1, o1 + n1, o2, o2 + n2
    if (a1, b1) == (a2, b2):
        return "same-range"
    if n1 == n2:
        return "same-size-shifted-overlap" if abs(o1 - o2) < n1 else "same-size-disjoint"
    if (a1 <= a2 and b2 <= b1) or (a2 <= a1 and b1 <= b2):
        return "nested"
    if b1 <= a2 or b2 <= a1:
        return "diff-size-disjoint"
    return "diff-size-overlap"


def gen_related_range(rng, m, o1, n1, rel):
    """(first mode, size) of a second permutation on m modes in the relation `rel` to the range (o1, n1); None when
    the circuit has no room for it"""
    cands = [(o2, n2) for n2 in range(1, m + 1) for o2 in range(0, m - n2 + 1)
             if pair_relation(o1, n1, o2, n2) == rel and (n2 >= 2 or rel in ("nested", "diff-size-disjoint"))]
    return rng.choice(cands) if cands else None


def gen_moving_perm(rng, n):
    """a permutation of n modes that moves its first and its last mode (`reduce_perm` trims nothing: the range it
    is placed on is the range it acts on)"""
    if n < 2:
        return [0] * n
    for _ in range(20):
        p = gen_perm_vec(rng, n)
        if p[0] != 0 and p[-1] != n - 1:
            return p
    return list(range(1, n)) + [0]


def is_perm_of(v, n):
    return isinstance(v, (list, tuple)) and len(v) == n and sorted(int(x) for x in v) == list(range(n))


def holds(fn):
    """an oracle expression evaluated on what the real code returned: a result so malformed that the expression
    cannot even be evaluated does not satisfy it"""
    try:
        return bool(fn())
    except Exception:
        return False


def run_perm_helpers(chk):
    from perceval.utils.algorithms import simplification as S
    nmax = chk.pick(4, 5)
    perms = [list(p) for n in range(1, nmax + 1) for p in itertools.permutations(range(n))]
    # ... and random wide ones (beyond every size the exhaustive part reaches)
    wide = [gen_perm_vec(chk.rng, chk.rng.randint(nmax + 1, chk.pick(24, 40))) for _ in range(chk.pick(40, 200))]
    perms += wide
    reqs, real, oracle = [], [], []

    def guarded(fn, *a):
        try:
            return fn(*a)
        except Exception as e:   # the helper itself fails on a valid permutation
            chk.fail("violation", f"{fn.__name__}-raises", f"{fn.__name__}{a} raises {type(e).__name__}: {str(e)[:80]}",
                     {"part": "perm-helper", "fn": fn.__name__, "args": [list(x) if isinstance(x, tuple) else x for x in a]})
            return None

    def record(fn, req, args, observe, check):
        """`observe()` reads the helper's result into plain data, `check()` is the direct oracle on it; a result
        that cannot be read (wrong arity, not sequences of integers) is reported for this input"""
        try:
            obs = observe()
        except Exception as e:
            chk.fail("violation", f"{fn}-matrix", f"{fn}{args}: the result is not a (range, permutation) pair of "
                     f"integer sequences ({type(e).__name__}: {str(e)[:80]})", {"part": "perm-helper", "fn": fn, "args": args})
            return
        reqs.append(req)
        real.append((fn, args, obs))
        oracle.append(holds(check))

    for p in perms:
        n = len(p)
        # invert_permutation
        out = guarded(S.invert_permutation, list(p))
        if out is None:
            continue
        record("invert", {"op": "perm", "fn": "invert", "perm": p}, p,
               lambda: {"out": [int(x) for x in out]},
               lambda: is_perm_of(out, n) and np.array_equal(perm_matrix(out), perm_matrix(p).T))
        for r0 in ((0, 1, 3) if n <= nmax else (0, chk.rng.randint(1, 12))):
            r = tuple(range(r0, r0 + n))
            # reduce_perm
            res_ = guarded(S.reduce_perm, r, list(p))
            if res_ is None:
                continue
            big = r0 + n + 1

            def obs_reduce(res_=res_):
                nr, np_ = res_
                return {"r0": (int(nr[0]) if len(nr) else None), "out": [int(x) for x in np_], "len": len(nr)}

            def ok_reduce(res_=res_, r0=r0, p=p, big=big):
                nr, np_ = res_
                if len(nr) != len(np_) or not is_perm_of(np_, len(np_)):
                    return False
                if not len(nr):
                    return np.array_equal(np.eye(big), perm_matrix(p, r0, big))
                return list(nr) == list(range(nr[0], nr[0] + len(nr))) and \
                    np.array_equal(perm_matrix(np_, nr[0], big), perm_matrix(p, r0, big))
            record("reduce", {"op": "perm", "fn": "reduce", "r0": r0, "perm": p}, (r0, p), obs_reduce, ok_reduce)
            for m in (r0 + n, r0 + n + 2):
                res_ = guarded(S.extend_perm, r, list(p), m)
                if res_ is None:
                    continue

                def obs_extend(res_=res_):
                    er, ep = res_
                    return {"out": [int(x) for x in ep], "r": [int(x) for x in er]}

                def ok_extend(res_=res_, r0=r0, p=p, m=m):
                    er, ep = res_
                    return list(er) == list(range(m)) and is_perm_of(ep, m) and \
                        np.array_equal(perm_matrix(ep), perm_matrix(p, r0, m))
                record("extend", {"op": "perm", "fn": "extend", "r0": r0, "perm": p, "m": m}, (r0, p, m),
                       obs_extend, ok_extend)
    # perm_compose: all pairs of small permutations at all small offsets
    cmax = chk.pick(3, 4)
    small = [p for p in perms if len(p) <= cmax]
    pairs = [(lp, rp, lr0, rr0) for lp in small for rp in small for lr0 in range(0, 3) for rr0 in range(0, 3)]
    # wide pairs at arbitrary offsets (either side may reach further than the other)
    pairs += [(chk.rng.choice(wide), chk.rng.choice(wide + small), chk.rng.randint(0, 10), chk.rng.randint(0, 10))
              for _ in range(chk.pick(60, 300))]
    pairs += [(chk.rng.choice(small), chk.rng.choice(wide), chk.rng.randint(0, 30), chk.rng.randint(0, 10))
              for _ in range(chk.pick(20, 100))]
    # pairs in every relation of the two mode ranges (same range / same size shifted / nested / disjoint /
    # overlapping), sizes beyond the exhaustive part, permutations that move their end modes
    for rel in PAIR_RELATIONS:
        for _ in range(chk.pick(25, 120)):
            m = chk.rng.randint(4, chk.pick(12, 24))
            n1 = chk.rng.randint(2, max(2, m - 1))
            o1 = chk.rng.randint(0, m - n1)
            second = gen_related_range(chk.rng, m, o1, n1, rel)
            if second is None:
                continue
            o2, n2 = second
            pairs.append((gen_moving_perm(chk.rng, n1), gen_moving_perm(chk.rng, n2), o1, o2))
    for lp, rp, lr0, rr0 in pairs:
        lr = tuple(range(lr0, lr0 + len(lp)))
        rr = tuple(range(rr0, rr0 + len(rp)))
        res_ = guarded(S.perm_compose, lr, list(lp), rr, list(rp))
        if res_ is None:
            continue
        mm = max(lr0 + len(lp), rr0 + len(rp))

        def obs_compose(res_=res_):
            nr, npm = res_
            return {"n": len(nr), "out": [int(x) for x in npm]}

        def ok_compose(res_=res_, lp=lp, rp=rp, lr0=lr0, rr0=rr0, mm=mm):
            # the fused permutation acts on modes 0 .. mm-1 (mm: the last mode either side reaches, plus one)
            nr, npm = res_
            return list(nr) == list(range(mm)) and is_perm_of(npm, mm) and np.array_equal(
                perm_matrix(npm), perm_matrix(rp, rr0, mm) @ perm_matrix(lp, lr0, mm))
        record("compose", {"op": "perm", "fn": "compose", "lr0": lr0, "lperm": lp, "rr0": rr0, "rperm": rp},
               (lr0, lp, rr0, rp), obs_compose, ok_compose)
    reps = chk.lean.ask_many(reqs)
    for (fn, args, obs), rep, ok in zip(real, reps, oracle):
        chk.branch("perm-" + fn)
        vecs = [args] if isinstance(args, list) else [a for a in args if isinstance(a, list)]
        if any(len(v) > nmax for v in vecs):
            chk.branch("perm-wide-" + fn)
        if fn == "compose":
            chk.branch("perm-compose-pair-" + pair_relation(args[0], len(args[1]), args[2], len(args[3])))
        chk.case(("perm", fn, json.dumps(args)), nontrivial=True,
                 sample={"part": "perm-helper", "fn": fn, "args": args})
        if fn == "reduce":
            agree = rep["out"] == obs["out"] and (obs["len"] == 0 or rep["r0"] == obs["r0"]) \
                and len(rep["out"]) == obs["len"]
        elif fn == "compose":
            agree = rep["out"] == obs["out"] and rep["n"] == obs["n"]
        else:
            agree = rep["out"] == obs["out"]
        if agree and ok:
            continue
        if not ok:
            chk.fail("violation", f"{fn}-matrix", f"{fn}{args} = {obs} does not have the matrix of its specification",
                     {"part": "perm-helper", "fn": fn, "args": args})
        else:
            chk.fail("broken", f"{fn}-model-vs-code", f"{fn}{args}: code {obs}, model {rep}",
                     {"part": "perm-helper", "fn": fn, "args": args})
    chk.extra["perm_helpers_exhaustive_up_to"] = nmax


def run_bubble(chk):
    from perceval.components import PERM, Circuit
    from perceval.components.comp_utils import decompose_perms
    nmax = chk.pick(5, 6)
    perms = [list(p) for n in range(1, nmax + 1) for p in itertools.permutations(range(n))]
    perms += [gen_perm_vec(chk.rng, chk.rng.randint(nmax + 1, chk.pick(20, 36))) for _ in range(chk.pick(40, 200))]
    reqs = [{"op": "perm", "fn": "bubble", "perm": p} for p in perms]
    reps = chk.lean.ask_many(reqs)
    for p, rep in zip(perms, reps):
        comp = PERM(list(p))
        try:
            out = comp.break_in_2_mode_perms()
        except Exception as e:
            chk.fail("violation", "bubble-raises", f"break_in_2_mode_perms({p}) raises {type(e).__name__}: {str(e)[:80]}",
                     {"part": "bubble", "perm": p})
            continue
        chk.branch("bubble")
        if len(p) > nmax:
            chk.branch("bubble-wide")
        chk.case(("bubble", tuple(p)), nontrivial=len(p) >= 3, sample={"part": "bubble", "perm": p})
        if len(p) == 2:
            if out is not comp:
                chk.fail("broken", "bubble-2-mode", "a 2-mode PERM is not returned as is", {"part": "bubble", "perm": p})
            continue
        swaps = [r[0] for r, c in out]
        all_swaps = all(isinstance(c, PERM) and c.perm_vector == [1, 0] and len(r) == 2 for r, c in out)
        u = np.array(out.compute_unitary(), dtype=complex) if swaps else np.eye(len(p))
        ok = all_swaps and np.array_equal(u.real.round(), perm_matrix(p)) and np.allclose(u.imag, 0)
        if any(k + 2 > len(p) for k in rep["swaps"]):
            chk.fail("broken", "bubble-model-swaps", f"model: a swap of {rep['swaps']} leaves the {len(p)} modes",
                     {"part": "bubble", "perm": p})
        if rep["final"] != rep["inv"]:
            chk.fail("broken", "bubble-model-final", f"model: final vector {rep['final']} is not the inverse {rep['inv']}",
                     {"part": "bubble", "perm": p})
        if swaps == rep["swaps"] and ok:
            continue
        if not ok:
            chk.fail("violation", "bubble-matrix", f"break_in_2_mode_perms({p}) -> swaps at {swaps}: not a product of "
                     f"adjacent swaps equal to the permutation", {"part": "bubble", "perm": p})
        else:
            chk.fail("broken", "bubble-model-vs-code", f"break_in_2_mode_perms({p}): swaps {swaps}, model {rep['swaps']}",
                     {"part": "bubble", "perm": p})
    chk.extra["bubble_exhaustive_up_to"] = nmax


# ------------------------------------------------------------------------------------------------
# C. simplify (and decompose_perms on the same circuits)
# ------------------------------------------------------------------------------------------------
SIMP_KINDS = ("PS", "PS", "PS", "PERM", "PERM", "PERM", "BS", "BS", "U", "PSV", "Barrier")


def near(rng, m, w, focus):
    """first mode of a w-mode component: anywhere, or (focus given) so that it covers / touches the focus mode"""
    if focus is None or rng.random() < 0.25:
        return rng.randint(0, m - w)
    return min(max(focus - rng.randint(0, w), 0), m - w)


def gen_simp_flat(rng, m, n_ops, vcount, maxperm=5, focus=None, kinds=SIMP_KINDS):
    ops = []
    last_ps = {}
    for _ in range(n_ops):
        k = rng.choice(kinds)
        if k == "PS":
            mode = near(rng, m, 1, focus)
            r = rng.random()
            if r < 0.10:
                phi = [core.rat(1), core.rat(0)]                       # PS(0)
            elif r < 0.16:
                phi = [core.rat(-1), core.rat(0)]                      # PS(pi): two of them sum to 2*pi exactly
            elif r < 0.32 and mode in last_ps:
                c_, s_ = last_ps[mode]
                phi = [c_, core.rat(-core.unrat(s_))]                 # exact opposite of an earlier phase
            elif r < 0.38 and mode in last_ps:
                c_, s_ = last_ps[mode]
                phi = [core.rat(-core.unrat(c_)), s_]                 # supplementary: the two sum to pi
            else:
                phi = gens.gen_cs(rng)
            last_ps[mode] = phi
            ops.append({"off": mode, "leaf": {"t": "PS", "phi": phi}})
        elif k == "PSV":
            vcount[0] += 1
            ops.append({"off": near(rng, m, 1, focus),
                        "leaf": {"t": "PSV", "name": f"v{vcount[0]}", "phi": gens.gen_cs(rng)}})
        elif k == "PERM":
            n = rng.randint(1 if rng.random() < 0.05 else 2, min(m, maxperm))
            if maxperm > 5 and rng.random() < 0.5:
                n = rng.randint(max(2, m - 3), m)             # (nearly) the whole circuit
            p = gen_perm_vec(rng, n) if maxperm > 5 else list(range(n))
            if maxperm <= 5:
                rng.shuffle(p)
            if rng.random() < 0.1:
                p = list(range(n))
            ops.append({"off": rng.randint(0, m - n), "leaf": {"t": "PERM", "perm": p}})
        elif k == "BS":
            if m < 2:
                continue
            ops.append({"off": near(rng, m, 2, focus), "leaf": gens.gen_leaf(rng, 2, kinds=("BS",))})
        elif k == "U":
            spec = gens.gen_leaf(rng, min(m, 3), kinds=("U",))
            ops.append({"off": near(rng, m, gens.leaf_width(spec), focus), "leaf": spec})
        else:
            w = rng.randint(1, m)
            ops.append({"off": rng.randint(0, m - w), "leaf": {"t": "Barrier", "m": w}})
    return ops


MID_KINDS = ("BS", "BS", "BS", "PS", "U", "U", "PSV")


def gen_simp_wide(rng, chk):
    """Wide circuits (9 .. 40 modes) with permutations as wide as the circuit.  Half of them are a `sandwich`:
    PERM, a few (possibly overlapping) components clustered around a focus mode, PERM - the shape in which
    `_simplify_perm` unravels - with the focus drawn among the size boundaries or anywhere."""
    m = rng.randint(WIDE_MIN, chk.pick(24, 40)) if rng.random() < 0.7 else rng.randint(33, 40)
    vcount = [0]
    focus = rng.choice([b for b in BOUNDARIES if b < m]) if rng.random() < 0.6 else rng.randrange(m)
    if rng.random() < 0.65:
        def wperm():
            n = rng.randint(max(2, m - 3), m) if rng.random() < 0.7 else rng.randint(2, m)
            return {"off": rng.randint(0, m - n), "leaf": {"t": "PERM", "perm": gen_perm_vec(rng, n)}}
        ops = gen_simp_flat(rng, m, rng.randint(0, 2), vcount, maxperm=m, focus=focus)
        ops.append(wperm())
        ops += gen_simp_flat(rng, m, rng.randint(1, 4), vcount, focus=focus, kinds=MID_KINDS)
        ops.append(wperm())
        ops += gen_simp_flat(rng, m, rng.randint(0, 2), vcount, maxperm=m, focus=focus)
    else:
        ops = gen_simp_flat(rng, m, rng.randint(2, chk.pick(9, 12)), vcount, maxperm=m, focus=focus)
    return {"m": m, "ops": ops, "display": rng.random() < 0.4, "as_list": rng.random() < 0.25}


def gen_simp_groups(rng, chk):
    """PERM, several DISJOINT multi-mode components (2..4 modes each, spread over the circuit, now and then one
    more that overlaps its neighbours), PERM: several groups of dependent modes compete for the slots of
    `left_right_perm`, so that `_update_perm` has to settle for a smaller window (`_search_empty_space` recursing
    on n - 1) and to shift blocks already placed to the right / to the left."""
    m = rng.randint(4, chk.pick(12, 16)) if rng.random() < 0.7 else rng.randint(WIDE_MIN, chk.pick(24, 40))
    vcount = [0]
    mids, pos = [], 0
    while pos + 2 <= m:
        gap = rng.choice((0, 0, 0, 1, 1, 2, 3))
        w = rng.choice((2, 2, 2, 3, 3, 4))
        if pos + gap + w > m:
            break
        if rng.random() < 0.85:
            r = rng.random()
            if w == 2 and r < 0.5:
                leaf = gens.gen_leaf(rng, 2, kinds=("BS",))
            elif w <= 3 and r < 0.8:
                leaf = {"t": "U", "rows": gens.qmat_json(gens.cayley_unitary(rng, w))}
            else:
                leaf = {"t": "Barrier", "m": w}
            mids.append({"off": pos + gap, "leaf": leaf})
        pos += gap + w
    rng.shuffle(mids)
    if m >= 3 and rng.random() < 0.2:
        mids.insert(rng.randint(0, len(mids)), {"off": rng.randint(0, m - 2), "leaf": gens.gen_leaf(rng, 2, kinds=("BS",))})
    if rng.random() < 0.2:
        mids.insert(rng.randint(0, len(mids)), {"off": rng.randrange(m), "leaf": {"t": "PS", "phi": gens.gen_cs(rng)}})

    def fperm():
        n = m if rng.random() < 0.8 else rng.randint(max(2, m - 2), m)
        return {"off": rng.randint(0, m - n), "leaf": {"t": "PERM", "perm": gen_perm_vec(rng, n)}}
    ops = gen_simp_flat(rng, m, rng.randint(0, 1), vcount, maxperm=m)
    ops.append(fperm())
    ops += mids
    ops.append(fperm())
    if rng.random() < 0.3:       # a third permutation: the unravelled circuit is unravelled again
        ops += gen_simp_flat(rng, m, rng.randint(0, 2), vcount, kinds=MID_KINDS)
        ops.append(fperm())
    return {"m": m, "ops": ops, "display": rng.random() < 0.4, "as_list": rng.random() < 0.25}


def gen_shift_cases(rng, chk):
    """Circuits on which `_update_perm` has to SHIFT blocks already placed (no window of len(modes) free slots is
    left although enough slots are free): rare for random circuits (about 1.5 % of the sandwiches with several
    groups), so candidates (a permutation and a partition of the modes into consecutive groups) are drawn in bulk,
    the model's trace of the heuristic says which of them shift, and those become PERM / one component per group /
    PERM circuits.  (The model is used to pick inputs only; what is checked on them is the real `simplify`.)"""
    cands = []
    for _ in range(chk.pick(3000, 10000)):
        m = rng.randint(5, 14) if rng.random() < 0.75 else rng.randint(15, chk.pick(30, 40))
        pl = list(range(m))
        rng.shuffle(pl)
        groups, pos = [], 0
        while pos < m:
            w = min(rng.choice((1, 2, 2, 2, 3, 3, 4)), m - pos)
            groups.append(list(range(pos, pos + w)))
            pos += w
        cands.append((m, pl, groups))
    reps = chk.lean.ask_many([{"op": "heur", "permList": pl, "adj": g} for _, pl, g in cands])
    out = []
    for (m, pl, groups), rep in zip(cands, reps):
        if not any(t.startswith("heur-shift") for t in rep.get("trace", [])):
            continue
        prev = [0] * m
        for i, v in enumerate(pl):
            prev[v] = i                    # invert_permutation(prev) == pl
        mids = []
        for g in groups:
            w = len(g)
            if w < 2:
                continue
            r = rng.random()
            if w == 2 and r < 0.5:
                leaf = gens.gen_leaf(rng, 2, kinds=("BS",))
            elif w <= 3 and r < 0.8:
                leaf = {"t": "U", "rows": gens.qmat_json(gens.cayley_unitary(rng, w))}
            else:
                leaf = {"t": "Barrier", "m": w}
            mids.append({"off": g[0], "leaf": leaf})
        rng.shuffle(mids)
        ops = [{"off": 0, "leaf": {"t": "PERM", "perm": prev}}] + mids + \
              [{"off": 0, "leaf": {"t": "PERM", "perm": gen_perm_vec(rng, m)}}]
        out.append({"m": m, "ops": ops, "display": rng.random() < 0.4, "as_list": rng.random() < 0.25})
    return out


def gen_simp_perm_runs(rng, chk):
    """Runs of 2..4 CONSECUTIVE permutations whose mode ranges stand in a chosen relation (same range / same size
    shifted by 1..size / same size further away / nested / different sizes overlapping / disjoint): the successive
    branch of `_simplify_perm` fuses them with `perm_compose` + `reduce_perm`, and only pairs on the same range or
    of different sizes come up by themselves often.  Most permutations move their end modes (nothing is trimmed:
    the range in the list is the range acted on); now and then the second one is the inverse of the first."""
    m = rng.randint(3, chk.pick(8, 10)) if rng.random() < 0.9 else rng.randint(WIDE_MIN, chk.pick(16, 24))
    vcount = [0]
    side_kinds = MID_KINDS + ("PERM",)

    def pvec(n):
        return gen_moving_perm(rng, n) if rng.random() < 0.75 else gen_perm_vec(rng, n)
    ops = gen_simp_flat(rng, m, rng.randint(0, 3), vcount, kinds=side_kinds)
    n1 = rng.randint(2, max(2, min(m - 1, 6)))
    o1 = rng.randint(0, m - n1)
    first = pvec(n1)
    ops.append({"off": o1, "leaf": {"t": "PERM", "perm": first}})
    hull, prev = (o1, n1), first
    for _ in range(rng.randint(1, 3)):
        rel = rng.choice(PAIR_RELATIONS + ("same-size-shifted-overlap", "same-size-shifted-overlap", "same-size-disjoint"))
        second = gen_related_range(rng, m, hull[0], hull[1], rel)
        if second is None:
            n2 = rng.randint(2, m)
            second = (rng.randint(0, m - n2), n2)
        o2, n2 = second
        if (o2, n2) == hull and len(prev) == n2 and rng.random() < 0.3:
            vec = [0] * n2
            for i, x in enumerate(prev):
                vec[x] = i                           # the inverse: the pair fuses into nothing
        else:
            vec = pvec(n2)
        ops.append({"off": o2, "leaf": {"t": "PERM", "perm": vec}})
        lo, hi = min(hull[0], o2), max(hull[0] + hull[1], o2 + n2)
        hull, prev = (lo, hi - lo), vec              # what the fused permutation spans (before trimming)
    ops += gen_simp_flat(rng, m, rng.randint(0, 3), vcount, kinds=side_kinds)
    return {"m": m, "ops": ops, "display": rng.random() < 0.5, "as_list": rng.random() < 0.25}


def gen_simp_case(rng, chk):
    r = rng.random()
    if r < 0.30:
        return gen_simp_wide(rng, chk)
    if r < 0.50:
        return gen_simp_groups(rng, chk)
    m = rng.randint(2, chk.pick(6, 8))
    vcount = [0]
    n_ops = rng.randint(2, chk.pick(12, 20))
    ops = gen_simp_flat(rng, m, n_ops, vcount)
    # sometimes wrap a slice into a nested sub-circuit at an offset (simplify iterates recursively)
    if m >= 3 and rng.random() < 0.3:
        k = rng.randint(2, m - 1)
        off = rng.randint(0, m - k)
        sub = gen_simp_flat(rng, k, rng.randint(1, 5), vcount)
        ops.insert(rng.randint(0, len(ops)), {"off": off, "sub": {"m": k, "ops": sub}})
    return {"m": m, "ops": ops, "display": rng.random() < 0.4, "as_list": rng.random() < 0.25}


def build_simp_leaf(spec):
    import perceval as pcvl
    from perceval.components import PS
    if spec["t"] == "PSV":
        p = pcvl.P(spec["name"])
        p.set_value(gens.cs_angle(spec["phi"]))
        return PS(p)
    return gens.build_leaf(spec)


def build_simp(case):
    import perceval as pcvl
    c = pcvl.Circuit(case["m"])
    for op in case["ops"]:
        if "sub" in op:
            s = pcvl.Circuit(op["sub"]["m"])
            for o2 in op["sub"]["ops"]:
                s.add(o2["off"], build_simp_leaf(o2["leaf"]))
            c.add(op["off"], s, merge=False)
        else:
            c.add(op["off"], build_simp_leaf(op["leaf"]))
    return c


class ItemCoder:
    def __init__(self):
        self.ids = {}
        self.keep = []

    def code(self, r, c):
        from perceval.components import PS, PERM
        r = tuple(r)
        base = {"r0": int(r[0]), "w": len(r)}
        if isinstance(c, PERM):
            base.update(k="perm", perm=[int(x) for x in c.perm_vector])
        elif isinstance(c, PS):
            phi = c.param("phi")
            if phi.is_variable:
                base.update(k="psvar", id=self._id(c))
            else:
                base.update(k="ps", phi=core.rat(float(phi)))
        else:
            base.update(k="other", id=self._id(c))
        return base

    def _id(self, c):
        if id(c) not in self.ids:
            self.ids[id(c)] = len(self.ids)
            self.keep.append(c)
        return self.ids[id(c)]


def circuit_of(m, comps):
    import perceval as pcvl
    c = pcvl.Circuit(m)
    for r, x in comps:
        c.add(tuple(r), x)
    return c


LEAN_EXACT_MAX = 12     # widest circuit whose exact matrix is (also) asked from the Lean model


def exact_product(m, comps):
    """Exact product (Fractions) of the components' own dyadic matrices, each applied to the rows of its modes only
    (cost w*w*m per component instead of m^3: the wide circuits stay cheap)."""
    from fractions import Fraction
    zero = Fraction(0)
    acc = [[(Fraction(int(i == j)), zero) for j in range(m)] for i in range(m)]
    for r, x in comps:
        r0, w = int(tuple(r)[0]), x.m
        u = np.array(x.compute_unitary(use_symbolic=False), dtype=complex)
        rows = [acc[r0 + k] for k in range(w)]
        for i in range(w):
            nz = [(k, Fraction(*float(u[i, k].real).as_integer_ratio()), Fraction(*float(u[i, k].imag).as_integer_ratio()))
                  for k in range(w) if u[i, k] != 0]
            out = []
            for j in range(m):
                re = im = zero
                for k, a, b in nz:
                    c, d = rows[k][j]
                    if c or d:
                        re += a * c - b * d
                        im += a * d + b * c
                out.append((re, im))
            acc[r0 + i] = out
    return np.array([[complex(float(re), float(im)) for re, im in row] for row in acc], dtype=complex)


class EvaluatorsDisagree(Exception):
    pass


def exact_u(chk, m, comps):
    """exact product of the components' own matrices: Lean model up to LEAN_EXACT_MAX modes (cross-checked there
    against the row-wise exact evaluation), row-wise exact evaluation alone beyond"""
    want = exact_product(m, comps)
    if m <= LEAN_EXACT_MAX:
        items = [[int(tuple(r)[0]), {"un": x.m, "U": gens.leaf_matrix_json(x)}] for r, x in comps]
        rep = chk.lean.ask({"op": "inverse", "fixed": FIXED, "seq": [], "tree": {"circ": m, "items": items}})
        lean_u = np.array(core.unmat(rep["U"]), dtype=complex)
        if not close_np(lean_u, want):
            raise EvaluatorsDisagree(f"exact product of {len(comps)} leaves on {m} modes: Lean model and row-wise "
                                     f"evaluation differ by {float(np.max(np.abs(lean_u - want))):.3g}")
        chk.branch("exact-product-cross-checked")
        return lean_u
    return want


def mode_groups(items):
    """groups of mutually dependent modes of the components lying between two permutations (own computation)"""
    groups = []
    for it in items:
        cur = set(range(it["r0"], it["r0"] + it["w"]))
        rest = []
        for g in groups:
            if g & cur:
                cur |= g
            else:
                rest.append(g)
        groups = rest + [cur]
    return [sorted(g) for g in groups if len(g) > 1]


def count_unravel_shape(chk, m, before):
    """which shapes the unravelling branch was exercised on"""
    last = max(i for i, it in enumerate(before) if it["k"] == "perm")
    groups = mode_groups(before[last + 1:])
    chk.count("unravel_groups", len(groups))
    if len(before) - last - 1 >= 2 and any(len(g) > 2 for g in groups):
        chk.branch("simp-unravelled-overlapping-comps")
    if m >= WIDE_MIN:
        chk.branch("simp-wide-unravelled")
        if any(g[-1] >= 8 for g in groups):
            chk.branch("simp-wide-unravelled-high-modes")
        for b in BOUNDARIES:
            if any(g[0] < b <= g[-1] for g in groups):
                chk.branch(f"simp-unravelled-group-across-{b}")
                if any(g[0] < b <= g[-1] and len(g) >= 5 for g in groups):
                    chk.count("unravel_big_group_across", b)


def judge_simplify(chk, case, count=True):
    from perceval.utils.algorithms.simplification import simplify
    from perceval.components import PERM, PS
    m, display = case["m"], case["display"]
    circ = build_simp(case)
    comps = [(tuple(r), c) for r, c in circ]
    n = len(comps)
    coder = ItemCoder()
    states = [[]]
    try:
        with time_limit(HANG_LIMIT):
            for k in range(1, n + 1):
                states.append(simplify([[r, c] for r, c in comps[:k]], m, display))
            final = simplify(circ if not case["as_list"] else [[r, c] for r, c in comps], m, display)
    except ImplHang as e:
        return ("violation", "simplify-does-not-return", f"simplify({len(comps)} components on {m} modes, "
                f"display={display}) has not returned after {HANG_LIMIT} s (prefix {len(states)} of {n})",
                {"case": case})
    except Exception as e:   # anything the simplifier raises on a valid circuit
        if isinstance(e, ValueError) and "out of bound" in str(e):
            chk.branch("skipped-C14-wrap")
            return None
        return ("violation", "simplify-crash", f"simplify raises {type(e).__name__}: {str(e)[:120]} on a valid circuit "
                f"(display={display})", {"case": case})
    coded = [[coder.code(r, c) for r, c in st] for st in states]
    reqs = [{"op": "step", "m": m, "display": display, "fixedAdj": FIXED, "before": coded[k - 1],
             "new": coder.code(*comps[k - 1]), "after": coded[k]} for k in range(1, n + 1)]
    reps = chk.lean.ask_many(reqs)
    for k, rep in enumerate(reps, 1):
        if "err" in rep:
            return ("broken", "simplify-model-error", f"model error {rep['err']}", {"case": case, "step": k})
        if rep.get("ok"):
            if count:
                chk.branch("simp-" + rep["tag"])
                if rep["tag"] == "successive" and coded[k - 1] and coded[k - 1][-1]["k"] == "perm":
                    # two permutations meet: how the range of the incoming one lies to the range of the last one
                    a, b2 = coded[k - 1][-1], reqs[k - 1]["new"]
                    rel = pair_relation(a["r0"], a["w"], b2["r0"], b2["w"])
                    chk.branch("perm-pair-" + rel)
                    chk.branch(f"perm-pair-{rel}-{'display' if display else 'compute'}")
                    inv_a = [0] * a["w"]
                    for i_, x_ in enumerate(a["perm"]):
                        inv_a[x_] = i_
                    if inv_a != a["perm"] and rel != "same-range":
                        chk.branch("perm-pair-non-self-inverse-off-range")
                if rep["tag"] == "non-successive/unravelled":
                    count_unravel_shape(chk, m, coded[k - 1])
                if rep.get("exact"):
                    # the result is the one the exact model of _generate_compatible_perm / _update_perm /
                    # _search_empty_space gives; `heur`: which paths of the heuristic this call went through
                    chk.branch("simp-heuristic-exact")
                    for name in rep.get("heur", []):
                        chk.branch(name)
                        if m >= WIDE_MIN:
                            chk.branch(name + "-wide")
                if rep.get("fused"):
                    chk.branch("simp-ps-fused")
                if rep["tag"].startswith("ps/") and coded[k - 1] and any(
                        it["k"] == "perm" for it in coded[k - 1]) and rep.get("fused"):
                    chk.branch("simp-ps-fused-through-perm")
            continue
        # a step the specification does not allow: evaluate the property on that step
        ub = np_u(circuit_of(m, [[r, c] for r, c in states[k - 1]] + [comps[k - 1]]))
        try:
            ua = np_u(circuit_of(m, states[k])) if states[k] else np.eye(m)
        except (AssertionError, ValueError, IndexError, TypeError, RuntimeError) as e:
            # the returned component list is not even a circuit on m modes
            return ("violation", "simplify-invalid-result",
                    f"simplify step {k} (adding {reqs[k - 1]['new']}) returns components "
                    f"{[(it['r0'], it['w'], it['k']) for it in coded[k]]} that do not form a circuit on {m} modes "
                    f"({type(e).__name__}: {str(e)[:100]}; display={display})", {"case": case, "step": k})
        if not close_np(ua, ub):
            return ("violation", "simplify-changes-matrix",
                    f"simplify step {k} (adding {reqs[k - 1]['new']}) changes the circuit matrix by "
                    f"{float(np.max(np.abs(ua - ub))):.3g} (display={display}, model branches {rep.get('tags')})",
                    {"case": case, "step": k})
        if "spec" in rep and rep["spec"] not in ("not-allowed", "non-successive/INVALID-CHOICE"):
            # a valid unravelling (matrix unchanged), but not the one the exact model of the heuristic computes
            return ("broken", "simplify-heuristic-model-vs-code",
                    f"simplify step {k}: _simplify_perm used the unravelling permutation {rep.get('recovered')} "
                    f"(accepted by the specification: {rep['spec']}) where the model of _generate_compatible_perm "
                    f"computes {rep.get('choice')} ({rep.get('tags')}); the matrix is unchanged",
                    {"case": case, "step": k, "after": coded[k], "cands": rep.get("cands")})
        return ("broken", "simplify-model-vs-code",
                f"simplify step {k}: result not allowed by the specification (branches {rep.get('tags')}) although "
                f"the matrix is unchanged", {"case": case, "step": k, "after": coded[k], "cands": rep.get("cands")})
    # final result: same list as the last state, and the exact matrix of the original
    fin_comps = [(tuple(r), c) for r, c in final]
    fcoded = [coder.code(r, c) for r, c in fin_comps]
    try:
        want = exact_u(chk, m, comps)
    except EvaluatorsDisagree as e:
        return ("broken", "exact-evaluators-disagree", str(e), {"case": case})
    try:
        uf = np_u(circuit_of(m, fin_comps)) if fin_comps else np.eye(m)
    except (AssertionError, ValueError, IndexError, TypeError, RuntimeError) as e:
        return ("violation", "simplify-invalid-result",
                f"simplify returns components {[(it['r0'], it['w'], it['k']) for it in fcoded]} that do not form a "
                f"circuit on {m} modes ({type(e).__name__}: {str(e)[:100]}; display={display})", {"case": case})
    if isinstance(final, list) != case["as_list"]:
        return ("violation", "simplify-return-type", "simplify does not return the kind of object it was given",
                {"case": case})
    if not close_np(uf, want):
        return ("violation", "simplify-changes-matrix", f"simplify changes the matrix by "
                f"{float(np.max(np.abs(uf - want))):.3g} (display={display})", {"case": case})
    def canon(l):
        return [(it["r0"], it["w"], it["k"], tuple(it.get("perm", ())), it.get("id")) for it in l]
    if canon(fcoded) != canon(coded[-1]):
        return ("broken", "simplify-prefix-states", "simplify(circuit) differs from the fold over its components",
                {"case": case})
    if count:
        if len(fin_comps) < n:
            chk.branch("simp-shorter")
        chk.branch("simp-display" if display else "simp-compute")
    return None


def shrink_simplify(chk, case, sig):
    def fails(ops):
        c = dict(case, ops=ops)
        try:
            r = judge_simplify(chk, c, count=False)
        except Exception:
            return False
        return r is not None and r[1] == sig
    ops = gens.shrink_list(case["ops"], fails, max_rounds=80)
    return dict(case, ops=ops)


def handle_simplify(chk, case):
    kinds = [op["leaf"]["t"] if "leaf" in op else "sub" for op in case["ops"]]
    for k in kinds:
        chk.count("simp_kind", k)
    chk.count("simp_m", case["m"])
    chk.count("simp_len", len(case["ops"]))
    if case["m"] >= WIDE_MIN:
        chk.branch("simp-wide")
        if any("leaf" in op and op["leaf"]["t"] == "PERM" and len(op["leaf"]["perm"]) >= WIDE_MIN for op in case["ops"]):
            chk.branch("simp-wide-perm")
    res = judge_simplify(chk, case)
    nperm = sum(1 for k in kinds if k == "PERM")
    chk.case(("simp", json.dumps(case, sort_keys=True)[:3000]), nontrivial=nperm >= 2,
             sample={"part": "simplify", "m": case["m"], "display": case["display"], "kinds": kinds[:10]})
    if res is not None:
        kind, sig, what, replay = res
        small = shrink_simplify(chk, case, sig) if kind == "violation" else case
        chk.fail(kind, sig, what, {"part": "simplify", "case": small})


def handle_decompose(chk, case):
    """decompose_perms on a simplify-style circuit: matrix unchanged, only 2-mode PERMs left"""
    from perceval.components.comp_utils import decompose_perms
    from perceval.components import PERM
    circ = build_simp(case)
    comps = [(tuple(r), c) for r, c in circ]
    merge = case["display"]
    try:
        out = decompose_perms(circ, merge=merge)
    except Exception as e:
        chk.fail("violation", "decompose-perms-raises", f"decompose_perms raises {type(e).__name__}: {str(e)[:80]}",
                 {"part": "decompose", "case": case})
        return
    try:
        want = exact_u(chk, case["m"], comps)
    except EvaluatorsDisagree as e:
        chk.fail("broken", "exact-evaluators-disagree", str(e), {"part": "decompose", "case": case})
        return
    uo = np_u(out)
    only2 = all((not isinstance(c, PERM)) or c.m == 2 for _, c in out)
    chk.branch("decompose-perms")
    if case["m"] >= WIDE_MIN:
        chk.branch("decompose-perms-wide")
    chk.case(("decomp", json.dumps(case, sort_keys=True)[:3000]), nontrivial=True,
             sample={"part": "decompose_perms", "m": case["m"], "merge": merge})
    if not close_np(uo, want):
        chk.fail("violation", "decompose-perms-matrix", f"decompose_perms(merge={merge}) changes the matrix by "
                 f"{float(np.max(np.abs(uo - want))):.3g}", {"part": "decompose", "case": case})
    elif not only2:
        chk.fail("violation", "decompose-perms-leftover", "decompose_perms leaves a PERM wider than 2 modes",
                 {"part": "decompose", "case": case})
    else:
        res = judge_nest(chk, case, circ, comps)
        if res is not None:
            kind, sig, what, small = res
            chk.fail(kind, sig, what, {"part": "decompose", "case": small})


# ---- decompose_perms(circuit, merge) as the OBJECT it returns (Model/C11Nest.lean, driver op `decompnest`): one nested
# Circuit(n) of swaps per PERM with merge=False, the swaps themselves with merge=True - except the EMPTY sub-circuit of
# an identity / one-mode PERM, which Circuit.add keeps nested (truthiness test of the sub-circuit's component list)
def nest_kind(c):
    from perceval.components import PERM
    if container_parts(c) is not None:
        return "circ"
    return "swap" if isinstance(c, PERM) and [int(x) for x in c.perm_vector] == [1, 0] else "leaf"


def nest_shape(out):
    """the component list of the circuit decompose_perms returned, with one level of nesting"""
    items = []
    for r, c in out._components:
        r = tuple(int(i) for i in r)
        parts = container_parts(c)
        if parts is None:
            items.append({"r0": r[0], "w": len(r), "k": nest_kind(c)})
        else:
            items.append({"r0": r[0], "w": len(r),
                          "circ": [{"r0": int(tuple(r2)[0]), "w": len(tuple(r2)), "k": nest_kind(c2)}
                                   for r2, c2 in parts[1]]})
    return items


def nest_state(comps):
    from perceval.components import PERM
    return [{"r0": int(r[0]), "perm": [int(x) for x in c.perm_vector]} if isinstance(c, PERM)
            else {"r0": int(r[0]), "leaf": {"barrier": len(r)}} for r, c in comps]


def judge_nest(chk, case, circ, comps, count=True):
    """both values of merge: the object against the model's component list; directly on the real objects: with
    merge=False every component of the result has the matrix of the input component it stands for"""
    from perceval.components.comp_utils import decompose_perms
    from perceval.components import PERM
    m = case["m"]
    state = nest_state(comps)
    reps = chk.lean.ask_many([{"op": "decompnest", "m": m, "merge": mg, "state": state} for mg in (True, False)])
    for mg, rep in zip((True, False), reps):
        if "err" in rep:
            return ("broken", "decompose-nest-model-rejects", f"the model rejects the flattened view: {rep['err']}", case)
        out = decompose_perms(circ, merge=mg)
        shape = nest_shape(out)
        if not mg:
            # direct oracle, component by component: nothing merged, every PERM replaced by an equivalent sub-circuit
            if len(shape) != len(comps):
                return ("violation", "decompose-nest-unmerged-count", f"decompose_perms(merge=False) returns "
                        f"{len(shape)} components for {len(comps)}", case)
            for (r, c), (r2, c2) in zip(comps, out._components):
                if tuple(int(i) for i in r) != tuple(int(i) for i in r2):
                    return ("violation", "decompose-nest-unmerged-range", f"decompose_perms(merge=False) moves a "
                            f"component from {tuple(r)} to {tuple(r2)}", case)
                if isinstance(c, PERM) and not close_np(np_u(c2), np_u(c)):
                    return ("violation", "decompose-nest-subcircuit-matrix", f"the sub-circuit decompose_perms(merge="
                            f"False) puts for PERM({[int(x) for x in c.perm_vector]}) has another matrix", case)
        flat = [[int(tuple(r)[0]), len(tuple(r))] for r, _ in out]
        if flat != rep["flat"]:
            return ("broken", "decompose-nest-flat-view", f"decompose_perms(merge={mg}): iteration gives "
                    f"{flat[:12]}, model {rep['flat'][:12]}", case)
        if shape != rep["items"]:
            k = next((i for i, (a, b) in enumerate(zip(shape, rep["items"])) if a != b), min(len(shape), len(rep["items"])))
            return ("broken", "decompose-nest-shape", f"decompose_perms(merge={mg}): component {k} is "
                    f"{json.dumps(shape[k] if k < len(shape) else None)[:160]}, model "
                    f"{json.dumps(rep['items'][k] if k < len(rep['items']) else None)[:160]}", case)
        if count:
            empties = [it for it in shape if "circ" in it and not it["circ"]]
            nested = [it for it in shape if it.get("circ")]
            chk.branch("decompose-nest-merged" if mg else "decompose-nest-unmerged")
            if mg and empties:
                chk.branch("decompose-nest-merged-keeps-empty-circuit")
            if not mg and empties:
                chk.branch("decompose-nest-unmerged-empty-circuit")
            if any(it["w"] == 1 for it in empties):
                chk.branch("decompose-nest-one-mode-perm")
            if not mg and any(it["r0"] > 0 and len(it["circ"]) >= 2 for it in nested):
                chk.branch("decompose-nest-subcircuit-at-offset")
            if not mg and len(nested) >= 2:
                chk.branch("decompose-nest-several-subcircuits")
            if not mg and any(len(st.get("perm", ())) == 2 and "circ" not in it for st, it in zip(state, shape)):
                chk.branch("decompose-nest-two-mode-perm-kept")
            if m >= WIDE_MIN and nested:
                chk.branch("decompose-nest-wide")
    return None


def gen_nest_case(rng, chk):
    """simplify-style flat circuits rich in the PERMs decompose_perms treats specially: identities on 3+ modes
    (empty sub-circuit), one-mode and two-mode PERMs, single adjacent transpositions, ordinary ones"""
    wide = rng.random() < 0.15
    m = rng.randint(WIDE_MIN, 20) if wide else rng.randint(1, 6)
    vcount = [0]
    ops = gen_simp_flat(rng, m, rng.randint(0, 5), vcount) if m >= 2 else []
    for _ in range(rng.randint(1, 5)):
        n = rng.randint(1, min(m, 12 if wide else 5))
        q = rng.random()
        if q < 0.3:
            vec = list(range(n))
        elif q < 0.45 and n >= 2:
            vec = list(range(n))
            i = rng.randrange(n - 1)
            vec[i], vec[i + 1] = vec[i + 1], vec[i]
        else:
            vec = gen_perm_vec(rng, n)
        ops.insert(rng.randint(0, len(ops)), {"off": rng.randint(0, m - n), "leaf": {"t": "PERM", "perm": vec}})
    return {"m": m, "ops": ops, "display": rng.random() < 0.5, "as_list": False}


# ------------------------------------------------------------------------------------------------
# D. flatten, regroup, copy
# ------------------------------------------------------------------------------------------------
def gen_flat_node(rng, m, depth, max_ops, lc, allow_lc):
    ops = []
    for _ in range(rng.randint(1, max_ops)):
        r = rng.random()
        if depth > 0 and m >= 2 and r < 0.45:
            k = rng.randint(1, m)
            ops.append({"off": rng.randint(0, m - k), "node": gen_flat_node(rng, k, depth - 1, max(1, max_ops // 2), lc, False)})
        elif allow_lc and r < 0.6:
            lc[0] += 1
            if allow_lc == "td" and rng.random() < 0.4:
                ops.append({"off": rng.randrange(m), "node": {"leaf": {"t": "TD", "id": lc[0], "dt": rng.choice([1, 2])}}})
            else:
                ops.append({"off": rng.randrange(m), "node": {"leaf": {"t": "LC", "id": lc[0], "loss": rng.choice([0.1, 0.25, 0.5])}}})
        else:
            spec = gen_leaf(rng, m, kinds=("BS", "PS", "PERM", "U", "Barrier"))
            ops.append({"off": rng.randint(0, m - gens.leaf_width(spec)), "node": {"leaf": spec}})
    return {"circ": m, "ops": ops}


def gen_flat_case(rng, chk):
    m = rng.randint(2, chk.pick(6, 8))
    if rng.random() < 0.15:
        m = rng.randint(WIDE_MIN, chk.pick(14, 20))
    lc = [0]
    r = rng.random()
    top = gen_flat_node(rng, m, rng.randint(1, chk.pick(3, 4)), rng.randint(1, chk.pick(6, 9)), lc,
                        allow_lc="td" if r < 0.25 else r < 0.6)
    return {"m": m, "top": top, "max_depth": rng.choice([None, None, 0, 1, 2])}


def build_flat(node):
    import perceval as pcvl
    from perceval.components import LC
    if "leaf" in node:
        s = node["leaf"]
        if s["t"] == "TD":
            from perceval.components import TD
            return TD(s["dt"])
        return LC(s["loss"]) if s["t"] == "LC" else gens.build_leaf(s)
    c = pcvl.Circuit(node["circ"])
    for op in node["ops"]:
        c.add(op["off"], build_flat(op["node"]), merge=False)
    return c


def lean_flat(node):
    if "leaf" in node:
        return lean_leaf(node["leaf"])
    return {"circ": node["circ"], "items": [[op["off"], lean_flat(op["node"])] for op in node["ops"]]}


def nest_depth(node):
    if "leaf" in node:
        return 0
    return 1 + max(nest_depth(op["node"]) for op in node["ops"])


def deep_offset(node, level=0):
    """a sub-circuit at a non-zero offset holding a sub-circuit (two levels below the experiment)"""
    if "leaf" in node:
        return False
    for op in node["ops"]:
        sub = op["node"]
        if "circ" in sub:
            if level >= 0 and op["off"] > 0 and any("circ" in o2["node"] for o2 in sub["ops"]):
                return True
            if deep_offset(sub, level + 1):
                return True
    return False


def judge_flatten_(chk, case, count=True):
    import perceval as pcvl
    from perceval.components import LC, Unitary
    m = case["m"]
    proc = pcvl.Processor("SLOS", m)
    for op in case["top"]["ops"]:
        proc.add(op["off"], build_flat(op["node"]))
    tree = lean_flat(case["top"])
    has_lc = _has_lc(case["top"])
    md = case["max_depth"]
    flat = proc.flatten() if md is None else proc.flatten(max_depth=md)
    rep = chk.lean.ask({"op": "flatten", "fixed": FIXED, "depth": md, "tree": tree})
    if "err" in rep:
        return ("broken", "flatten-model-error", rep["err"], {"case": case})
    obs = [(int(list(r)[0]), len(list(r))) for r, _ in flat]
    mod = [(e["r0"], e["w"]) for e in rep["flat"]]

    def comp_ok(c, e):
        if not hasattr(c, "compute_unitary"):      # loss channel, time delay: travels as a placeholder
            return len(e["U"]) == 1 and float(core.unrat(e["U"][0][0][0])) >= 1000
        return close_np(np_u(c), np.array(core.unmat(e["U"]), dtype=complex))

    if obs != mod:
        # first modes and widths are decided by the construction program alone
        return ("violation", "flatten-offset", f"Processor.flatten(max_depth={md}) reports first modes/widths {obs}; "
                f"the components were attached at {mod}", {"case": case})
    if not all(comp_ok(c, e) for (_, c), e in zip(flat, rep["flat"])):
        return ("violation", "flatten-components", f"Processor.flatten(max_depth={md}) lists components whose matrices "
                f"are not those of the components attached there", {"case": case})
    if md is not None:
        # non_unitary_circuit() and linear_circuit(flatten=True) rest on the unlimited flattening
        full_obs = [(int(list(r)[0]), len(list(r))) for r, _ in proc.flatten()]
        full_rep = chk.lean.ask({"op": "flatten", "fixed": FIXED, "depth": None, "tree": tree})
        full_mod = [(e["r0"], e["w"]) for e in full_rep["flat"]]
        if full_obs != full_mod:
            return ("violation", "flatten-offset", f"Processor.flatten() reports first modes/widths {full_obs}; "
                    f"the components were attached at {full_mod}", {"case": case})
    if count:
        chk.branch("flatten-depth-" + ("none" if md is None else "limited"))
    # ---- non_unitary_circuit(): regrouping into unitary blocks
    from perceval.components.linear_circuit import ACircuit
    has_td = _has_td(case["top"])
    rep2 = chk.lean.ask({"op": "regroup", "fixed": FIXED, "tree": tree, "full": True, "hasTd": has_td})
    if "err" in rep2:
        return ("broken", "regroup-model-error", rep2["err"], {"case": case})
    groups = proc.non_unitary_circuit()
    # direct oracle on the real objects: the returned list denotes what the flattened list denotes (every maximal
    # run of unitary components: their ordered product; the non-unitary components in between, unchanged, in order)
    if not den_equal(den_np(m, groups), den_np(m, proc.flatten())):
        return ("violation", "regroup-denotation", f"non_unitary_circuit() returns "
                f"{[(int(list(r)[0]), len(list(r)), type(c).__name__) for r, c in groups]}: not the unitary runs of the "
                f"flattened components between its non-unitary components", {"case": case})
    if has_td:
        # `_has_td`: the component list is returned as it is
        obs_c = [(int(list(r)[0]), len(list(r)), not isinstance(c, ACircuit)) for r, c in groups]
        mod_c = [(g["r0"], g["w"], "non" in g) for g in rep2.get("components", [])]
        same_objs = [id(c) for _, c in groups] == [id(c) for _, c in proc.components]
        if not rep2.get("td") or obs_c != mod_c or not same_objs:
            return ("broken", "regroup-td-model-vs-code", f"non_unitary_circuit() with a time delay: code {obs_c} "
                    f"(the components themselves: {same_objs}), model {mod_c}", {"case": case})
        if count:
            chk.branch("regroup-time-delay")
    else:
        obs_g = [(int(list(r)[0]), len(list(r)), not isinstance(c, ACircuit)) for r, c in groups]
        mod_g = [(g["r0"], g["w"], "non" in g) for g in rep2["groups"]]
        ok_g = obs_g == mod_g and all(
            ("non" in g) or close_np(np_u(c), np.array(core.unmat(g["U"]), dtype=complex))
            for (_, c), g in zip(groups, rep2["groups"]))
        if not ok_g:
            if [x[:2] for x in obs_g] != [x[:2] for x in mod_g]:
                return ("broken", "regroup-range", f"non_unitary_circuit() places its blocks at {obs_g}; the model "
                        f"at {mod_g} (the list denotes the same runs)", {"case": case})
            return ("broken", "regroup-model-vs-code", f"non_unitary_circuit: code {obs_g}, model {mod_g}", {"case": case})
        # the block put back on its range is the product of the run on all modes (regroup_denotation)
        for (r, c), g in zip(groups, rep2["groups"]):
            if "non" not in g and not close_np(embed_np(np_u(c), g["r0"], m),
                                                np.array(core.unmat(g["full"]), dtype=complex)):
                return ("broken", "regroup-full-model-vs-code", f"block at {g['r0']} (+{g['w']}): embedded back it is "
                        f"not the model's product of the {g['n']} components of the run", {"case": case})
        if count:
            chk.branch("regroup" + ("-with-loss" if has_lc else ""))
            if has_lc and len(groups) >= 3:
                chk.branch("regroup-several-blocks")
            if any("non" not in g and g["n"] >= 2 and g["w"] < m for g in rep2["groups"]):
                chk.branch("regroup-block-of-several-comps-narrower-than-circuit")
    # ---- unitary_circuit(): defined exactly when no non-unitary component was added
    try:
        proc.linear_circuit()
        raised = False
    except RuntimeError:
        raised = True
    if raised == rep2.get("unitary", not raised):
        return ("broken", "unitary-circuit-model-vs-code", f"linear_circuit() {'raises' if raised else 'returns'}; the "
                f"model's unitary_circuit is {'defined' if rep2.get('unitary') else 'undefined'}", {"case": case})
    if count and raised:
        chk.branch("unitary-circuit-refused")
    # ---- unitary processors: linear_circuit(flatten=True), copy()
    if not has_lc:
        tree_u = chk.lean.ask({"op": "inverse", "fixed": FIXED, "seq": [], "tree": tree})
        want = np.array(core.unmat(tree_u["U"]), dtype=complex)
        lc_flat = proc.linear_circuit(flatten=True)
        if not close_np(np_u(lc_flat), want):
            return ("violation", "linear-circuit-flatten", "linear_circuit(flatten=True) changes the matrix", {"case": case})
        full = chk.lean.ask({"op": "flatten", "fixed": FIXED, "depth": None, "tree": tree})
        if [(r[0], len(r)) for r, _ in lc_flat] != [(e["r0"], e["w"]) for e in full["flat"]]:
            return ("violation", "linear-circuit-flatten-ranges", "iteration of linear_circuit(flatten=True) differs from "
                    "the attachment positions", {"case": case})
        cp = proc.linear_circuit().copy()
        if not close_np(np_u(cp), want):
            return ("violation", "copy-matrix", "Circuit.copy() changes the matrix", {"case": case})
        ids_a = {id(c) for _, c in proc.linear_circuit()}
        ids_b = {id(c) for _, c in cp}
        if ids_a & ids_b:
            return ("violation", "copy-shares-components", "Circuit.copy() shares component objects with the original",
                    {"case": case})
        pc = proc.copy()
        if not close_np(np_u(pc.linear_circuit()), want):
            return ("violation", "copy-matrix", "Processor.copy() changes the matrix", {"case": case})
        if count:
            chk.branch("copy")
            chk.branch("linear-circuit-flatten")
    return None


def _has_lc(node):
    """a non-unitary component (loss channel or time delay)"""
    if "leaf" in node:
        return node["leaf"]["t"] in ("LC", "TD")
    return any(_has_lc(op["node"]) for op in node["ops"])


def _has_td(node):
    if "leaf" in node:
        return node["leaf"]["t"] == "TD"
    return any(_has_td(op["node"]) for op in node["ops"])


def embed_np(u, r0, m):
    out = np.eye(m, dtype=complex)
    k = u.shape[0]
    out[r0:r0 + k, r0:r0 + k] = u
    return out


def den_np(m, comps):
    """what a component list denotes: every maximal run of unitary components as the ordered product of their
    matrices on the m modes, every non-unitary component as itself (object, modes) - computed on the real objects"""
    from perceval.components.linear_circuit import ACircuit
    out, acc = [], None
    for r, c in comps:
        r = [int(x) for x in r]
        if isinstance(c, ACircuit):
            u = embed_np(np_u(c), r[0], m)
            acc = u if acc is None else u @ acc
        else:
            if acc is not None:
                out.append(acc)
                acc = None
            out.append(("non", id(c), tuple(r)))
    if acc is not None:
        out.append(acc)
    return out


def den_equal(a, b):
    if len(a) != len(b):
        return False
    for x, y in zip(a, b):
        if isinstance(x, tuple) != isinstance(y, tuple):
            return False
        if isinstance(x, tuple):
            if x != y:
                return False
        elif not close_np(x, y):
            return False
    return True


def shrink_flatten(chk, case, sig):
    cur = copy.deepcopy(case)
    budget = 60

    def fails(c):
        try:
            r = judge_flatten(chk, c, count=False)
        except Exception:
            return False
        return r is not None and r[1] == sig

    def nodes(n, acc):
        if "circ" in n:
            acc.append(n)
            for op in n["ops"]:
                nodes(op["node"], acc)
        return acc
    changed = True
    while changed and budget > 0:
        changed = False
        for idx in range(len(nodes(cur["top"], []))):
            cand = copy.deepcopy(cur)
            nd = nodes(cand["top"], [])[idx]
            for i in range(len(nd["ops"])):
                if len(nd["ops"]) <= 1:
                    break
                c2 = copy.deepcopy(cand)
                n2 = nodes(c2["top"], [])[idx]
                del n2["ops"][i]
                budget -= 1
                if fails(c2):
                    cur = c2
                    changed = True
                    break
            if changed or budget <= 0:
                break
    return cur


def judge_flatten(chk, case, count=True):
    try:
        return judge_flatten_(chk, case, count)
    except core.LeanError:
        raise
    except (AssertionError, RuntimeError, ValueError, IndexError, TypeError, KeyError, AttributeError) as e:
        import traceback
        tb = traceback.extract_tb(e.__traceback__)
        where = next((f"{os.path.basename(fr.filename)}:{fr.name}" for fr in reversed(tb) if "perceval" in fr.filename), "?")
        return ("violation", "flatten-regroup-raises", f"{where} raises {type(e).__name__}: {str(e)[:100]} on a valid "
                f"processor", {"case": case})


def handle_flatten(chk, case):
    d = nest_depth(case["top"])
    chk.count("flat_depth", d)
    deep = deep_offset(case["top"])
    if deep:
        chk.branch("flatten-two-levels-nonzero-offset")
    if case["m"] >= WIDE_MIN:
        chk.branch("flatten-wide")
        if _has_lc(case["top"]):
            chk.branch("flatten-wide-with-loss")
    res = judge_flatten(chk, case)
    chk.case(("flat", json.dumps(case, sort_keys=True)[:3000]), nontrivial=deep,
             sample={"part": "flatten", "m": case["m"], "depth": d, "max_depth": case["max_depth"]})
    if res is not None:
        kind, sig, what, replay = res
        small = shrink_flatten(chk, case, sig) if kind == "violation" else case
        chk.fail(kind, sig, what, {"part": "flatten", "case": small})


# ------------------------------------------------------------------------------------------------
# E. copy() of nested circuits with object identity (Model/C11Deep.lean, driver op `deepcopy`)
# ------------------------------------------------------------------------------------------------
# `AProcessor.copy(subs=...)` drops `subs` (candidate repair: fixes/C11-processor-copy-subs.diff).  Symbolic
# parameters are outside the quantifier of the property ("arbitrary fixed angles"), so the check does not report
# it; with VERIF_C11_PROBE_PROCESSOR_COPY_SUBS=1 (for use once the repair is in /repo) Processor.copy(subs=...) is
# probed like Experiment.copy (signature `copy-matrix`: the copy has no numeric matrix).
PROBE_PROCESSOR_COPY_SUBS = os.environ.get("VERIF_C11_PROBE_PROCESSOR_COPY_SUBS") == "1"

MUTABLE_CLASSES = ("BS", "PS", "PERM", "Unitary")


class CopyBuilder(Builder):
    """Builder that also makes loss channels and, for the node ids in `symbolic`, phase shifters on a symbol"""

    def __init__(self, symbolic=()):
        super().__init__(share=True)
        self.symbolic = set(symbolic)
        self.params = {}

    def make_leaf(self, node):
        import perceval as pcvl
        from perceval.components import LC, PS
        s = node["leaf"]
        if s["t"] == "LC":
            return LC(s["loss"])
        if s["t"] == "PS" and node["id"] in self.symbolic:
            p = pcvl.P(f"x{node['id']}")
            self.params[node["id"]] = (p, gens.cs_angle(s["phi"]))
            return PS(p)
        return gens.build_leaf(s)


def copy_nodes(node, acc):
    """all defining nodes of a program (references excluded)"""
    if "ref" in node:
        return acc
    acc.append(node)
    if "circ" in node:
        for op in node["ops"]:
            copy_nodes(op["node"], acc)
    return acc


def gen_copy_case(rng, chk):
    kind = rng.choice(["circuit", "circuit", "processor", "experiment"])
    subs = rng.choice([None, None, "empty", "symbolic"])
    if kind == "circuit" and rng.random() < 0.08:
        spec = gen_leaf(rng, 4, kinds=("BS", "PS", "PS", "PERM", "U"))
        top = {"id": 1, "leaf": spec, "size": gens.leaf_width(spec)}
    else:
        m = rng.randint(2, chk.pick(6, 8))
        if rng.random() < 0.1:
            m = rng.randint(WIDE_MIN, chk.pick(12, 16))
        pool, counter = [], [0]
        top = gen_inv_node(rng, m, rng.randint(1, chk.pick(3, 4)), rng.randint(2, chk.pick(6, 9)), pool, counter)
        subcircs = [n for n in pool if "circ" in n and n["id"] != top["id"]]
        if subcircs and rng.random() < 0.5:
            # the same sub-circuit OBJECT once more, nested
            n = rng.choice(subcircs)
            top["ops"].append({"off": rng.randint(0, m - n["size"]), "node": {"ref": n["id"]}, "how": "nest"})
        if kind != "circuit":
            for op in top["ops"]:
                op["how"] = "nest"
            if rng.random() < 0.25:
                counter[0] = max(n["id"] for n in pool) + 1
                lc = {"id": counter[0], "leaf": {"t": "LC", "id": counter[0], "loss": rng.choice([0.1, 0.25, 0.5])},
                      "size": 1}
                top["ops"].insert(rng.randrange(len(top["ops"]) + 1), {"off": rng.randrange(m), "node": lc, "how": "nest"})
    ps_ids = [n["id"] for n in copy_nodes(top, []) if "leaf" in n and n["leaf"]["t"] == "PS"]
    symbolic = [i for i in ps_ids if rng.random() < 0.6]
    if subs == "symbolic" and not symbolic:
        if ps_ids:
            symbolic = [rng.choice(ps_ids)]
        else:
            subs = "empty"
    if subs == "symbolic" and kind == "processor" and not PROBE_PROCESSOR_COPY_SUBS:
        kind = "experiment"
    return {"kind": kind, "top": top, "subs": subs, "symbolic": symbolic if subs == "symbolic" else [],
            "pick": [rng.randrange(1 << 16) for _ in range(3)]}


def container_parts(obj):
    """(size, components) of a container object, None for an elementary component"""
    from perceval.components.linear_circuit import Circuit
    from perceval.components.experiment import Experiment
    from perceval.components.abstract_processor import AProcessor
    if isinstance(obj, Circuit):
        return obj.m, obj._components
    if isinstance(obj, (Experiment, AProcessor)):
        return obj.circuit_size, obj.components
    return None


def occurrences(obj, depth=0, off=0, out=None):
    """one entry per occurrence in iteration order, a container before its contents:
    (python object, depth, first port, size, is a container)"""
    if out is None:
        out = []
    parts = container_parts(obj)
    if parts is None:
        out.append((obj, depth, off, obj.m, False))
    else:
        out.append((obj, depth, off, parts[0], True))
        for r, c in parts[1]:
            occurrences(c, depth + 1, int(list(r)[0]), out)
    return out


def obj_tree(obj, ids, leafspec):
    """the real object graph as the model's tree; identity = number of the Python object at its first visit"""
    k = ids.setdefault(id(obj), len(ids))
    parts = container_parts(obj)
    if parts is None:
        return {"id": k, "leaf": lean_leaf(leafspec[id(obj)], obj)}
    return {"id": k, "circ": parts[0], "items": [[int(list(r)[0]), obj_tree(c, ids, leafspec)] for r, c in parts[1]]}


def copy_matrix_of(obj):
    from perceval.components.experiment import Experiment
    from perceval.components.abstract_processor import AProcessor
    if isinstance(obj, AProcessor):
        return np_u(obj.linear_circuit())
    if isinstance(obj, Experiment):
        return np_u(obj.unitary_circuit())
    return np_u(obj)


def build_copy_program(case, symbolic):
    import perceval as pcvl
    top = case["top"]
    b = CopyBuilder(symbolic)
    b.index(top)
    if case["kind"] == "circuit":
        return b, b.build(top), None
    proc = pcvl.Processor("SLOS", top["circ"])
    for op in top["ops"]:
        proc.add(op["off"], b.build(op["node"]))
    return b, (proc if case["kind"] == "processor" else proc.experiment), proc


def shape_of(occ):
    return [[d, off, sz, cont] for _, d, off, sz, cont in occ]


def judge_copy_(chk, case, count=True):
    kind, top, subs = case["kind"], case["top"], case["subs"]
    rp = {"case": case}
    b, orig, _keep = build_copy_program(case, case["symbolic"] if subs == "symbolic" else ())
    has_lc = any("leaf" in n and n["leaf"]["t"] == "LC" for n in copy_nodes(top, []))
    if subs == "symbolic":
        _, twin, _keep2 = build_copy_program(case, ())      # the same program written with the numbers
        u0 = None if has_lc else copy_matrix_of(twin)
        sub_arg = {p._symbol: val for p, val in b.params.values()}
    else:
        u0 = None if has_lc else copy_matrix_of(orig)
        sub_arg = {} if subs == "empty" else None
    what_call = f"{type(orig).__name__}.copy({'' if sub_arg is None else 'subs=' + ('{}' if not sub_arg else '{symbol: value, ...}')})"
    leafspec = {id(o): b.specs[nid]["leaf"] for nid, o in b.objs.items() if "leaf" in b.specs[nid]}
    ids = {}
    tree = obj_tree(orig, ids, leafspec)
    occ_o = occurrences(orig)
    nxt = len(ids)
    cp = orig.copy() if sub_arg is None else orig.copy(subs=sub_arg)
    occ_c = occurrences(cp)
    ids_c = [ids.setdefault(id(o), len(ids)) for o, *_ in occ_c]
    rep = chk.lean.ask({"op": "deepcopy", "tree": tree, "next": nxt})
    if "err" in rep:
        return ("broken", "deepcopy-model-error", rep["err"], rp)
    if rep["origIds"] != [ids[id(o)] for o, *_ in occ_o]:
        return ("broken", "deepcopy-harness-walk", "the two walks of the original disagree", rp)
    # ---- one new object per occurrence
    if ids_c != rep["ids"]:
        j = next((i for i, (x, y) in enumerate(zip(ids_c, rep["ids"])) if x != y), min(len(ids_c), len(rep["ids"])))
        if len(ids_c) == len(rep["ids"]):
            o = occ_c[j]
            shared_orig = next((i for i, x in enumerate(ids_c) if x < nxt), None)
            if shared_orig is not None:
                o = occ_c[shared_orig]
                return ("violation", "deep-copy-shares-objects", f"{what_call}: occurrence {shared_orig} of the copy "
                        f"(depth {o[1]}, mode {o[2]}, {type(o[0]).__name__}) is an object of the original", rp)
            # objects shared inside the copy only: not what the code did (one new object per occurrence) but original
            # and copy are still independent and the matrix is the same - model and code disagree, no failing input
            return ("broken", "deepcopy-sharing-inside-copy", f"{what_call}: occurrence {j} of the copy (depth {o[1]}, "
                    f"mode {o[2]}, {type(o[0]).__name__}) is an object the copy holds at an earlier place too; the model "
                    f"makes one new object per occurrence", rp)
        return ("violation", "deep-copy-structure", f"{what_call}: the copy holds {len(ids_c)} component occurrences, "
                f"the original {len(rep['ids'])}", rp)
    if kind == "processor" and cp.experiment is orig.experiment:
        return ("violation", "deep-copy-shares-objects", "Processor.copy() shares the Experiment object", rp)
    # ---- same nesting, same modes
    if shape_of(occ_c) != rep["shape"]:
        if shape_of(occ_c) != shape_of(occ_o):
            return ("violation", "deep-copy-structure", f"{what_call}: nesting / modes of the copy differ from the original's "
                    f"(copy {shape_of(occ_c)[:8]}, original {shape_of(occ_o)[:8]})", rp)
        return ("broken", "deepcopy-shape-model-vs-code", f"copy {shape_of(occ_c)[:8]}, model {rep['shape'][:8]}", rp)
    # ---- same matrix
    if u0 is not None:
        try:
            uc = copy_matrix_of(cp)
        except AssertionError as e:
            return ("violation", "copy-matrix", f"{what_call}: the copy has no numeric matrix ({str(e)[:80]})", rp)
        if not close_np(uc, np.array(core.unmat(rep["U"]), dtype=complex)):
            if not close_np(uc, u0):
                return ("violation", "copy-matrix", f"{what_call} changes the matrix by "
                        f"{float(np.max(np.abs(uc - u0))):.3g}", rp)
            return ("broken", "deepcopy-matrix-model-vs-code", "matrix of the copy differs from the model's", rp)
    if subs == "symbolic":
        if any(p.defined for p, _ in b.params.values()):
            return ("violation", "copy-not-independent", f"{what_call} gives values to the symbols of the ORIGINAL", rp)
    # ---- independence under in-place changes
    mutated = []
    if u0 is not None and subs != "symbolic":
        def mutable(objs):
            seen, out = set(), []
            for o, _, _, _, cont in objs:
                if not cont and type(o).__name__ in MUTABLE_CLASSES and id(o) not in seen:
                    seen.add(id(o))
                    out.append(o)
            return out

        def invert(o):
            try:
                o.inverse(h=True)
                return True
            except ValueError as e:
                if "out of bound" in str(e):
                    return False
                raise
        cands = mutable(occ_c)
        if cands:
            o = cands[case["pick"][0] % len(cands)]
            if invert(o):
                rm = chk.lean.ask({"op": "deepcopy", "tree": tree, "next": nxt, "mutate": ids[id(o)]})
                if "err" in rm:
                    return ("broken", "deepcopy-model-error", rm["err"], rp)
                uo = copy_matrix_of(orig)
                if not close_np(uo, u0):
                    return ("violation", "copy-not-independent", f"{what_call}; copy's {type(o).__name__}.inverse(h=True) "
                            f"changes the matrix of the ORIGINAL by {float(np.max(np.abs(uo - u0))):.3g}", rp)
                if not close_np(uo, np.array(core.unmat(rm["origAfter"]), dtype=complex)) or \
                        not close_np(copy_matrix_of(cp), np.array(core.unmat(rm["copyAfter"]), dtype=complex)):
                    return ("broken", "deepcopy-mutate-model-vs-code", "after an in-place inverse of a leaf of the copy the "
                            "matrices differ from the model's", rp)
                mutated.append("copy")
        cands = mutable(occ_o)
        n_occ = {}
        for o, *_ in occ_o:
            n_occ[id(o)] = n_occ.get(id(o), 0) + 1
        multi = [o for o in cands if n_occ[id(o)] > 1]
        if multi and case["pick"][1] % 2 == 0:
            cands = multi
        if cands:
            cp2 = orig.copy() if sub_arg is None else orig.copy(subs=sub_arg)
            o = cands[case["pick"][2] % len(cands)]
            if invert(o):
                rm = chk.lean.ask({"op": "deepcopy", "tree": tree, "next": nxt, "mutate": ids[id(o)]})
                if "err" in rm:
                    return ("broken", "deepcopy-model-error", rm["err"], rp)
                u2 = copy_matrix_of(cp2)
                if not close_np(u2, u0):
                    return ("violation", "copy-not-independent", f"{what_call}; original's {type(o).__name__}.inverse(h=True) "
                            f"changes the matrix of the COPY by {float(np.max(np.abs(u2 - u0))):.3g}", rp)
                if not close_np(copy_matrix_of(orig), np.array(core.unmat(rm["origAfter"]), dtype=complex)) or \
                        not close_np(u2, np.array(core.unmat(rm["copyAfter"]), dtype=complex)):
                    return ("broken", "deepcopy-mutate-model-vs-code", "after an in-place inverse of a leaf of the original "
                            "the matrices differ from the model's", rp)
                mutated.append("original-shared" if n_occ[id(o)] > 1 else "original")
    if count:
        chk.branch("deepcopy-" + kind)
        chk.branch("deepcopy-subs-" + (subs or "none"))
        if max(d for _, d, *_ in occ_o) >= 2:
            chk.branch("deepcopy-nested")
        n_occ = {}
        for o, _, _, _, cont in occ_o:
            n_occ[(id(o), cont)] = n_occ.get((id(o), cont), 0) + 1
        if any(n > 1 and not cont for (_, cont), n in n_occ.items()):
            chk.branch("deepcopy-shared-leaf")
        if any(n > 1 and cont for (_, cont), n in n_occ.items()):
            chk.branch("deepcopy-shared-subcircuit")
        if has_lc:
            chk.branch("deepcopy-with-loss")
        if len(occ_o) == 1:
            chk.branch("deepcopy-lone-component")
        for w in mutated:
            chk.branch("deepcopy-mutate-" + w)
        chk.count("deepcopy_occurrences", min(len(occ_o), 30))
    return None


def judge_copy(chk, case, count=True):
    try:
        return judge_copy_(chk, case, count)
    except core.LeanError:
        raise
    except (AssertionError, RuntimeError, ValueError, IndexError, TypeError, KeyError, AttributeError,
            NotImplementedError) as e:
        import traceback
        tb = traceback.extract_tb(e.__traceback__)
        where = next((f"{os.path.basename(fr.filename)}:{fr.name}" for fr in reversed(tb) if "perceval" in fr.filename), None)
        if where is None:
            raise
        return ("violation", "copy-raises", f"{where} raises {type(e).__name__}: {str(e)[:100]} while copying a valid "
                f"{case['kind']}", {"case": case})


def shrink_copy(chk, case, sig):
    cur = copy.deepcopy(case)
    budget = 60

    def fails(c):
        try:
            r = judge_copy(chk, c, count=False)
        except Exception:
            return False
        return r is not None and r[1] == sig

    changed = True
    while changed and budget > 0:
        changed = False
        n_nodes = len([n for n in copy_nodes(cur["top"], []) if "circ" in n])
        for idx in range(n_nodes):
            nd = [n for n in copy_nodes(cur["top"], []) if "circ" in n][idx]
            for i in range(len(nd["ops"])):
                if len(nd["ops"]) <= 1:
                    break
                c2 = copy.deepcopy(cur)
                n2 = [n for n in copy_nodes(c2["top"], []) if "circ" in n][idx]
                del n2["ops"][i]
                budget -= 1
                if fails(c2):
                    cur, changed = c2, True
                    break
            if changed or budget <= 0:
                break
    return cur


def handle_copy(chk, case):
    res = judge_copy(chk, case)
    nodes = copy_nodes(case["top"], [])
    chk.case(("copy", json.dumps(case, sort_keys=True)[:3000]),
             nontrivial=len(nodes) >= 3,
             sample={"part": "copy", "kind": case["kind"], "subs": case["subs"], "nodes": len(nodes)})
    if res is not None:
        kind, sig, what, replay = res
        small = shrink_copy(chk, case, sig) if kind == "violation" else case
        chk.fail(kind, sig, what, {"part": "copy", "case": small})


# ------------------------------------------------------------------------------------------------
# F. histories: transformation A, then transformation B, ... on ONE object (Model/C11Chain.lean, driver op `chain`)
# ------------------------------------------------------------------------------------------------
# Every transformation keeps two or more views of a component in step (BS: the attributes `_theta/_phi_xx` read by
# compute_unitary and the table `_params` read by copy() / describe(); Circuit: `_components` and `_params`; PERM /
# Unitary: `_u` and the permutation vector).  A view left behind by step A shows only in what step B reads.  The family
# runs every ORDERED PAIR of the nine transformations below (and longer histories) on one object and evaluates the matrix
# law of each step on the object the previous step left: inverse -> xform, every other step -> unchanged.
CHAIN_STEPS = ("inv-v", "inv-h", "inv-vh", "copy", "pcopy", "simplify", "decompose", "flatten", "regroup")
CHAIN_LEAF_STEPS = ("inv-v", "inv-h", "inv-vh", "copy")        # what a lone component offers
CHAIN_PAIRS = [(a, b) for a in CHAIN_STEPS for b in CHAIN_STEPS]
CHAIN_TRANSPARENT = {"copy": ["copy"], "pcopy": ["copy"], "flatten": ["flat"]}     # steps the tree model follows


def chain_step(rng, name):
    st = {"k": name}
    if name == "simplify":
        st["display"] = rng.random() < 0.4
    if name == "decompose":
        st["merge"] = rng.random() < 0.5
    return st


def four_unequal(spec):
    return spec["t"] == "BS" and len({json.dumps(spec[k]) for k in ("tl", "bl", "tr", "br")}) == 4


def gen_bs_four_phases(rng):
    while True:
        spec = gens.gen_leaf(rng, 2, kinds=("BS",))
        if four_unequal(spec):
            return spec


def gen_chain_case(rng, chk, pair=None):
    lone = rng.random() < 0.12 and (pair is None or (pair[0] in CHAIN_LEAF_STEPS and pair[1] in CHAIN_LEAF_STEPS))
    names = CHAIN_LEAF_STEPS if lone else CHAIN_STEPS
    if pair is None:
        steps = [rng.choice(names) for _ in range(rng.randint(2, chk.pick(4, 5)))]
    else:
        steps = list(pair)
        if rng.random() < 0.3:
            steps.insert(0, rng.choice(names))
        if rng.random() < 0.3:
            steps.append(rng.choice(names))
    steps = [chain_step(rng, s) for s in steps]
    describe = rng.random() < chk.pick(0.12, 0.04)
    if lone:
        spec = gen_bs_four_phases(rng) if rng.random() < 0.6 else gen_leaf(rng, 4, kinds=("BS", "PS", "PERM", "U"))
        return {"steps": steps, "describe": describe, "top": {"id": 1, "leaf": spec, "size": gens.leaf_width(spec)}}
    m = rng.randint(2, chk.pick(5, 7))
    if rng.random() < 0.05:
        m = rng.randint(WIDE_MIN, chk.pick(11, 14))
    pool, counter = [], [0]
    top = gen_inv_node(rng, m, rng.randint(0, 2), rng.randint(1, chk.pick(5, 8)), pool, counter)
    if rng.random() < 0.6:
        # the quantifier's "beam splitters with four unequal phases", in every second history at least
        counter[0] = max(n["id"] for n in pool) + 1
        leaf = {"id": counter[0], "leaf": gen_bs_four_phases(rng), "size": 2}
        top["ops"].insert(rng.randrange(len(top["ops"]) + 1), {"off": rng.randint(0, m - 2), "node": leaf,
                                                               "how": rng.choice(["nest", "fd"])})
    return {"steps": steps, "describe": describe, "top": top}


def chain_apply(obj, st, m):
    """one transformation of the real code applied to `obj`; returns the object work goes on with"""
    import perceval as pcvl
    k = st["k"]
    if k.startswith("inv-"):
        obj.inverse(v="v" in k[4:], h="h" in k[4:])
        return obj
    if k == "copy":
        return obj.copy()
    if k == "simplify":
        from perceval.utils.algorithms.simplification import simplify
        return simplify(obj, display=st["display"])
    if k == "decompose":
        from perceval.components.comp_utils import decompose_perms
        return decompose_perms(obj, merge=st["merge"])
    proc = pcvl.Processor("SLOS", m)
    proc.add(0, obj)
    if k == "pcopy":
        return proc.copy().linear_circuit()
    if k == "flatten":
        return proc.linear_circuit(flatten=True)
    if k == "regroup":
        c = pcvl.Circuit(m)
        for r, x in proc.non_unitary_circuit():
            c.add(tuple(int(i) for i in r), x)
        return c
    raise ValueError(k)


def chain_law(u, st):
    k = st["k"]
    return xform_np(u, "v" in k[4:], "h" in k[4:]) if k.startswith("inv-") else u


def real_tree(obj):
    """the real object as a tree of the model: containers as they are, leaves by their own matrices"""
    from perceval.components import PERM
    from perceval.components.unitary_components import Barrier
    parts = container_parts(obj)
    if parts is not None:
        return {"circ": parts[0], "items": [[int(list(r)[0]), real_tree(c)] for r, c in parts[1]]}
    if isinstance(obj, Barrier):
        return {"barrier": obj.m}
    if isinstance(obj, PERM):
        return {"perm": [int(x) for x in obj.perm_vector]}
    return {"un": obj.m, "U": gens.leaf_matrix_json(obj)}


def leaves_of(obj, out=None, seen=None):
    if out is None:
        out, seen = [], set()
    parts = container_parts(obj)
    if parts is None:
        if id(obj) not in seen:
            seen.add(id(obj))
            out.append(obj)
    else:
        for _, c in parts[1]:
            leaves_of(c, out, seen)
    return out


DESCRIBE_TOL = 1e-3     # describe() prints angles with 6 significant digits (simple_float, precision 1e-6)


def describe_rebuild(obj):
    """eval(obj.describe()) for circuits of BS / PS / PERM / Barrier (a Unitary prints a rounded matrix that is no
    longer unitary): None when the text is not evaluable"""
    import perceval.components as comps
    ns = {k: getattr(comps, k) for k in ("BS", "PS", "PERM", "Circuit", "Barrier") if hasattr(comps, k)}
    ns.update(pi=math.pi, sqrt=math.sqrt)
    try:
        return eval(obj.describe(), {"__builtins__": {}}, ns)
    except Exception:
        return None


# ---- MIXED histories (Model/C11Mixed.lean, driver op `mchain`): the model runs the WHOLE history - simplify, decompose_perms and
# the regrouping included - on the flattened view of the object as built; nothing the real code returned is read back.
MCHAIN_NAMES = {"copy": ["copy"], "pcopy": ["copy"], "flatten": ["flat"], "regroup": ["regroup"]}
MCHAIN_REBUILD = ("simplify", "decompose", "regroup")
MCHAIN_PAIRS = [(a, b) for a, b in CHAIN_PAIRS if a in MCHAIN_REBUILD or b in MCHAIN_REBUILD]
TWO_PI = 2 * math.pi


def flat_view(obj):
    """the list `for r, c in obj` iterates, with the class of every component: [(entry, component)]"""
    from perceval.components import PS, PERM
    if container_parts(obj) is not None:
        comps = [(tuple(int(i) for i in r), c) for r, c in obj]
    else:
        comps = [(tuple(range(obj.m)), obj)]
    out = []
    for r, c in comps:
        e = {"r0": r[0], "w": len(r)}
        if isinstance(c, PERM):
            e.update(k="perm", perm=[int(x) for x in c.perm_vector])
        elif isinstance(c, PS) and not c.param("phi").is_variable:
            e.update(k="ps", phi=float(c.param("phi")))
        elif isinstance(c, PS):
            e["k"] = "psvar"
        else:
            e["k"] = "leaf"
        out.append((e, c))
    return out


def mixed_state(view, byobj):
    st = []
    for e, c in view:
        if e["k"] == "perm":
            st.append({"r0": e["r0"], "perm": e["perm"]})
        elif e["k"] == "ps":
            st.append({"r0": e["r0"], "phi": core.rat(e["phi"]), "z": gens.leaf_matrix_json(c)[0][0]})
        else:
            spec = byobj.get(id(c))
            if spec is not None and spec["t"] in ("BS", "Barrier"):
                st.append({"r0": e["r0"], "leaf": lean_leaf(spec)})
            else:
                st.append({"r0": e["r0"], "leaf": {"un": c.m, "U": gens.leaf_matrix_json(c)}})
    return st


def mixed_step(st, drop_all):
    k = st["k"]
    if k.startswith("inv-"):
        return ["inv", "v" in k[4:], "h" in k[4:]]
    if k == "simplify":
        return ["simp", bool(st["display"]), bool(drop_all)]
    if k == "decompose":
        return ["decomp", bool(st["merge"])]
    return MCHAIN_NAMES[k]


def phase_close(a, b):
    d = (a - b) % TWO_PI
    return min(d, TWO_PI - d) <= 1e-9


def view_diff(model, real):
    """None when the model's list is the real one; otherwise (text, only phase shifters differ)"""
    def same(a, b):
        if (a["r0"], a["w"], a["k"]) != (b["r0"], b["w"], b["k"]):
            return False
        if a["k"] == "perm":
            return list(a["perm"]) == list(b["perm"])
        if a["k"] == "ps":
            return phase_close(float(Fraction(a["phi"])), b["phi"])
        return True
    if len(model) == len(real) and all(same(a, b) for a, b in zip(model, real)):
        return None
    def brief(l):
        return [(e["k"], e["r0"], e["w"]) + ((tuple(e["perm"]),) if e["k"] == "perm" else ()) for e in l]
    nops = lambda l: [e for e in l if e["k"] != "ps"]
    only_ps = len(nops(model)) == len(nops(real)) and all(same(a, b) for a, b in zip(nops(model), nops(real)))
    return f"model {brief(model)}, code {brief(real)}"[:400], only_ps


def judge_mixed(chk, case, state0, steps, views, mats, history, count):
    """compare the model's mixed history with what the real steps left (views / mats: per step)"""
    rp = {"case": case}
    m = mats[0].shape[0]
    flags = [True] * len(steps)
    ambiguous_at = None
    for _ in range(len(steps) + 1):
        import time
        t0 = time.perf_counter()
        rep = chk.lean.ask({"op": "mchain", "m": m, "state": state0,
                            "steps": [mixed_step(st, f) for st, f in zip(steps, flags)]})
        chk.extra["mchain_model_wall_s"] = round(chk.extra.get("mchain_model_wall_s", 0) + time.perf_counter() - t0, 2)
        if "err" in rep:
            return ("broken", "mchain-model-error", rep["err"], rp)
        trace = rep["trace"]
        bad = None
        for i in range(len(steps) + 1):
            real = [e for e, _ in views[i]]
            d = view_diff(trace[i]["state"], real)
            if d is not None:
                bad = (i, d)
                break
            if "U" in trace[i] and not close_np(np.array(core.unmat(trace[i]["U"]), dtype=complex), mats[i]):
                return ("broken", "mchain-matrix-model-vs-code", f"history [{history(i)}]: the component list is the "
                        f"model's, the matrix is not (the law of every step holds on the real objects)", rp)
        if bad is None:
            break
        i, (txt, only_ps) = bad
        if i >= 1 and steps[i - 1]["k"] == "simplify" and flags[i - 1]:
            flags[i - 1] = False        # the drop tests of this simplify: rounding decided to keep
            continue
        if i >= 1 and steps[i - 1]["k"] == "simplify" and only_ps and not steps[i - 1]["display"]:
            # two drop tests of one simplify decided differently by floating-point rounding (both outcomes are allowed
            # by the specification: simplify_sound takes the outcomes as an input) - the rest is not compared
            ambiguous_at = i
            break
        return ("broken", "mchain-list-model-vs-code", f"history [{history(i)}] run by the model without reading "
                f"anything back: {txt}", rp)
    if count:
        upto = len(steps) if ambiguous_at is None else ambiguous_at - 1
        names = [s["k"] for s in steps[:upto]]
        if ambiguous_at is not None:
            chk.branch("mchain-drop-outcomes-mixed")
        else:
            chk.branch("mchain-whole-history")
        if not all(flags):
            chk.branch("mchain-drop-test-rounded-to-keep")
        for a, c in zip(names, names[1:]):
            if a in MCHAIN_REBUILD or c in MCHAIN_REBUILD:
                chk.branch(f"mchain-{a}->{c}")
        if sum(1 for n in names if n in MCHAIN_REBUILD) >= 2 and any(n.startswith("inv-") for n in names):
            chk.branch("mchain-two-rebuilds-and-inverse")
    return None


def judge_chain_(chk, case, count=True):
    from perceval.components import BS, PS, PERM
    from perceval.components.unitary_components import Barrier
    top, steps = case["top"], case["steps"]
    rp = {"case": case}
    b = Builder()
    b.index(top)
    obj = b.build(top)
    m = obj.m
    tree, seg = b.lean(top), []
    u_prev = np_u(obj)
    done = []
    byobj = {id(o): b.specs[nid]["leaf"] for nid, o in b.objs.items() if "leaf" in b.specs[nid]}
    views, mats = [flat_view(obj)], [u_prev]
    state0 = mixed_state(views[0], byobj)

    def history(k):
        return " ; ".join(s["k"] + ("(display)" if s.get("display") else "") + ("(merge)" if s.get("merge") else "")
                          for s in steps[:k])
    for i, st in enumerate(steps, 1):
        k = st["k"]
        try:
            with time_limit(HANG_LIMIT):
                obj = chain_apply(obj, st, m)
                u_new = np_u(obj)
        except ImplHang as e:
            return ("violation", f"chain-{k}-does-not-return", f"history [{history(i)}]: step {i} has not returned "
                    f"after {HANG_LIMIT} s", rp)
        except Exception as e:
            if isinstance(e, ValueError) and "out of bound" in str(e):
                chk.branch("skipped-C14-wrap")
                return None
            return ("violation", f"chain-{k}-raises", f"history [{history(i)}] on one object: step {i} ({k}) raises "
                    f"{type(e).__name__}: {str(e)[:100]}", rp)
        # ---- direct oracle: the matrix law of this step on the object the previous step left
        want = chain_law(u_prev, st)
        if not close_np(u_new, want):
            after = f" after [{history(i - 1)}]" if i > 1 else ""
            return ("violation", f"chain-{k}-matrix", f"{k}{after} on one object: the matrix is not "
                    f"{'the advertised transform of' if k.startswith('inv-') else 'that of'} the object it was applied to "
                    f"(deviates by {format(float(np.max(np.abs(u_new - want))), '.3g') if u_new.shape == want.shape else 'its shape'})", rp)
        # ---- the model's history
        if k.startswith("inv-") or k in CHAIN_TRANSPARENT:
            seg = seg + [["inv", "v" in k[4:], "h" in k[4:]] if k.startswith("inv-") else CHAIN_TRANSPARENT[k]]
            rep = chk.lean.ask({"op": "chain", "tree": tree, "steps": seg})
            if "err" in rep:
                return ("broken", "chain-model-error", rep["err"], rp)
            if not close_np(u_new, np.array(core.unmat(rep["U"]), dtype=complex)):
                return ("broken", "chain-model-vs-code", f"history [{history(i)}]: the matrix differs from the model's "
                        f"although every step obeys its law on the real objects", rp)
            flat = [[int(r[0]), len(r)] for r, _ in obj] if container_parts(obj) is not None else [[0, obj.m]]
            if flat != rep["flat"]:
                return ("broken", "chain-ranges-model-vs-code", f"history [{history(i)}]: components at {flat}, "
                        f"model {rep['flat']}", rp)
        else:
            # the list was rebuilt (simplify / decompose_perms / regroup): the law is the identity; read it back
            new_tree = real_tree(obj)
            rep = chk.lean.ask({"op": "chain", "tree": new_tree, "steps": []})
            if "err" in rep:
                return ("broken", "chain-model-error", f"{rep['err']} (list read back after {k})", rp)
            prev = chk.lean.ask({"op": "chain", "tree": tree, "steps": seg})
            if not close_np(np.array(core.unmat(rep["U"]), dtype=complex), np.array(core.unmat(prev["U"]), dtype=complex)):
                return ("broken", "chain-model-vs-code", f"history [{history(i)}]: the model's matrix of the list read back "
                        f"after {k} is not the model's matrix before it", rp)
            tree, seg = new_tree, []
        u_prev = u_new
        done.append(k)
        views.append(flat_view(obj))
        mats.append(u_new)
    # ---- the mixed history of the model (no read-back) against what every step left
    if all(e["k"] != "psvar" for v in views for e, _ in v):
        res = judge_mixed(chk, case, state0, steps, views, mats, history, count)
        if res is not None:
            return res
    # ---- what the last step left: every component on its own can be copied (its second view is in step)
    for leaf in leaves_of(obj):
        if not hasattr(leaf, "compute_unitary"):
            continue
        try:
            ul, uc = np_u(leaf), np_u(leaf.copy())
        except Exception as e:
            return ("violation", "chain-leaf-copy-raises", f"history [{history(len(steps))}]: copy() of the resulting "
                    f"{type(leaf).__name__} raises {type(e).__name__}: {str(e)[:100]}", rp)
        if not close_np(ul, uc):
            return ("violation", "chain-leaf-copy-matrix", f"history [{history(len(steps))}]: copy() of the resulting "
                    f"{type(leaf).__name__} has another matrix (by {float(np.max(np.abs(ul - uc))):.3g})", rp)
    lv = leaves_of(obj)
    # (describe() costs about 0.2 s per printed angle - sympy in simple_float: a marked tenth of the histories only)
    if case.get("describe") and lv and len(lv) <= 8 and all(isinstance(x, (BS, PS, PERM, Barrier)) for x in lv):
        rebuilt = describe_rebuild(obj)
        if rebuilt is not None:
            try:
                ur = np_u(rebuilt)
            except Exception:
                ur = None
            if ur is not None and ur.shape == u_prev.shape:
                if count:
                    chk.branch("chain-describe-rebuilt")
                if float(np.max(np.abs(ur - u_prev))) > DESCRIBE_TOL * max(1, len(lv)):
                    # describe() is not one of the property's transformations: the object's printed form and its
                    # matrix disagree, the property's own clauses hold on this input
                    return ("broken", "chain-describe-rebuild", f"history [{history(len(steps))}]: the circuit rebuilt "
                            f"from describe() deviates by {float(np.max(np.abs(ur - u_prev))):.3g}", rp)
    if count:
        for a, c in zip(done, done[1:]):
            chk.branch(f"chain-{a}->{c}")
        if len(done) >= 3:
            chk.branch("chain-three-or-more-steps")
    return None


def judge_chain(chk, case, count=True):
    try:
        return judge_chain_(chk, case, count)
    except core.LeanError:
        raise
    except (AssertionError, RuntimeError, ValueError, IndexError, TypeError, KeyError, AttributeError,
            NotImplementedError) as e:
        where = perceval_frame(e)
        if where is None:
            raise
        return ("violation", "chain-raises", f"{where} raises {type(e).__name__}: {str(e)[:100]} in a history of "
                f"transformations of a valid circuit", {"case": case})


def perceval_frame(e):
    """file:function of the innermost frame of the code under test in the traceback of `e` (None: the exception was
    raised and stayed in the harness)"""
    import traceback
    tb = traceback.extract_tb(e.__traceback__)
    return next((f"{os.path.basename(fr.filename)}:{fr.name}" for fr in reversed(tb)
                 if "perceval" in fr.filename and "/harness/" not in fr.filename), None)


def shrink_chain(chk, case, sig):
    cur = copy.deepcopy(case)
    budget = 80

    def fails(c):
        try:
            r = judge_chain(chk, c, count=False)
        except Exception:
            return False
        return r is not None and r[1] == sig
    changed = True
    while changed and budget > 0:
        changed = False
        for i in range(len(cur["steps"])):
            if len(cur["steps"]) <= 1:
                break
            cand = copy.deepcopy(cur)
            del cand["steps"][i]
            budget -= 1
            if fails(cand):
                cur, changed = cand, True
                break
        if changed or "circ" not in cur["top"]:
            continue
        for i in range(len(cur["top"]["ops"])):
            if len(cur["top"]["ops"]) <= 1:
                break
            cand = copy.deepcopy(cur)
            del cand["top"]["ops"][i]
            budget -= 1
            if fails(cand):
                cur, changed = cand, True
                break
    return cur


def handle_chain(chk, case):
    b = Builder()
    b.index(case["top"])
    specs, occ = {}, {}
    leaf_specs(case["top"], b.specs, specs)
    count_occurrences(case["top"], b.specs, occ)
    if any(four_unequal(s) for s in specs.values()):
        chk.branch("chain-bs-four-unequal-phases")
    if any(n > 1 for n in occ.values()):
        chk.branch("chain-shared-object")
    if "leaf" in case["top"]:
        chk.branch("chain-lone-component")
    elif has_nested_offset(case["top"], b.specs):
        chk.branch("chain-nested-offset")
    names = [s["k"] for s in case["steps"]]
    chk.count("chain_len", len(names))
    res = judge_chain(chk, case)
    chk.case(("chain", json.dumps(case, sort_keys=True)[:3000]), nontrivial=len(specs) >= 2 or "leaf" in case["top"],
             sample={"part": "chain", "steps": names, "leaves": [s["t"] for s in specs.values()][:6]})
    if res is not None:
        kind, sig, what, replay = res
        small = shrink_chain(chk, case, sig) if kind == "violation" else case
        chk.fail(kind, sig, what, {"part": "chain", "case": small})


# ------------------------------------------------------------------------------------------------
PARTS = {"inverse": handle_inverse, "simplify": handle_simplify, "decompose": handle_decompose,
         "flatten": handle_flatten, "copy": handle_copy, "chain": handle_chain}


def run_part(chk, part, case):
    """one case of one family.  Nothing the code under test does on a legal input may end the run: an exception that
    escapes a family's own handling is reported for the input at hand - as a violation when it was raised by the
    code under test, as a disagreement when the harness could not evaluate what the code returned."""
    try:
        PARTS[part](chk, case)
    except core.LeanError:
        raise
    except Exception as e:
        where = perceval_frame(e)
        if where is not None:
            chk.fail("violation", f"{part}-raises", f"{where} raises {type(e).__name__}: {str(e)[:120]} on a valid input "
                     f"of the {part} family", {"part": part, "case": case})
        else:
            import traceback
            fr = traceback.extract_tb(e.__traceback__)[-1]
            chk.fail("broken", f"{part}-result-not-evaluable", f"the result of the implementation could not be evaluated "
                     f"({type(e).__name__}: {str(e)[:120]} at {os.path.basename(fr.filename)}:{fr.lineno})",
                     {"part": part, "case": case})


def run_whole(chk, fn, name):
    try:
        fn(chk)
    except core.LeanError:
        raise
    except Exception as e:
        where = perceval_frame(e)
        chk.fail("violation" if where else "broken", f"{name}-raises" if where else f"{name}-result-not-evaluable",
                 f"{where or 'harness'}: {type(e).__name__}: {str(e)[:120]}", {"part": name})


def load_corpus():
    out = []
    for p in sorted(glob.glob(os.path.join(core.VERIF, "corpus", "C11", "*.json"))):
        out.append(json.load(open(p)))
    return out


def run(chk: core.Check):
    chk.rule = ("six families: (chain) histories of 2..5 transformations on one object - every ordered pair of inverse(v) / "
                "inverse(h) / inverse(v,h) / Circuit.copy / Processor.copy / simplify / decompose_perms / flatten / regroup - on "
                "nested circuits with shared objects and beam splitters with four different phases, the law of each step "
                "evaluated on what the previous step left; non-trivial = >= 2 leaves or a lone component; (simplify) also runs "
                "of consecutive PERMs in every relation of their mode ranges; (inverse) construction programs with nested sub-circuits, shared component objects, "
                "three BS conventions x five independent rational-exact angles, all (v, h) flag combinations; (perms) "
                "exhaustive small permutations for the helpers and the bubble sort; (simplify) random circuits of PS "
                "(numeric incl. exact opposites and zero, variable), PERM, BS, Unitary, Barrier, nested slices, both display "
                "modes, list and Circuit inputs, every intermediate state checked; (flatten) processors with nested circuits "
                "at non-zero offsets, loss channels, time delays, max_depth; (copy) circuits / processors / experiments with "
                "nested sub-circuits whose leaf and sub-circuit objects are held several times, copy() / copy(subs={}) / "
                "copy(subs={symbol: value}) with phase shifters on symbols, in-place inverse of a leaf of the copy and of "
                "the original afterwards. distinct = distinct generated programs; non-trivial = "
                "inverse: shared object / nested offset / >= 3 leaves; simplify: >= 2 PERMs; flatten: two nesting levels at a "
                "non-zero offset; copy: >= 3 nodes; perms: every case. Every family also draws wide instances (9..40 modes for simplify / "
                "decompose_perms with permutations as wide as the circuit and the in-between components clustered around "
                "a focus mode, half of the time one of the size boundaries 8/16/32; 9..20 modes for inverse and flatten; "
                "random permutations of up to 40 modes for the helpers and the bubble sort)")
    chk.assumptions = [
        "Unitary / PERM leaves are known to the model by their own compute_unitary() (C14); BS and PS by exact parameters",
        "the simplifier's heuristic (_generate_compatible_perm / _update_perm / _search_empty_space) is modelled "
        "exactly and proved to give a valid choice; the correspondence observes it through simplify only (the "
        "unravelling permutation is recovered from the output when the circuit is unravelled, through the score "
        "comparison when it is kept)",
        "beyond 12 modes the reference matrix of simplify / decompose_perms is the exact row-wise (Fraction) product "
        "of the leaves' own matrices computed by the harness; it is cross-checked against the Lean model on every "
        "case of at most 12 modes",
        "symbolic (undefined) parameters, WP/PR (no inverse), polarised components and leaf-first `//` on a reused leaf "
        "(shallow copies sharing Parameter objects) are not generated - except phase shifters on a symbol in the copy "
        "family, where copy(subs={symbol: value}) is compared with the same program written with the numbers",
        "copy: the fields Experiment.copy() / Processor.copy() share with the original (ports, heralds, detectors, "
        "post-selection, noise, input state, backend) are not compared; Processor.copy(subs=...) drops `subs` on /repo "
        "(fixes/C11-processor-copy-subs.diff, symbolic parameters are outside the property) and is probed only with "
        "VERIF_C11_PROBE_PROCESSOR_COPY_SUBS=1",
    ]
    chk.required_branches = [
        "inv-v", "inv-h", "inv-vh", "inv-three-calls", "inv-shared-object", "inv-nested-offset", "inv-lone-component",
        "bs-four-unequal-phases", "perm-invert", "perm-reduce", "perm-extend", "perm-compose", "bubble",
        "simp-successive", "simp-single", "simp-non-successive/kept", "simp-non-successive/unravelled",
        "simp-ps/keep", "simp-ps/drop", "simp-ps-fused", "simp-ps-fused-through-perm", "simp-display", "simp-compute",
        "decompose-perms", "flatten-depth-none", "flatten-depth-limited", "flatten-two-levels-nonzero-offset",
        "regroup-with-loss", "regroup-time-delay", "regroup-several-blocks", "unitary-circuit-refused",
        "regroup-block-of-several-comps-narrower-than-circuit", "copy", "linear-circuit-flatten",
        # wide circuits (>= 9 modes, permutations as wide as the circuit) in every family
        "inv-wide", "inv-wide-component", "perm-wide-invert", "perm-wide-reduce", "perm-wide-extend",
        "perm-wide-compose", "bubble-wide", "simp-wide", "simp-wide-perm", "simp-wide-unravelled",
        "simp-wide-unravelled-high-modes", "simp-unravelled-group-across-8", "simp-unravelled-group-across-16",
        "simp-unravelled-overlapping-comps", "decompose-perms-wide", "flatten-wide", "flatten-wide-with-loss",
        "exact-product-cross-checked",
        # the exact model of the heuristic: every non-successive step equals the model's single result, and the
        # paths of _generate_compatible_perm / _update_perm / _search_empty_space are all taken
        "simp-heuristic-exact", "heur-first-step", "heur-second-step", "heur-search-left", "heur-search-right",
        "heur-identity-retry", "heur-shift-right", "heur-shift-left", "heur-shift-right-wide",
        # copy() of nested circuits with object identity against the model's deep copy (driver op `deepcopy`)
        "deepcopy-circuit", "deepcopy-processor", "deepcopy-experiment", "deepcopy-nested", "deepcopy-shared-leaf",
        "deepcopy-shared-subcircuit", "deepcopy-with-loss", "deepcopy-lone-component", "deepcopy-subs-none",
        "deepcopy-subs-empty", "deepcopy-subs-symbolic", "deepcopy-mutate-copy", "deepcopy-mutate-original",
        "deepcopy-mutate-original-shared",
        # two permutations meeting in the successive branch of _simplify_perm / in perm_compose: every relation of the
        # two mode ranges, the shifted equal-size ones in both display modes
        *["perm-pair-" + rel for rel in PAIR_RELATIONS], *["perm-compose-pair-" + rel for rel in PAIR_RELATIONS],
        "perm-pair-same-size-shifted-overlap-display", "perm-pair-same-size-shifted-overlap-compute",
        "perm-pair-same-size-disjoint-display", "perm-pair-same-size-disjoint-compute",
        "perm-pair-non-self-inverse-off-range",
        # histories on one object: every ordered pair of transformations
        *[f"chain-{a}->{b}" for a, b in CHAIN_PAIRS], "chain-three-or-more-steps", "chain-bs-four-unequal-phases",
        "chain-shared-object", "chain-lone-component", "chain-nested-offset", "chain-describe-rebuilt",
        # the same histories run by the model as ONE mixed history (driver op mchain, nothing read back)
        *[f"mchain-{a}->{b}" for a, b in MCHAIN_PAIRS], "mchain-whole-history", "mchain-two-rebuilds-and-inverse",
        # the object decompose_perms returns, nesting included (driver op decompnest)
        "decompose-nest-merged", "decompose-nest-unmerged", "decompose-nest-merged-keeps-empty-circuit",
        "decompose-nest-unmerged-empty-circuit", "decompose-nest-one-mode-perm", "decompose-nest-subcircuit-at-offset",
        "decompose-nest-several-subcircuits", "decompose-nest-two-mode-perm-kept", "decompose-nest-wide",
    ]
    chk.lean = core.LeanDriver("C11")
    rng = chk.rng
    for data in load_corpus():
        run_part(chk, data["part"], data["case"])
    # the required branches must be reached by the generators themselves, not by the stored cases
    chk.extra["corpus_branches"] = dict(chk.branches)
    chk.branches = {}
    import time
    sect = chk.extra.setdefault("section_cpu_s", {})

    def timed(name, t0):
        sect[name] = round(sect.get(name, 0) + time.process_time() - t0, 1)
        return time.process_time()
    t = time.process_time()
    run_whole(chk, run_perm_helpers, "perm-helper")
    run_whole(chk, run_bubble, "bubble")
    t = timed("perms", t)
    for _ in range(chk.pick(700, 4000)):
        run_part(chk, "inverse", gen_inv_case(rng, chk))
    t = timed("inverse", t)
    for i in range(chk.pick(800, 3000)):
        case = gen_simp_case(rng, chk)
        run_part(chk, "simplify", case)
        if i % 4 == 0:
            run_part(chk, "decompose", case)
    shift_cases = gen_shift_cases(rng, chk)
    chk.extra["shift_cases"] = len(shift_cases)
    for case in shift_cases:
        run_part(chk, "simplify", case)
    t = timed("simplify", t)
    for _ in range(chk.pick(450, 2500)):
        run_part(chk, "flatten", gen_flat_case(rng, chk))
    t = timed("flatten", t)
    for _ in range(chk.pick(300, 1500)):
        run_part(chk, "copy", gen_copy_case(rng, chk))
    t = timed("copy", t)
    # runs of consecutive permutations in every relation of their mode ranges
    for i in range(chk.pick(300, 1500)):
        case = gen_simp_perm_runs(rng, chk)
        run_part(chk, "simplify", case)
        if i % 4 == 0:
            run_part(chk, "decompose", case)
    t = timed("perm-runs", t)
    for _ in range(chk.pick(150, 800)):
        run_part(chk, "decompose", gen_nest_case(rng, chk))
    t = timed("decompose-nest", t)
    # histories on one object: every ordered pair of transformations, then free histories
    for pair in CHAIN_PAIRS:
        for _ in range(chk.pick(4, 16)):
            run_part(chk, "chain", gen_chain_case(rng, chk, pair))
    for _ in range(chk.pick(150, 800)):
        run_part(chk, "chain", gen_chain_case(rng, chk))
    t = timed("chain", t)


def replay(chk, data):
    chk.lean = core.LeanDriver("C11")
    chk.rule = "replay of one stored case"
    rp = data["replay"]
    part = rp["part"]
    if part in PARTS:
        PARTS[part](chk, rp["case"])
    elif part == "perm-helper":
        run_perm_helpers(chk)
    elif part == "bubble":
        run_bubble(chk)
